"""C12 - same document, same bytes: deterministic and order-independent."""
from __future__ import annotations

import ast
from typing import Any

from ..astutil import Locals, call_name, constructs_error, error_names, norm, role_anon, short, stmt_of, where
from ..core import PKG, Report
from ..pyindex import dotted

LEVEL = ("hash-seed clause: every place where the ORDER of a set-typed value is observed (Python for/comprehension/join/"
         "list()/next(iter())/pop(); Jinja for/join/list/first) is enumerated from the typed program (abstract interpreter "
         "types for Python, template interpreter for Jinja) in the whole package, the document model included; each is sorted, a "
         "proven singleton, feeds an order-insensitive update, or does - followed through the functions it calls - nothing but keyed "
         "idempotent updates, text for an error object, and yields (a generator that yields in set order is an unordered iterable "
         "itself, judged at its consumers). Environment-dependent sources are enumerated. Permutation clause "
         "(narrow): aggregates are sorted, worklist rounds reset their errors and let any item of a round ask for the next one, suffix tests on reference paths are "
         "separator-anchored, re-registrations of shared classes are monotone, late-filled fields of copied "
         "classes are read by templates only on the rendered object itself, context-less imported templates keep no macro-written "
         "module state, the parsed document is written by nobody outside the schema package (a node is visited more than once), what "
         "is emitted for a class that may be declared several times reads only what the re-declaration test compares, and order-"
         "normalised where that test ignores order.")

# calls (by node identity) of generator functions of the package whose yield order follows the traversal of a set: such a call is
# an unordered iterable exactly like the set it passes on (filled by _unordered_generators for the tree under analysis)
_UNORDERED_CALLS: set[int] = set()
ENV_SOURCES = ("time.time", "time.monotonic", "datetime.now", "datetime.utcnow", "datetime.today", "date.today", "random.",
               "uuid.uuid1", "uuid.uuid4", "os.getpid", "os.listdir", "os.scandir", "glob.glob", "os.environ", "os.getenv",
               "socket.gethostname", "getpass.getuser", "secrets.")
# builtins whose result differs between two runs on the same document: hash() of a str / bytes / anything containing one is salted per
# process (PYTHONHASHSEED), id() is an address.  Inside __hash__ / __eq__ they only feed the interpreter's own tables.
ENV_BUILTINS = ("hash", "id")


ORDERED = {"list", "sortedlist", "tuple"}
# consumers whose result does not depend on the order in which their (single) iterable argument is traversed
ORDER_BLIND = ("sorted", "set", "frozenset", "any", "all", "sum", "len", "min", "max", "Counter")
SET_METHODS = ("update", "union", "intersection", "difference", "symmetric_difference", "intersection_update", "difference_update",
               "symmetric_difference_update", "issubset", "issuperset", "isdisjoint")


def _types_of(e: ast.AST | None, it: Any) -> frozenset[str]:
    """container types the expression may evaluate to.  The interpreter records abstract values of names, attributes, calls and
    subscripts only; the type of every other expression form is derived here from its operands, so that a set is a set however it
    is written: a display `{a, b}`, a set comprehension, `s | t`, `a if c else s`, `s or set()`, `(x := s)`, `*s` ..."""
    if e is None:
        return frozenset()
    if isinstance(e, (ast.Set, ast.SetComp)):
        return frozenset({"set"})
    if isinstance(e, (ast.List, ast.ListComp)):
        return frozenset({"list"})
    if isinstance(e, ast.Tuple):
        return frozenset({"tuple"})
    if isinstance(e, (ast.Dict, ast.DictComp)):
        return frozenset({"dict"})
    if isinstance(e, ast.GeneratorExp):
        return frozenset({"iter"})
    if isinstance(e, (ast.Constant, ast.JoinedStr, ast.Compare, ast.Lambda)):
        return frozenset()
    if isinstance(e, ast.Call) and call_name(e) in ("set", "frozenset"):
        return frozenset({"set"})
    if isinstance(e, ast.Call) and call_name(e) in ("sorted", "list"):
        return frozenset({"list"})
    if isinstance(e, ast.BinOp):
        l, r = _types_of(e.left, it), _types_of(e.right, it)
        if isinstance(e.op, (ast.BitOr, ast.BitXor)):
            return l | r
        if isinstance(e.op, (ast.BitAnd, ast.Sub)):
            return l
        return (l | r) - {"set"}  # no other binary operator yields a set
    if isinstance(e, ast.IfExp):
        return _types_of(e.body, it) | _types_of(e.orelse, it)
    if isinstance(e, ast.BoolOp):
        return frozenset().union(*[_types_of(v, it) for v in e.values])
    if isinstance(e, (ast.NamedExpr, ast.Starred, ast.Await)):
        return _types_of(e.value, it)
    av = it.node_av.get(id(e))
    return frozenset(av.types) if av is not None else frozenset()


def _may_be_set(e: ast.AST | None, it: Any) -> bool:
    """some evaluation of e yields a set (and e is not declared to be an ordered sequence as well: the annotations of the analysed
    program use `list | set` nowhere, a value of both types is an imprecision of the join)"""
    if isinstance(e, (ast.IfExp, ast.BoolOp)):
        # either operand alone decides what is traversed: `s if c else []` traverses the set s whenever c holds
        return any(_may_be_set(v, it) for v in ([e.body, e.orelse] if isinstance(e, ast.IfExp) else e.values))
    if isinstance(e, ast.Call) and id(e) in _UNORDERED_CALLS:
        return True  # a generator that yields while it traverses a set hands the set's order on
    t = _types_of(e, it)
    if isinstance(e, ast.Call) and ((isinstance(e.func, ast.Attribute) and e.func.attr == "get" and len(e.args) == 2) or
                                    (call_name(e) == "getattr" and len(e.args) == 3)):
        # `d.get(k, ())`: the ordered type is the stand-in for a missing entry, what is traversed otherwise is the set
        t = t - (_types_of(e.args[-1], it) & ORDERED) if "set" in t else t
    return "set" in t and not (t & ORDERED)


def _insensitive_body(body: list[ast.stmt]) -> bool:
    """the loop body only performs keyed/idempotent updates (set.add/update/discard, dict[key]=, membership tests)"""
    for st in body:
        if isinstance(st, (ast.Pass, ast.Continue)):
            continue
        if isinstance(st, ast.If):
            if not _insensitive_body(st.body) or not _insensitive_body(st.orelse):
                return False
            continue
        if isinstance(st, ast.Expr) and isinstance(st.value, ast.Call) and isinstance(st.value.func, ast.Attribute) and \
                st.value.func.attr in ("add", "update", "discard", "add_dependencies", "setdefault"):
            continue
        return False
    return True


def run(rep: Report, ctx: Any) -> str:
    ix = ctx.py
    it, ji = ctx.flow
    rep.rule("R12.1", "no observation of the order of a set - anywhere in the package, the document model and its validators included - "
                      "reaches generated output: it is sorted / a singleton / consumed order-blind, or everything that is done per element "
                      "(followed into the called functions, recursion included) is a keyed idempotent update (set.add/update/discard, "
                      "setdefault, pop with default, del / pop under an established membership), text stored into an error object, or a "
                      "yield - and a generator that yields while it traverses a set is itself an unordered iterable whose every traversal "
                      "is an instance of this rule; a value made from the order may end as text in an error object only; no "
                      "environment-dependent source is used")
    rep.rule("R12.2", "aggregates are emitted through a sort; worklist rounds keep what they record for a re-queued item (its error, the re-queue "
                      "entry) from the last round only, and what decides about "
                      "another round is bound monotonically per item (one constant, or accumulated from itself) and can be moved by an item; "
                      "suffix tests on reference paths are separator-anchored; updates of already registered classes are monotone")
    rep.rule("R12.3", "a field that is filled in after construction (declared Optional, written outside the constructors) of a class whose "
                      "instances are also copied without it is read by templates only on the object handed to render(), never on an "
                      "object reached through fields / loops / macro parameters (that may be a copy taken before the field was filled)")
    rep.rule("R12.4", "a template that is imported without context (its module is cached for the whole run) holds no module-level object "
                      "that one of its macros writes to: what a render emits must not depend on the renders before it")
    rep.rule("R12.5", "the parsed document is read-only outside the schema package: no statement stores into an attribute of a document "
                      "object, or stores into / calls a mutating method on / hands to a writing function a container that may be one held "
                      "by a document object (on some path, through locals, `or` / conditional arms, views, helpers' results), unless "
                      "the object was created by the function itself - the parser visits one node several times (retry rounds, shared "
                      "components), every visit must see the same document")
    rep.rule("R12.6", "a class that may be declared several times under one registered name (the builder compares the registered entry "
                      "with the new declaration and accepts it when equal): the templates rendered with the registered object read from "
                      "it only the registration key and the compared fields, and where the comparison ignores order (dict / set equality) "
                      "every observation of that field's order is sorted - otherwise the declaration that happens to be registered last "
                      "decides the output")
    rep.rule("R12.8", "the traversal of a map of the document (a loop whose items are document objects taken from a dict - the dict, its "
                      "items() / values(), directly or through a local) does not ask what it has collected from the items before: a local "
                      "that starts as an empty container or a number outside the loop and is filled inside it (by the loop body or by a "
                      "function that is handed it) is not read back there as a fact - membership, length / count / truth, a stored "
                      "number or text, a traversal, the counter itself - other than to create the entry of a key (get-or-create) or "
                      "to report a diagnostic: such a fact is the position of the item in the map, and what is made from it (a "
                      "numbered name, a skipped duplicate) changes when the map is permuted.  The threaded registries (Schemas / "
                      "Parameters: parameters, not such locals) are the business of R12.2 / R12.7")
    rep.assumptions.append("dict iteration order is insertion order (language guarantee); only set/frozenset order is hash-dependent")
    rep.assumptions.append("R12.3: the objects passed to Template.render() are the registered instances themselves and rendering starts after "
                           "parsing has finished, so every late write has happened on them")

    n_py = 0
    cfgs: dict[str, Any] = {}
    order = _OrderEffects(ix, it)
    unordered = _unordered_generators(ix, it, order)
    for f in ix.all_functions:
        parent = {id(ch): p_ for p_ in ast.walk(f.node) for ch in ast.iter_child_nodes(p_)}
        for n in ast.walk(f.node):
            for expr, desc, node in _order_observations(n, f.node, parent):
                if not _may_be_set(expr, it):
                    continue
                n_py += 1
                key = f"{short(f)}::{desc}"
                if _feeds_order_blind(node, parent, it):
                    rep.ok("R12.1", key, "set", "feeds a set / sorted() / order-blind aggregate: order not observed")
                    continue
                if isinstance(node, (ast.For, ast.AsyncFor)) and _insensitive_body(node.body):
                    rep.ok("R12.1", key, "set", "loop body performs only keyed / idempotent updates")
                    continue
                if isinstance(node, (ast.For, ast.AsyncFor)) and order.query(f, node.body):
                    rep.ok("R12.1", key, "effects", "everything the loop body does (followed into the functions it calls) is a keyed idempotent "
                           "update, text put into an error object, or a yield" +
                           (" - the generator's callers are judged as traversals of an unordered iterable" if f.qual in unordered else ""))
                    continue
                if isinstance(node, ast.YieldFrom) and f.qual in unordered:
                    rep.ok("R12.1", key, "passed on", "the order is passed on to the consumers of this generator, each judged as a traversal "
                           "of an unordered iterable")
                    continue
                if _singleton_guard(f, node, expr, parent, cfgs):
                    rep.ok("R12.1", key, "set", "singleton by a dominating len(...) test")
                    continue
                if isinstance(node, ast.JoinedStr) and _only_in_error(f.node, node):
                    rep.ok("R12.1", key, "set", "formatted into an error detail only")
                    continue
                if isinstance(node, ast.expr) and _only_into_diagnostics(f, node, parent, it) and \
                        order.query_calls(f, [c for c in ast.walk(node) if isinstance(c, ast.Call)]):
                    rep.ok("R12.1", key, "diagnostics", "what is made of the traversal is text that ends in an error object and nowhere else; "
                           "what the traversal does on the way is keyed and idempotent")
                    continue
                rep.fail("R12.1", key, f"the iteration order of the set `{norm(expr)}` is observed here and is not sorted, a singleton, "
                                       "or an order-insensitive update: output may depend on PYTHONHASHSEED", where(f, node),
                         lhs=sorted(_types_of(expr, it)), rhs="sorted(...) / singleton / keyed update")
    rep.floor("python_set_order_observations", n_py, 5)
    rep.control("R12.1 set-valued expressions that are not names", _control_untyped_set_forms())

    # templates
    n_t = 0
    unfolders: dict[str, Any] = {}

    def plain(tname: str, text: str) -> str:
        """key text of a template expression: template-local names for an access path read as the path"""
        if tname not in unfolders:
            unfolders[tname] = _name_unfolder(ctx.jinja.templates[tname]) if tname in ctx.jinja.templates else (lambda t: t)
        return unfolders[tname](text)

    for k, itn in sorted(ji.iterations.items(), key=lambda kv: (kv[1].template, kv[1].macro, kv[1].expr, kv[1].kind)):
        if "set" not in itn.types or itn.kind in ("list",):
            continue
        n_t += 1
        key = f"{itn.template}::{itn.macro}::{itn.kind} {plain(itn.template, itn.expr)}"
        rep.check(False, "R12.1", key, f"`{itn.expr}` is a set and is iterated ({itn.kind}) without `| sort`: the emitted order depends "
                                       "on string hashing", where=f"{PKG}/templates/{itn.template}:{itn.line}",
                  lhs=sorted(itn.types), rhs="| sort")
    for k, itn in sorted(ji.iterations.items(), key=lambda kv: (kv[1].template, kv[1].macro, kv[1].expr)):
        if itn.sorted_ and itn.kind == "for":
            n_t += 1
            rep.ok("R12.1", f"{itn.template}::{itn.macro}::for {plain(itn.template, itn.expr)}", "sorted", "| sort / dictsort")
    rep.floor("template_order_observations", n_t, 3)
    # sorted aggregates: what models_init.py.jinja is handed was collected in document order; every `for` over it runs over a sorted
    # sequence - sorted by the template (`| sort`) or already by the render call
    n_a = 0
    for k, itn in sorted(ji.iterations.items()):
        arg = plain(itn.template, itn.expr).split("|")[0]
        if itn.kind == "for" and arg in ("imports", "alls") and itn.template == "models_init.py.jinja":
            n_a += 1
            rep.check(itn.sorted_ or _sorted_by_render_call(ix, itn.template, arg), "R12.2", f"{itn.template}::for {plain(itn.template, itn.expr)}",
                      "aggregate over all schemas is not sorted", where=f"{PKG}/templates/{itn.template}:{itn.line}", lhs=itn.expr,
                      rhs="| sort, or sorted(...) at the render call")
    rep.floor("aggregate_loops_of_models_init", n_a, 1)

    # environment sources
    n_env = 0
    for f in ix.all_functions:
        for n in ast.walk(f.node):
            txt = None
            if isinstance(n, ast.Call):
                txt = call_name(n)
            elif isinstance(n, ast.Attribute):
                txt = dotted(n)
            if txt and any(s in txt + ("" if txt.endswith(".") else "") for s in ENV_SOURCES):
                if isinstance(n, ast.Attribute) and any(isinstance(p, ast.Call) and p.func is n for p in ast.walk(f.node)):
                    continue
                n_env += 1
                rep.fail("R12.1", f"{short(f)}::{txt}", f"environment-dependent source `{txt}` is used by the generator", where(f, n))
            elif isinstance(n, ast.Call) and txt in ENV_BUILTINS and f.name not in ("__hash__", "__eq__"):
                n_env += 1
                rep.fail("R12.1", f"{short(f)}::{txt}()", f"`{txt}()` differs from one run to the next (hash() of text is salted per process, id() is an "
                         "address): a value computed from it that reaches a name, a path or generated text makes the output depend on the run",
                         where(f, n))
    rep.control("R12.1 env-source table", any(s in "time.time" for s in ENV_SOURCES) and any(s in "random.choice" for s in ENV_SOURCES))
    rep.indexed["environment_sources"] = n_env

    # ---- R12.2 ------------------------------------------------------------------------------------------------------
    _round_loops(rep, ix)
    # separator-anchored suffix tests on references
    n_s = 0
    for f in ix.all_functions:
        refs = ({"ref_path"} & {p_.arg for p_ in f.params}) | set(Locals(f.node).bound_from(lambda v: v.startswith("parse_reference_path("), "assign"))
        for n in ast.walk(f.node):
            if isinstance(n, ast.Call) and isinstance(n.func, ast.Attribute) and n.func.attr == "endswith" and n.args and \
                    _reference_text(n.func.value, f.node, refs):
                n_s += 1
                a = n.args[0]
                rep.check(_slash_anchored(a, f.node, refs), "R12.2", f"{short(f)}::endswith({role_anon(a, f.node)[:40]})",
                          "suffix test on a reference without the `/` separator: a schema whose name is a suffix of another's is "
                          "confused with it (outcome then depends on the order of definitions)", where(f, n),
                          lhs=norm(n)[:80], rhs="argument starts with '/' or is a full reference path")
    rep.floor("reference_suffix_tests", n_s, 1)
    # monotone re-registration: wherever the multipart flag of an existing object is set (copy with the field given, or a store)
    n_m = 0
    for f in ix.all_functions:
        for n in ast.walk(f.node):
            obj = val = None
            if isinstance(n, ast.Call) and call_name(n).rsplit(".", 1)[-1] in COPIERS and n.args:
                obj, val = n.args[0], next((kw.value for kw in n.keywords if kw.arg == "is_multipart_body"), None)
            elif isinstance(n, ast.Call) and call_name(n) in ("object.__setattr__", "setattr") and len(n.args) == 3 and \
                    isinstance(n.args[1], ast.Constant) and n.args[1].value == "is_multipart_body":
                obj, val = n.args[0], n.args[2]
            elif isinstance(n, ast.Assign) and f.name not in CONSTRUCTORS:
                for t in n.targets:
                    if isinstance(t, ast.Attribute) and t.attr == "is_multipart_body":
                        obj, val = t.value, n.value
            if val is None:
                continue
            n_m += 1
            old_flag = norm(obj) + ".is_multipart_body"
            monotone = (isinstance(val, ast.Constant) and val.value is True) or \
                (isinstance(val, ast.BoolOp) and isinstance(val.op, ast.Or) and
                 any(norm(v) == old_flag or (isinstance(v, ast.Constant) and v.value is True) for v in val.values))
            rep.check(monotone, "R12.2", f"{short(f)}::evolve(is_multipart_body)", "a flag of an already registered (shared) class is set "
                      "from the current item: the last operation parsed wins, so output depends on the order of paths",
                      where(f, n), lhs=norm(val), rhs="constant True, or `<old flag> or ...` (monotone)")
    rep.floor("shared_class_flag_updates", n_m, 1)
    _late_filled_fields(rep, ctx)
    _template_module_state(rep, ctx)
    _document_read_only(rep, ctx)
    _redeclared_classes(rep, ctx)
    _arrival_order(rep, ctx)
    # R12.7: nobody registers into the threaded registries (Schemas / Parameters) in place - the retry rounds go back to the state of
    # before a failed attempt, which only works on evolved copies.  Stated once for C08 / C12 / C20 in the shared module inplace.py
    # (written on the C08 branch); the clause is claimed here as soon as that module is part of the tree
    try:
        from . import inplace
    except ImportError:
        inplace = None  # type: ignore[assignment]
    if inplace is not None:
        inplace.check(rep, ctx, "R12.7")
    else:
        rep.not_decided += ["in-place registration into the threaded registries (shared rule inplace.py not present in this tree)"]
    rep.not_decided += ["independence of the tree from what an earlier run left in the output directory (stated by C01 R01.9 / C08 R08.10 / C19 "
                        "R19.3; evaluating that rule here was tried and given up: it reports correct rewrites of the wipe - a loop over the "
                        "directory names, a local name for the package directory, `if path.exists(): rmtree(path)` in a helper)"]
    rep.not_decided += ["invariance under permutation as such (class-name collisions and {name}_type_{i} numbering are order-sensitive "
                        "by construction; the property restricts itself to documents without diagnostics)"]
    return LEVEL


# ---- R12.2 worklist rounds ----------------------------------------------------------------------------------------------------
LIST_GROW = ("append", "extend", "insert")


class _Same:
    """union-find over (function, expression text): one list object under the names it has in a function and in the private helpers
    it is handed to / returned from"""

    def __init__(self) -> None:
        self.p: dict[tuple[str, str], tuple[str, str]] = {}

    def find(self, k: tuple[str, str]) -> tuple[str, str]:
        self.p.setdefault(k, k)
        while self.p[k] != k:
            self.p[k] = self.p[self.p[k]]
            k = self.p[k]
        return k

    def union(self, a: tuple[str, str], b: tuple[str, str]) -> None:
        ra, rb = self.find(a), self.find(b)
        if ra != rb:
            self.p[max(ra, rb)] = min(ra, rb)

    def members(self, k: tuple[str, str]) -> set[tuple[str, str]]:
        r = self.find(k)
        return {m for m in list(self.p) if self.find(m) == r}


def _is_path(e: ast.AST | None) -> bool:
    while isinstance(e, ast.Attribute):
        e = e.value
    return isinstance(e, ast.Name)


def _paths_in(e: ast.AST) -> set[str]:
    return {norm(n) for n in ast.walk(e) if _is_path(n) and isinstance(getattr(n, "ctx", None), ast.Load)}


def _fresh_list(v: ast.AST | None) -> bool:
    return (isinstance(v, ast.List) and not v.elts) or (isinstance(v, ast.Call) and call_name(v) == "list" and not v.args and not v.keywords)


def _bindings(st: ast.stmt) -> list[tuple[str, ast.AST | None]]:
    """(target text, value bound to it) of an assignment statement; a tuple target is paired with the elements of a tuple value, or
    with the whole value (a call result that is unpacked)"""
    out: list[tuple[str, ast.AST | None]] = []
    if isinstance(st, ast.Assign):
        pairs = [(t, st.value) for t in st.targets]
    elif isinstance(st, ast.AnnAssign) and st.value is not None:
        pairs = [(st.target, st.value)]
    else:
        return out
    while pairs:
        t, v = pairs.pop()
        if isinstance(t, (ast.Tuple, ast.List)):
            if isinstance(v, (ast.Tuple, ast.List)) and len(v.elts) == len(t.elts):
                pairs += list(zip(t.elts, v.elts))
            else:
                pairs += [(e, v) for e in t.elts]
        elif _is_path(t):
            out.append((norm(t), v))
    return out


def _round_loops(rep: Report, ix: Any) -> None:
    """worklist rounds, found by role: a loop in which a local is traversed item by item (by the loop itself or by a private helper it
    is handed to) and re-bound, inside the loop, to what was collected for the next round.  Whatever is put into a list on a path that
    also re-queues the item (the error of the failed attempt, a record that carries it, the entry of the next work list) is the record
    of one attempt, and the list must start empty in every round: an item that fails in one round and succeeds in a later one must
    not leave its error behind, or the diagnostics depend on the order of definitions.  What the record is made of does not matter
    (an error object, a tuple / named record around it, an error class that is a parameter).  Indifferent to how the loop is driven
    (flag, `while True` + break, counter), to continue versus else, to parallel lists versus one list of records from which the next
    work list is derived, and to a round or an item step that lives in a helper."""
    from ..astutil import cfg_of, enclosing_loop_body, region

    cfgs: dict[str, Any] = {}
    n_rounds = 0
    n_driven = [0]
    for f in ix.all_functions:
        for loop in [n for n in ast.walk(f.node) if isinstance(n, (ast.While, ast.For, ast.AsyncFor))]:
            # -- the round's scope: the loop body and the private helpers called from it
            called = {call_name(c).rsplit(".", 1)[-1] for st in loop.body for c in ast.walk(st) if isinstance(c, ast.Call)}
            helpers: list[Any] = []
            for h in region(ix, f)[1:]:
                if h.name in called:
                    for g in region(ix, h):
                        if g.qual != f.qual and g not in helpers:
                            helpers.append(g)
            scope: list[tuple[Any, list[ast.stmt]]] = [(f, [s for st in loop.body for s in ast.walk(st) if isinstance(s, ast.stmt)])]
            scope += [(h, [s for s in ast.walk(h.node) if isinstance(s, ast.stmt) and s is not h.node]) for h in helpers]
            by_name = {h.name: h for h in helpers}
            # -- one object, several names: arguments / parameters, returned values / unpacked results
            same = _Same()
            alias_calls: set[int] = set()
            for g, stmts in scope:
                for st in stmts:
                    for c in [c for c in walk_own_calls(st)]:
                        h = by_name.get(call_name(c).rsplit(".", 1)[-1])
                        if h is None:
                            continue
                        pos = [a.arg for a in [*h.node.args.posonlyargs, *h.node.args.args]]
                        if h.cls is not None and pos[:1] and pos[0] in ("self", "cls"):
                            pos = pos[1:]
                        for i, a in enumerate(c.args):
                            if i < len(pos) and _is_path(a):
                                same.union((g.qual, norm(a)), (h.qual, pos[i]))
                        for k in c.keywords:
                            if k.arg and _is_path(k.value):
                                same.union((g.qual, norm(k.value)), (h.qual, k.arg))
                        if isinstance(st, (ast.Assign, ast.AnnAssign)) and st.value is c:
                            alias_calls.add(id(c))
                            rets = [r.value for r in ast.walk(h.node) if isinstance(r, ast.Return) and r.value is not None]
                            for t in (st.targets if isinstance(st, ast.Assign) else [st.target]):
                                for rv in rets:
                                    if isinstance(t, (ast.Tuple, ast.List)) and isinstance(rv, ast.Tuple) and len(rv.elts) == len(t.elts):
                                        for e, r in zip(t.elts, rv.elts):
                                            if _is_path(e) and _is_path(r):
                                                same.union((g.qual, norm(e)), (h.qual, norm(r)))
                                    elif _is_path(t) and _is_path(rv):
                                        same.union((g.qual, norm(t)), (h.qual, norm(rv)))
            # -- the work list: re-bound in the loop and traversed in the round
            traversed: dict[str, set[str]] = {}
            for g, stmts in scope:
                its = [n.iter for st in stmts for n in ast.walk(st) if isinstance(n, (ast.For, ast.AsyncFor, ast.comprehension))]
                traversed[g.qual] = set().union(*[names_in_load(i) for i in its]) if its else set()
            rebound: dict[str, list[ast.AST | None]] = {}
            for st in scope[0][1]:
                for t, v in _bindings(st):
                    if "." not in t:
                        rebound.setdefault(t, []).append(v)
            nxt: set[tuple[str, str]] = set()
            work: list[str] = []
            for w, vals in sorted(rebound.items()):
                if not any(nm in traversed.get(q, ()) for q, nm in same.members((f.qual, w))):
                    continue
                work.append(w)
                for v in vals:
                    if isinstance(v, ast.Call) and id(v) in alias_calls:
                        nxt.add(same.find((f.qual, w)))  # the helper hands the next work list back
                    elif v is not None:
                        nxt |= {same.find((f.qual, nm)) for nm in names_in_load(v) - {w}}
            # -- what grows in the round
            grows: list[tuple[Any, ast.stmt, str, ast.AST]] = []
            for g, stmts in scope:
                for st in stmts:
                    if isinstance(st, ast.Expr) and isinstance(st.value, ast.Call) and isinstance(st.value.func, ast.Attribute) and \
                            st.value.func.attr in LIST_GROW and st.value.args:
                        grows.append((g, st, norm(st.value.func.value), st.value.args[-1]))
                    elif isinstance(st, ast.AugAssign) and isinstance(st.op, ast.Add):
                        grows.append((g, st, norm(st.target), st.value))
            requeues = [m for m in grows if same.find((m[0].qual, m[2])) in nxt]
            if not work or not requeues:
                continue  # not a worklist round
            n_rounds += 1
            # -- error records of re-queued items
            errs = {g.qual: error_names(g.node) for g, _ in scope}

            def on_one_path(g: Any, a: ast.stmt, b: ast.stmt) -> bool:
                """a and b are executed for the same item: one reaches the other without passing the head of the item loop"""
                if a is b:
                    return True
                cfg = cfg_of(g, cfgs)
                la, lb = enclosing_loop_body(g.node, a), enclosing_loop_body(g.node, b)
                return b in cfg.reachable_from(a, avoid=lambda n: n is la and la is not None) or \
                    a in cfg.reachable_from(b, avoid=lambda n: n is lb and lb is not None)

            # what is recorded for an item on the way on which it is re-queued - the error of the failed attempt, a record that holds it,
            # the entry in the next work list itself - is a record of one attempt.  How many attempts an item needs depends on the order
            # of definitions, so every list such a record goes into starts empty in every round.  (Error records first: they give the
            # obligation its key.)
            stale: dict[tuple[str, str], tuple[Any, ast.stmt, str, ast.AST]] = {}
            with_requeue = [m for m in grows if any(r[0] is m[0] and on_one_path(m[0], m[1], r[1]) for r in requeues)]
            for m in sorted(with_requeue, key=lambda m: not (constructs_error(m[3]) or bool(names_in_load(m[3]) & errs[m[0].qual]))):
                stale.setdefault(same.find((m[0].qual, m[2])), m)
            changed = True
            while changed:  # what a per-round error list is poured into carries the same obligation
                changed = False
                for m in grows:
                    g, st, recv, payload = m
                    c = same.find((g.qual, recv))
                    if c not in stale and any(same.find((g.qual, p)) in stale for p in _paths_in(payload)):
                        stale[c] = m
                        changed = True
            n_driven[0] += _round_progress(rep, f, loop, scope, same, by_name, alias_calls)
            funcs = {g.qual: g for g, _ in scope}
            f_stmts = scope[0][1]
            in_loop = {id(s) for s in f_stmts}
            for c, m in sorted(stale.items(), key=lambda kv: (kv[1][0].qual != f.qual, kv[1][0].qual, kv[1][1].lineno)):
                why = ""
                for q, nm in sorted(same.members(c)):
                    g = funcs.get(q)
                    if g is None:
                        continue
                    if g is f:
                        # statements of the loop that put something into the list: directly, or by handing it to a helper that does
                        via_helper = any(x[0] is not f and same.find((x[0].qual, x[2])) == c for x in grows)
                        puts = [x[1] for x in grows if x[0] is f and x[2] == nm]
                        if via_helper:
                            puts += [st for st in f_stmts for cl in walk_own_calls(st) if call_name(cl).rsplit(".", 1)[-1] in by_name and
                                     nm in [norm(a) for a in [*cl.args, *[k.value for k in cl.keywords]]]]
                        # a helper's result is a new list unless the helper fills a list it was handed (and may hand that one back)
                        handed = any(x[0] is not f and same.find((x[0].qual, x[2])) == c and x[2] in {a.arg for a in x[0].params} for x in grows)
                        resets = {id(st) for st in ast.walk(f.node) if isinstance(st, ast.stmt) for t, v in _bindings(st)
                                  if t == nm and (_fresh_list(v) or (isinstance(v, ast.Call) and id(v) in alias_calls and not handed))}
                        cfg = cfg_of(f, cfgs)

                        def avoid(n: object) -> bool:
                            return id(n) in resets

                        carried = any(loop in cfg.reachable_from(a, avoid=avoid) for a in puts)
                        around = cfg.reachable_from(loop, avoid=avoid)
                        cycle = any(p in around and id(p) in in_loop for p in cfg.pred.get(loop, ()))
                        if carried and cycle:
                            why = f"`{nm}` is filled in one round and not emptied before the next"
                    elif nm in {a.arg for a in [*g.params, *([g.node.args.vararg] if g.node.args.vararg else []),
                                                  *([g.node.args.kwarg] if g.node.args.kwarg else [])]}:
                        continue  # the caller's list: judged under the caller's name
                    elif "." in nm:
                        if any(x[0] is g and x[2] == nm for x in grows):
                            why = f"`{nm}` ({short(g)}) belongs to an object that outlives the round"
                    else:
                        vals = [v for k, _, v in Locals(g.node).defs.get(nm, []) if not k.startswith("aug")]
                        if not vals or not all(_fresh_list(v) or (isinstance(v, ast.Call) and id(v) in alias_calls) for v in vals):
                            why = f"`{nm}` ({short(g)}) does not start as an empty list in every call"
                    if why:
                        break
                g, st, recv, payload = m
                rep.check(not why, "R12.2", f"{short(f)}::round-errors[{role_anon(payload, g.node)[:60]}]",
                          f"{why}: it accumulates what is recorded for items that are re-queued (their errors, their entries for the next round), "
                          "so what is reported depends on how many rounds an item needed, that is on the order of definitions", where(g, st), lhs=recv, rhs="starts empty in every round")
    rep.floor("progress_loops", n_rounds, 1)
    rep.floor("round_loops_driven_by_what_the_items_did", n_driven[0], 1)


def _shallow(stmts: list[ast.stmt]) -> Any:
    """the statements of a loop body that belong to the loop itself: not those of the loops (and definitions) nested in it"""
    for st in stmts:
        yield st
        if isinstance(st, (ast.For, ast.AsyncFor, ast.While, ast.FunctionDef, ast.AsyncFunctionDef, ast.ClassDef)):
            continue
        for fld in ("body", "orelse", "finalbody"):
            sub = getattr(st, fld, None)
            if isinstance(sub, list) and sub and isinstance(sub[0], ast.stmt):
                yield from _shallow(sub)
        for h in getattr(st, "handlers", None) or []:
            yield from _shallow(h.body)
        for c in getattr(st, "cases", None) or []:
            yield from _shallow(c.body)


def _round_progress(rep: Report, f: Any, loop: ast.AST, scope: list[tuple[Any, list[ast.stmt]]], same: "_Same", by_name: dict[str, Any],
                    alias_calls: set[int]) -> bool:
    """Another round is run as long as the last one got somewhere - that is what makes the result independent of the order in which
    the items are declared, and it only works if ANY item of the round can ask for the next one.  The variables that decide about
    another round are found by role: what the `while` test of the round loop reads, and what the tests read that lead to a `break` /
    `return` of the round loop itself.  Such a variable is followed into the helpers of the round under the names it has there
    (handed in, returned, unpacked).  Every binding of it that is executed once per item - inside a loop nested in the round, in the
    round body or in a helper, or anywhere in a helper that is called from such a loop - must
      * be monotone: the same constant everywhere, or a value computed from the variable itself (`x = x or ok`, `n += 1`); a binding
        to something else makes the last item of the round decide alone;
      * and, where the round puts the variable back to a constant first, some per-item binding must be able to move it away from
        that constant (another constant, or an accumulation the constant does not absorb) - or the round computes it afterwards.
    Indifferent to flag versus counter, `while flag` versus `while True` + break, polarity, and to where the round or the item step
    lives.  Returns whether the loop has such a variable with per-item bindings (for the floor)."""
    lc = Locals(f.node)
    tests: list[ast.expr] = [loop.test] if isinstance(loop, ast.While) else []
    for st in _shallow(loop.body):
        if isinstance(st, ast.If) and any(isinstance(x, (ast.Break, ast.Return)) for x in _shallow([*st.body, *st.orelse])):
            tests.append(st.test)
    deciders = sorted({nm for t in tests for nm in names_in_load(t) if nm in lc.defs})
    if not deciders:
        return False
    # -- which statements of the round run once per item
    per_item: dict[str, set[int]] = {}
    for g, stmts in scope:
        inner = [n for st in (loop.body if g is f else g.node.body) for n in ast.walk(st) if isinstance(n, (ast.For, ast.AsyncFor, ast.While))]
        per_item[g.qual] = {id(s) for lp in inner for st in [*lp.body, *lp.orelse] for s in ast.walk(st) if isinstance(s, ast.stmt)}
    every: set[str] = set()   # helpers that are called from a per-item statement: all of their statements are per item
    for _ in range(len(scope) + 1):
        grown = False
        for g, stmts in scope:
            for st in stmts:
                if g.qual in every or id(st) in per_item[g.qual]:
                    for c in walk_own_calls(st):
                        h = by_name.get(call_name(c).rsplit(".", 1)[-1])
                        if h is not None and h.qual not in every and h.qual != f.qual:
                            every.add(h.qual)
                            grown = True
        if not grown:
            break
    found = False
    for d in deciders:
        cls = same.find((f.qual, d))
        rnd: list[tuple[str, Any, str]] = []    # bindings made once per round: (kind, detail, text)
        item: list[tuple[str, Any, str, Any, ast.stmt]] = []
        for g, stmts in scope:
            for st in stmts:
                got: list[tuple[str, ast.AST | None, ast.AST | None]] = [(t, v, None) for t, v in _bindings(st)]
                if isinstance(st, ast.AugAssign) and _is_path(st.target):
                    got.append((norm(st.target), st.value, st.op))
                from ..cfg import walk_own

                got += [(n.target.id, n.value, None) for n in walk_own(st) if isinstance(n, ast.NamedExpr) and isinstance(n.target, ast.Name)]
                for t, v, aug in got:
                    if same.find((g.qual, t)) != cls:
                        continue
                    mentions = v is not None and any(same.find((g.qual, p_)) == cls for p_ in _paths_in(v))
                    if aug is not None:
                        kind, detail = "accumulates", type(aug).__name__
                    elif isinstance(v, ast.Constant):
                        kind, detail = "constant", repr(v.value)
                    elif mentions:
                        kind, detail = "accumulates", type(v.op).__name__ if isinstance(v, (ast.BoolOp, ast.BinOp)) else "other"
                    elif isinstance(v, ast.Call) and id(v) in alias_calls and not (g.qual in every or id(st) in per_item[g.qual]):
                        continue  # the round's helper hands the variable back: its bindings there are judged under this class
                    elif _examined_with_exit(g, st, {nm for q, nm in same.members(cls) if q == g.qual}):
                        continue  # `x = step(item); if x: break`: the value is acted upon before the next item replaces it
                    else:
                        kind, detail = "computed", norm(v)[:60] if v is not None else "?"
                    if g.qual in every or id(st) in per_item[g.qual]:
                        item.append((kind, detail, norm(st)[:70], g, st))
                    else:
                        rnd.append((kind, detail, norm(st)[:70]))
        if not item and not rnd:
            continue  # decided outside the round (a limit handed in, ...): nothing to state
        found = found or bool(item)
        consts = sorted({x[1] for x in item if x[0] == "constant"})
        overwritten = [x for x in item if x[0] == "computed"]
        g0, st0 = (overwritten[0][3], overwritten[0][4]) if overwritten else (item[0][3], item[0][4]) if item else (f, loop)
        key = f"{short(f)}::round-progress" + (f"[{deciders.index(d)}]" if len(deciders) > 1 else "")
        rep.check(not overwritten and len(consts) <= 1, "R12.2", key,
                  f"what decides about another round of the worklist loop is overwritten once per item ({[x[2] for x in overwritten] or consts}): "
                  "the last item of a round decides alone, so whether a forward reference gets the round it needs depends on the order of "
                  "definitions in the document", where(g0, st0), lhs=[(x[0], x[1]) for x in item],
                  rhs="per item: one constant, or a value accumulated from the variable itself")
        resets = sorted({x[1] for x in rnd if x[0] == "constant"})
        if rnd and len(resets) == len({(x[0], x[1]) for x in rnd}):  # the round only ever puts it back to constants
            absorbing = {"False": ("And", "BitAnd", "Mult"), "True": ("Or", "BitOr"), "0": ("Mult", "BitAnd", "And")}
            moves = [x for x in item if (x[0] == "constant" and x[1] not in resets) or x[0] == "computed" or
                     (x[0] == "accumulates" and not all(x[1] in absorbing.get(r, ()) for r in resets))]
            rep.check(bool(moves), "R12.2", key + "::moved", "the round puts the variable that decides about another round back to "
                      f"{resets} and nothing that is executed per item can move it away from that: the items of a round cannot ask for the "
                      "next one, a forward reference is never retried", where(f, loop), lhs=[(x[0], x[1]) for x in item],
                      rhs="a per-item binding to another constant / a non-absorbed accumulation")
    return found


def _examined_with_exit(g: Any, st: ast.stmt, names: set[str]) -> bool:
    """the loop in which statement st of g binds one of `names` is left (break / return / raise) under a test of that variable: a value
    that stops the traversal is not overwritten by the next item"""
    from ..astutil import enclosing_loop_body

    lp = enclosing_loop_body(g.node, st)
    if lp is None:
        return False
    for x in _shallow(lp.body):
        if isinstance(x, ast.If) and _paths_in(x.test) & names and \
                any(isinstance(y, (ast.Break, ast.Return, ast.Raise)) for y in _shallow([*x.body, *x.orelse])):
            return True
    return False


def walk_own_calls(st: ast.stmt) -> list[ast.Call]:
    from ..cfg import walk_own

    return [n for n in walk_own(st) if isinstance(n, ast.Call)]


def names_in_load(e: ast.AST) -> set[str]:
    return {n.id for n in ast.walk(e) if isinstance(n, ast.Name) and isinstance(n.ctx, ast.Load)}


def _order_observations(n: ast.AST, fn: ast.AST, parent: dict[int, ast.AST]) -> list[tuple[ast.expr, str, ast.AST]]:
    """(traversed expression, description for the construct key, observing node) for every way in which node n makes the order of an
    iterable visible: statements and expressions that traverse it front to back, take its first element or print it"""
    sites: list[tuple[ast.expr, str, ast.AST]] = []

    def ra(e: ast.AST) -> str:
        return role_anon(e, fn)

    if isinstance(n, (ast.For, ast.AsyncFor)):
        sites.append((n.iter, f"for {ra(n.iter)}", n))
    elif isinstance(n, (ast.ListComp, ast.GeneratorExp, ast.DictComp)):
        for g in n.generators:
            sites.append((g.iter, f"comprehension over {ra(g.iter)}", n))
    elif isinstance(n, ast.Call):
        cn = call_name(n)
        if cn in ("list", "tuple", "next", "iter", "enumerate", "reversed", "str", "repr") and n.args:
            inner = n.args[0]
            if cn == "next" and isinstance(inner, ast.Call) and call_name(inner) == "iter" and inner.args:
                inner = inner.args[0]
            sites.append((inner, f"{cn}({ra(inner)})", n))
        elif cn == "zip" and n.args:
            sites.append((n.args[0], f"zip({ra(n.args[0])})", n))
            for a in n.args[1:]:
                sites.append((a, f"zip(.., {ra(a)})", n))
        elif cn in ("map", "filter") and len(n.args) > 1:
            for a in n.args[1:]:
                sites.append((a, f"{cn}(.., {ra(a)})", n))
        elif isinstance(n.func, ast.Attribute) and n.func.attr == "join" and n.args:
            sites.append((n.args[0], f"join({ra(n.args[0])})", n))
        elif isinstance(n.func, ast.Attribute) and n.func.attr == "pop" and not n.args:
            sites.append((n.func.value, f"{ra(n.func.value)}.pop()", n))
        elif isinstance(n.func, ast.Attribute) and n.func.attr in ("extend", "fromkeys") and n.args:
            sites.append((n.args[0], f"{n.func.attr}({ra(n.args[0])})", n))
    elif isinstance(n, ast.JoinedStr):
        for v in n.values:
            if isinstance(v, ast.FormattedValue):
                sites.append((v.value, f"f-string of {ra(v.value)}", n))
    elif isinstance(n, ast.Starred) and isinstance(getattr(n, "ctx", None), ast.Load):
        # `[*s]`, `(*s,)`, `f(*s)`: the elements are laid out in iteration order (a set display `{*s}` is a set again)
        par = parent.get(id(n))
        if not isinstance(par, ast.Set):
            sites.append((n.value, f"*{ra(n.value)}", par if isinstance(par, (ast.List, ast.Tuple)) else n))
    elif isinstance(n, ast.YieldFrom):
        sites.append((n.value, f"yield from {ra(n.value)}", n))
    elif isinstance(n, ast.Assign) and any(isinstance(t, (ast.Tuple, ast.List)) for t in n.targets):
        sites.append((n.value, f"unpacking of {ra(n.value)}", n))
    elif isinstance(n, ast.AugAssign) and isinstance(n.op, ast.Add):
        sites.append((n.value, f"+= {ra(n.value)}", n))
    return sites


def _control_untyped_set_forms() -> bool:
    """synthetic fragment: every way of writing a set that the interpreter does not record a type for must be seen as a set, and the
    same forms under an order-blind consumer must not"""
    class NoTypes:
        node_av: dict[int, Any] = {}

    src = ("def f(a, b, c):\n"
           "    x = list({g(t) for t in a})\n"
           "    y = [*({1, 2} | set(b))]\n"
           "    for z in ({c} if a else frozenset(b)):\n"
           "        print(z)\n"
           "    return ', '.join(set(a) - {c}), sorted({t for t in a}), len(list({1, 2}))\n")
    fn = ast.parse(src).body[0]
    parent = {id(ch): p_ for p_ in ast.walk(fn) for ch in ast.iter_child_nodes(p_)}
    seen, blind = 0, 0
    for n in ast.walk(fn):
        for expr, _, node in _order_observations(n, fn, parent):
            if _may_be_set(expr, NoTypes):
                if _feeds_order_blind(node, parent):
                    blind += 1
                else:
                    seen += 1
    return seen == 4 and blind == 1


def _feeds_order_blind(node: ast.AST, parent: dict[int, ast.AST], it: Any = None) -> bool:
    """the observing expression is itself the argument of a consumer that forgets the order again: sorted(list(s)), set(x for x in s),
    any(... for x in s), len([.. for x in s]), `{*[.. for x in s]}`"""
    if not isinstance(node, ast.expr):
        return False
    par = parent.get(id(node))
    if isinstance(par, ast.Starred):
        par = parent.get(id(par))
        return isinstance(par, ast.Set)
    if isinstance(par, ast.Call) and par.args and par.args[0] is node and len(par.args) == 1:
        if call_name(par).rsplit(".", 1)[-1] in ORDER_BLIND:
            return True
        # a method of a set that takes any iterable and forgets its order: s.update(x for x in t), s.issubset([..]) ...
        return it is not None and isinstance(par.func, ast.Attribute) and par.func.attr in SET_METHODS and _may_be_set(par.func.value, it)
    return False


def _sorted_by_render_call(ix: Any, template: str, arg: str) -> bool:
    """every `.render(.., arg=V, ..)` of the template passes a V that is sorted: `sorted(..)`, or a local that only ever holds such a
    value, or a local list that is `.sort()`ed in the function outside any loop"""
    from ..astutil import resolved_text

    sites = []
    for f in ix.all_functions:
        for c in ast.walk(f.node):
            if isinstance(c, ast.Call) and isinstance(c.func, ast.Attribute) and c.func.attr == "render" and \
                    repr(template)[1:-1] in resolved_text(c.func.value, f.node):
                for kw in c.keywords:
                    if kw.arg == arg:
                        sites.append((f, kw.value))
    if not sites:
        return False

    def is_sorted(v: ast.AST, fn: ast.AST) -> bool:
        if isinstance(v, ast.Call) and call_name(v) == "sorted":
            return True
        if isinstance(v, ast.Name):
            vals = Locals(fn).values_of(v.id)
            if vals and all(isinstance(x, ast.Call) and call_name(x) == "sorted" for x in vals):
                return True
            in_loops = {id(s) for lp in ast.walk(fn) if isinstance(lp, (ast.For, ast.While, ast.AsyncFor)) for s in ast.walk(lp)}
            return any(isinstance(c, ast.Call) and isinstance(c.func, ast.Attribute) and c.func.attr == "sort" and norm(c.func.value) == v.id
                       and id(c) not in in_loops for c in ast.walk(fn))
        return False

    return all(is_sorted(v, f.node) for f, v in sites)


def _reference_text(e: ast.AST, fn: ast.AST, refs: set[str], depth: int = 3) -> bool:
    """e may hold a reference string: the `.ref` of a Reference object or a parsed reference path, directly, as an arm of a conditional /
    `or` expression, or through a local bound to one of these"""
    if isinstance(e, ast.Attribute):
        return e.attr == "ref"
    if isinstance(e, ast.IfExp):
        return _reference_text(e.body, fn, refs, depth) or _reference_text(e.orelse, fn, refs, depth)
    if isinstance(e, ast.BoolOp):
        return any(_reference_text(v, fn, refs, depth) for v in e.values)
    if isinstance(e, ast.NamedExpr):
        return _reference_text(e.value, fn, refs, depth)
    if isinstance(e, ast.Name):
        return e.id in refs or (depth > 0 and any(_reference_text(v, fn, refs, depth - 1) for v in Locals(fn).values_of(e.id)))
    return False


def _slash_anchored(a: ast.AST, fn: ast.AST, refs: set[str], depth: int = 3) -> bool:
    """the suffix begins with the path separator (so it can only match whole path segments) or is itself a full reference path,
    however the string is put together: literal, f-string, `+`, `%`, `.format`, a local holding one of these, a tuple of them"""
    def lit(e: ast.AST) -> bool:
        return isinstance(e, ast.Constant) and isinstance(e.value, str) and e.value.startswith("/")

    if lit(a):
        return True
    if isinstance(a, ast.JoinedStr):
        return bool(a.values) and lit(a.values[0])
    if isinstance(a, ast.BinOp) and isinstance(a.op, (ast.Add, ast.Mod)):
        return _slash_anchored(a.left, fn, refs, depth)
    if isinstance(a, ast.Call) and isinstance(a.func, ast.Attribute) and a.func.attr == "format":
        return lit(a.func.value)
    if isinstance(a, ast.Tuple):
        return bool(a.elts) and all(_slash_anchored(e, fn, refs, depth) for e in a.elts)
    if isinstance(a, ast.Name):
        if a.id in refs:
            return True  # a full reference path always starts with '/'
        vals = Locals(fn).values_of(a.id)
        return depth > 0 and bool(vals) and all(_slash_anchored(v, fn, refs, depth - 1) for v in vals)
    return False


# ---- R12.1: what the order of a traversal can reach ---------------------------------------------------------------------------
PURE_BUILTINS = {"isinstance", "issubclass", "len", "str", "repr", "set", "frozenset", "sorted", "list", "tuple", "dict", "getattr", "hasattr",
                 "bool", "int", "float", "any", "all", "min", "max", "type", "cast", "enumerate", "zip", "callable"}
PURE_METHODS = {"get", "join", "format", "items", "keys", "values", "startswith", "endswith", "copy", "strip", "lstrip", "rstrip", "lower",
                "upper", "split", "union", "intersection", "difference", "issubset", "issuperset", "isdisjoint", "count"}
# set.add / set.update / set.discard / dict.setdefault: keyed, and the same whatever was done before by the other elements
KEYED_IDEMPOTENT = {"add", "update", "discard", "setdefault"}


def _is_error_obj(e: ast.AST, g: Any, it: Any) -> bool:
    """e evaluates to an error object of the parser (by type, by construction, by isinstance narrowing, by annotation)"""
    from ..astutil import ERROR_CLASSES

    av = it.node_av.get(id(e))
    if av is not None and av.types and all(t.rsplit(".", 1)[-1] in ERROR_CLASSES or t == "None" for t in av.types) and \
            any(t != "None" for t in av.types):
        return True
    if isinstance(e, ast.Name):
        if e.id in error_names(g.node):
            return True
        ann = next((a.annotation for a in g.params if a.arg == e.id), None)
        return ann is not None and any(isinstance(x, (ast.Name, ast.Attribute)) and (dotted(x) or "").rsplit(".", 1)[-1] in ERROR_CLASSES
                                       for x in ast.walk(ann))
    return False


class _OrderEffects:
    """Decides for a list of statements that is executed once per element of an unordered collection whether the order of the
    elements can be seen afterwards.  It cannot when everything the statements do - followed into every function of the package they
    call, recursion included - is of one of these kinds:
      * a keyed idempotent update: set.add / update / discard, dict.setdefault, `d.pop(k, default)`, and `del d[k]` / `d.pop(k)` on
        paths on which `k in d` has been established (under the assumption `k not in d` the statement is unreachable) or inside a
        `try` that absorbs the KeyError: the same keys are gone / present in the end whatever the order;
      * text stored into an attribute of an error object (diagnostics; C12 restricts its permutation clause to documents without them,
        and the hash-seed clause compares generated trees);
      * a `yield`: the order is then the order of the generator's results - the generator's calls are unordered iterables and every
        traversal of one is an instance of this rule on its own;
      * a binding of a local of a called function (it dies with the call), a valueless control statement, a call without effects.
    Everything else (appending to a list, a keyed store of a value, a `break` / `return` out of the traversal, a local of the traversing
    function that outlives the element, a call that cannot be resolved) lets the order through."""

    def __init__(self, ix: Any, it: Any) -> None:
        self.ix, self.it = ix, it
        self.cfgs: dict[str, Any] = {}
        self.bad: set[str] = set()      # functions that let the order through (under whatever assumption about the callers)
        self.good: set[str] = set()     # functions found harmless by a query that succeeded as a whole
        self.trial: set[str] = set()    # ... by the query that is running (harmless if the functions on its stack are)

    def callees(self, g: Any, c: ast.Call) -> list[Any]:
        out: list[Any] = []
        if isinstance(c.func, ast.Attribute):
            for q in sorted(_class_types(self.it.node_av.get(id(c.func.value)), self.ix)):
                m = self.ix.find_method(self.ix.classes[q], c.func.attr)
                if m is not None and m not in out:
                    out.append(m)
        if not out and isinstance(c.func, (ast.Name, ast.Attribute)):
            r = self.ix.resolve(g.module, call_name(c))
            if r is not None and r[0] == "func":
                out.append(r[1])
        return out

    def guarded(self, g: Any, st: ast.stmt, key: ast.AST, box: ast.AST) -> bool:
        """st cannot be reached while `key in box` is false (decided on the tests on the way, in any form and branch order), or a
        KeyError raised by it is absorbed by an enclosing try"""
        from ..astutil import cfg_of
        from ..cfg import ENTRY

        k, x = norm(key), norm(box)
        for t in ast.walk(g.node):
            if isinstance(t, ast.Try) and any(s is st for b in t.body for s in ast.walk(b)):
                names = [dotted(e) or "" for h in t.handlers for e in ((h.type.elts if isinstance(h.type, ast.Tuple) else [h.type]) if h.type else [])]
                if any(h.type is None for h in t.handlers) or any(n_.rsplit(".", 1)[-1] in ("KeyError", "LookupError", "Exception") for n_ in names):
                    return True

        def val(t: ast.expr) -> bool | None:
            if isinstance(t, ast.UnaryOp) and isinstance(t.op, ast.Not):
                v = val(t.operand)
                return None if v is None else not v
            if isinstance(t, ast.BoolOp):
                vs = [val(v) for v in t.values]
                if isinstance(t.op, ast.And):
                    return False if any(v is False for v in vs) else (True if all(v is True for v in vs) else None)
                return True if any(v is True for v in vs) else (False if all(v is False for v in vs) else None)
            if isinstance(t, ast.Compare) and len(t.ops) == 1 and norm(t.left) == k and norm(t.comparators[0]) == x:
                return False if isinstance(t.ops[0], ast.In) else True if isinstance(t.ops[0], ast.NotIn) else None
            return None

        cfg = cfg_of(g, self.cfgs)
        seen: set[int] = {id(ENTRY)}
        stack: list[object] = [ENTRY]
        while stack:
            n = stack.pop()
            succs = list(cfg.succ.get(n, ()))
            if isinstance(n, (ast.If, ast.While)):
                v = val(n.test)
                if v is True:
                    succs = [s_ for s_ in succs if s_ is n.body[0]]
                elif v is False:
                    succs = [s_ for s_ in succs if s_ is not n.body[0]]
            elif isinstance(n, ast.Assert) and val(n.test) is False:
                succs = []
            for s_ in succs:
                if s_ is st:
                    return False
                if id(s_) not in seen:
                    seen.add(id(s_))
                    stack.append(s_)
        return True

    def call_ok(self, g: Any, c: ast.Call, st: ast.stmt | None, stack: frozenset[str]) -> bool:
        hs = self.callees(g, c)
        if hs:
            return all(self.callee_ok(h, stack) for h in hs)
        r = self.ix.resolve(g.module, call_name(c)) if isinstance(c.func, (ast.Name, ast.Attribute)) else None
        if r is not None and r[0] == "class":
            return True  # constructing an object
        if isinstance(c.func, ast.Name):
            return c.func.id in PURE_BUILTINS
        if isinstance(c.func, ast.Attribute):
            a = c.func.attr
            if a in KEYED_IDEMPOTENT or a in PURE_METHODS:
                return True
            if a == "pop" and len(c.args) == 2:
                return True
            if a == "pop" and len(c.args) == 1 and st is not None:
                return self.guarded(g, st, c.args[0], c.func.value)
        return False

    def callee_ok(self, h: Any, stack: frozenset[str]) -> bool:
        if h.qual in stack or h.qual in self.good or h.qual in self.trial:
            return True
        if h.qual in self.bad:
            return False
        ok = self.benign(h, h.node.body, False, stack | {h.qual})
        (self.trial if ok else self.bad).add(h.qual)
        return ok

    def query(self, g: Any, stmts: list[ast.stmt]) -> bool:
        """the statements, executed once per element by g itself"""
        self.trial = set()
        ok = self.benign(g, stmts, True, frozenset())
        if ok:
            self.good |= self.trial
        self.trial = set()
        return ok

    def query_calls(self, g: Any, calls: list[ast.Call]) -> bool:
        """the calls made while g traverses an unordered iterable inside an expression"""
        self.trial = set()
        ok = all(self.call_ok(g, c, stmt_of(g.node, c), frozenset()) for c in calls)
        if ok:
            self.good |= self.trial
        self.trial = set()
        return ok

    def benign(self, g: Any, stmts: list[ast.stmt], owner: bool, stack: frozenset[str]) -> bool:
        from ..cfg import walk_own

        for st in stmts:
            if isinstance(st, (ast.FunctionDef, ast.AsyncFunctionDef, ast.ClassDef, ast.With, ast.AsyncWith, ast.Raise, ast.Global, ast.Nonlocal)):
                return False
            if isinstance(st, (ast.Break, ast.Return)) and owner:
                return False  # the traversal stops at an element: which one is the order
            if not all(self.call_ok(g, c, st, stack) for c in walk_own(st) if isinstance(c, ast.Call)):
                return False
            if any(isinstance(n, ast.NamedExpr) for n in walk_own(st)) and owner:
                return False
            if isinstance(st, (ast.Assign, ast.AnnAssign, ast.AugAssign)):
                leaves: list[ast.AST] = list(st.targets if isinstance(st, ast.Assign) else [st.target])
                while leaves:
                    leaf = leaves.pop()
                    if isinstance(leaf, (ast.Tuple, ast.List)):
                        leaves += leaf.elts
                    elif isinstance(leaf, ast.Starred):
                        leaves.append(leaf.value)
                    elif isinstance(leaf, ast.Name):
                        if owner:
                            return False  # a local of the traversing function keeps what the last element left in it
                    elif not (isinstance(leaf, ast.Attribute) and _is_error_obj(leaf.value, g, self.it)):
                        return False  # a store into an object that is not an error: the last element wins
            elif isinstance(st, ast.Delete):
                for t in st.targets:
                    if not (isinstance(t, ast.Subscript) and self.guarded(g, st, t.slice, t.value)):
                        return False
            elif isinstance(st, (ast.If, ast.For, ast.AsyncFor, ast.While, ast.Try, ast.Match)):
                subs: list[list[ast.stmt]] = [getattr(st, fld) for fld in ("body", "orelse", "finalbody") if getattr(st, fld, None)]
                subs += [h.body for h in getattr(st, "handlers", [])] + [c.body for c in getattr(st, "cases", [])]
                # the loops nested in the traversal are the traversal's business as long as they do not leave it
                if not all(self.benign(g, sub, owner, stack) for sub in subs):
                    return False
            elif not isinstance(st, (ast.Expr, ast.Pass, ast.Continue, ast.Break, ast.Return, ast.Assert)):
                return False
        return True


def _unordered_generators(ix: Any, it: Any, order: "_OrderEffects") -> set[str]:
    """generator functions whose results come in the order in which a set is traversed: a `yield` inside a loop over a value that may
    be a set, or `yield from` such a value - where a call of a generator that is already in this class counts as such a value (least
    fixed point).  Registers the calls of these generators in _UNORDERED_CALLS, which makes every traversal of one an instance of R12.1"""
    _UNORDERED_CALLS.clear()
    gens = [f for f in ix.all_functions if any(isinstance(n, (ast.Yield, ast.YieldFrom)) for n in _own_nodes(f.node))]
    calls = [(f, c) for f in ix.all_functions for c in ast.walk(f.node) if isinstance(c, ast.Call)] if gens else []
    found: set[str] = set()
    changed = True
    while changed:
        changed = False
        for g in gens:
            if g.qual in found:
                continue
            own = list(_own_nodes(g.node))
            hit = any(isinstance(n, ast.YieldFrom) and _may_be_set(n.value, it) for n in own) or \
                any(isinstance(n, (ast.For, ast.AsyncFor)) and _may_be_set(n.iter, it) and
                    any(isinstance(y, (ast.Yield, ast.YieldFrom)) for b in n.body for y in ast.walk(b)) for n in own)
            if hit:
                found.add(g.qual)
                changed = True
                for f, c in calls:
                    if any(h.qual == g.qual for h in order.callees(f, c)):
                        _UNORDERED_CALLS.add(id(c))
    return found


TEXT_METHODS = ("join", "format", "strip", "lstrip", "rstrip", "lower", "upper", "title", "capitalize", "replace")


def _only_into_diagnostics(f: Any, node: ast.AST, parent: dict[int, ast.AST], it: Any, depth: int = 3) -> bool:
    """the value computed at `node` ends as text in an error object and nowhere else: it is put together (join, f-string, +, %,
    format, a comprehension over it) inside the call that builds the error, or stored into an attribute of an error object, or kept in
    a local whose every use - other than asking whether it is empty - goes the same way"""
    from ..astutil import ERROR_CLASSES, ERROR_ONLY_HELPERS

    ch: ast.AST = node
    while id(ch) in parent:
        par = parent[id(ch)]
        if isinstance(par, ast.Call):
            last = call_name(par).rsplit(".", 1)[-1]
            if last in (ERROR_CLASSES | ERROR_ONLY_HELPERS):
                return True
            text = isinstance(par.func, ast.Attribute) and par.func.attr in TEXT_METHODS and (ch is par.func or ch in par.args or
                                                                                               ch in par.keywords)
            if not (text or (last in ("str", "repr", "list", "tuple", "sorted") and ch in par.args)):
                return False
        elif isinstance(par, ast.Attribute) and isinstance(parent.get(id(par)), ast.Call) and parent[id(par)].func is par and par.attr in TEXT_METHODS:
            pass  # "<text>".join(...) / <text>.format(...): the receiver of a text method
        elif isinstance(par, (ast.JoinedStr, ast.FormattedValue, ast.GeneratorExp, ast.ListComp, ast.comprehension, ast.Starred, ast.List,
                              ast.Tuple, ast.keyword)):
            pass
        elif isinstance(par, ast.BinOp) and isinstance(par.op, (ast.Add, ast.Mod)):
            pass
        elif isinstance(par, ast.IfExp) and ch is not par.test:
            pass
        elif isinstance(par, ast.BoolOp):
            pass
        elif isinstance(par, ast.stmt):
            if isinstance(par, ast.Expr):
                return True
            if isinstance(par, (ast.Assign, ast.AnnAssign, ast.AugAssign)) and ch is par.value:
                targets = par.targets if isinstance(par, ast.Assign) else [par.target]
                for t in targets:
                    if isinstance(t, ast.Attribute) and _is_error_obj(t.value, f, it):
                        continue
                    if isinstance(t, ast.Name) and depth > 0:
                        for u in ast.walk(f.node):
                            if isinstance(u, ast.Name) and u.id == t.id and isinstance(u.ctx, ast.Load):
                                up = parent.get(id(u))
                                if isinstance(up, ast.UnaryOp) and isinstance(up.op, ast.Not):
                                    u, up = up, parent.get(id(up))  # type: ignore[assignment]
                                if isinstance(up, (ast.If, ast.While, ast.IfExp)) and up.test is u:
                                    continue  # empty or not: the same in every order
                                if not _only_into_diagnostics(f, u, parent, it, depth - 1):
                                    return False
                        continue
                    return False
                return True
            return False
        else:
            return False
        ch = par
    return False


def _len_test(t: ast.expr, x: str, k: int) -> bool | None:
    """value of the test t when the collection written x has k elements (None: does not depend on that alone)"""
    def is_len(e: ast.AST) -> bool:
        return isinstance(e, ast.Call) and call_name(e) == "len" and len(e.args) == 1 and norm(e.args[0]) == x

    if isinstance(t, ast.UnaryOp) and isinstance(t.op, ast.Not):
        v = _len_test(t.operand, x, k)
        return None if v is None else not v
    if isinstance(t, ast.BoolOp):
        vs = [_len_test(v, x, k) for v in t.values]
        if isinstance(t.op, ast.And):
            return False if any(v is False for v in vs) else (True if all(v is True for v in vs) else None)
        return True if any(v is True for v in vs) else (False if all(v is False for v in vs) else None)
    if isinstance(t, ast.NamedExpr):
        return _len_test(t.value, x, k)
    if isinstance(t, ast.Compare) and len(t.ops) == 1:
        a, b = t.left, t.comparators[0]
        va = k if is_len(a) else a.value if isinstance(a, ast.Constant) and type(a.value) is int else None
        vb = k if is_len(b) else b.value if isinstance(b, ast.Constant) and type(b.value) is int else None
        if va is None or vb is None or not (is_len(a) or is_len(b)):
            return None
        op = t.ops[0]
        table = {ast.Eq: va == vb, ast.NotEq: va != vb, ast.Lt: va < vb, ast.LtE: va <= vb, ast.Gt: va > vb, ast.GtE: va >= vb}
        return table.get(type(op))
    if is_len(t) or norm(t) == x:
        return k > 0
    return None


def _singleton_guard(f: Any, node: ast.AST, expr: ast.expr, parent: dict[int, ast.AST], cfgs: dict[str, Any]) -> bool:
    """the observation cannot be reached while the traversed collection has more than one element: every path to it is cut by a
    decision on len(X) (if / while / assert / conditional expression / and / or, in any form and branch order)"""
    from ..astutil import cfg_of, stmt_of
    from ..cfg import ENTRY

    x = norm(expr)
    st = node if isinstance(node, ast.stmt) else stmt_of(f.node, node)
    if st is None:
        return False
    if not any(isinstance(n, ast.Call) and call_name(n) == "len" and n.args and norm(n.args[0]) == x for n in ast.walk(f.node)):
        return False
    # the collection must be the same one at the test and at the observation: a local bound once (or a parameter never re-bound)
    root = x.split(".")[0].split("[")[0]
    if len(Locals(f.node).defs.get(root, [])) > (0 if root in {a.arg for a in f.params} else 1):
        return False
    cfg = cfg_of(f, cfgs)
    for k in (2, 3, 4, 5, 8, 1000):
        # inside the statement: conditional expressions and short-circuit operators on the way to the observation
        cut = False
        ch: ast.AST = node
        while ch is not st and id(ch) in parent:
            par = parent[id(ch)]
            if isinstance(par, ast.IfExp) and ch is not par.test:
                v = _len_test(par.test, x, k)
                cut = cut or (v is False and ch is par.body) or (v is True and ch is par.orelse)
            if isinstance(par, ast.BoolOp):
                for prev in par.values[:par.values.index(ch)] if ch in par.values else []:
                    v = _len_test(prev, x, k)
                    cut = cut or (v is False and isinstance(par.op, ast.And)) or (v is True and isinstance(par.op, ast.Or))
            ch = par
        if cut:
            continue
        seen: set[int] = {id(ENTRY)}
        stack: list[object] = [ENTRY]
        reached = False
        while stack and not reached:
            n = stack.pop()
            succs = list(cfg.succ.get(n, ()))
            if isinstance(n, (ast.If, ast.While)):
                v = _len_test(n.test, x, k)
                if v is True:
                    succs = [s_ for s_ in succs if s_ is n.body[0]]
                elif v is False:
                    succs = [s_ for s_ in succs if s_ is not n.body[0]]
            elif isinstance(n, ast.Assert) and _len_test(n.test, x, k) is False:
                succs = []
            for s_ in succs:
                if s_ is st:
                    reached = True
                    break
                if id(s_) not in seen:
                    seen.add(id(s_))
                    stack.append(s_)
        if reached:
            return False
    return True


def _only_in_error(fn: ast.AST, node: ast.AST) -> bool:
    """the formatted text goes into an error value and nowhere else: it is written inside the call that builds the error, or kept in a
    local whose every use is"""
    from ..astutil import ERROR_CLASSES, ERROR_ONLY_HELPERS

    def error_calls() -> list[ast.Call]:
        return [n for n in ast.walk(fn) if isinstance(n, ast.Call) and call_name(n).rsplit(".", 1)[-1] in (ERROR_CLASSES | ERROR_ONLY_HELPERS)]

    if any(s is node for c in error_calls() for s in ast.walk(c)):
        return True
    for st in ast.walk(fn):
        if isinstance(st, ast.Assign) and len(st.targets) == 1 and isinstance(st.targets[0], ast.Name) and any(s is node for s in ast.walk(st.value)):
            nm = st.targets[0].id
            uses = [n for n in ast.walk(fn) if isinstance(n, ast.Name) and n.id == nm and isinstance(n.ctx, ast.Load)]
            inside = {id(s) for c in error_calls() for s in ast.walk(c)}
            return bool(uses) and all(id(u) in inside for u in uses)
    return False


# ---- R12.3 ------------------------------------------------------------------------------------------------------------------
CONSTRUCTORS = ("__init__", "__new__", "__attrs_post_init__", "__post_init__")
COPIERS = ("evolve", "replace", "copy", "deepcopy")


def _class_types(av: Any, ix: Any) -> set[str]:
    return {t for t in (av.types if av is not None else ()) if t in ix.classes}


def _late_filled_fields(rep: Report, ctx: Any) -> None:
    from jinja2 import nodes

    from ..jinja_interp import expr_text

    ix = ctx.py
    it, ji = ctx.flow
    # (a) late writes: object.__setattr__(X, "f", v) / setattr(X, "f", v) / X.f = v outside the constructors of X's class
    late: dict[tuple[str, str], str] = {}
    for f in ix.all_functions:
        for n in ast.walk(f.node):
            target = fld = None
            if isinstance(n, ast.Call) and call_name(n) in ("object.__setattr__", "setattr") and len(n.args) == 3 and \
                    isinstance(n.args[1], ast.Constant) and isinstance(n.args[1].value, str):
                target, fld = n.args[0], n.args[1].value
            elif isinstance(n, (ast.Assign, ast.AnnAssign, ast.AugAssign)):
                for t in (n.targets if isinstance(n, ast.Assign) else [n.target]):
                    if isinstance(t, ast.Attribute):
                        target, fld = t.value, t.attr
            if target is None:
                continue
            if _fresh_object(target, f, ix):
                continue  # two-phase construction: the factory completes the object it has just created, before anyone else sees it
            owners = _class_types(it.node_av.get(id(target)), ix)
            if not owners and f.cls is not None and isinstance(target, ast.Name) and f.params and target.id == f.params[0].arg:
                owners = {f.cls.qual}
            for q in owners:
                c = ix.classes[q]
                if f.name in CONSTRUCTORS and f.cls is not None and f.cls in ix.mro(c):
                    continue
                late.setdefault((q, fld), where(f, n))
    # (b) ... of a field that starts as a placeholder: its declared type admits None
    lazy: dict[tuple[str, str], str] = {}
    for (q, fld), w in late.items():
        c = ix.classes[q]
        ann = ix.all_fields(c).get(fld)
        if ann is not None and "None" in it.tr.from_ann(c.module, ann).types:
            lazy[(q, fld)] = w
    # (c) ... while instances of the class are copied without the field being supplied (the copy keeps whatever was there)
    stale: dict[tuple[str, str], tuple[str, str]] = {}
    n_copies = 0
    for f in ix.all_functions:
        for n in ast.walk(f.node):
            if not (isinstance(n, ast.Call) and call_name(n).rsplit(".", 1)[-1] in COPIERS and n.args):
                continue
            src = _class_types(it.node_av.get(id(n.args[0])), ix)
            if not src:
                continue
            n_copies += 1
            given = {k.arg for k in n.keywords}
            for (q, fld), w in lazy.items():
                if q in src and fld not in given:
                    stale.setdefault((q, fld), (w, where(f, n)))
    rep.floor("copy_sites_of_repository_objects", n_copies, 10)
    rep.indexed["late_filled_fields_of_copied_classes"] = sorted(f"{q.rsplit('.', 1)[-1]}.{fld}" for q, fld in stale)
    if not stale:
        rep.ok("R12.3", "no-late-filled-field-of-a-copied-class", "none", "nothing to protect")
        return
    names = {fld for _, fld in stale}
    seen: set[str] = set()
    table = _subject_table(ctx.jinja, ji.render_kwargs, nodes)
    for tname, ti in sorted(ctx.jinja.templates.items()):
        alias = _template_aliases(ti, nodes)
        bodies = {"<top>": ti.tree.body, **{m.name: m.body for m in ti.tree.find_all(nodes.Macro)}}
        scope_params = {m.name: {a.name for a in m.args} for m in ti.tree.find_all(nodes.Macro)}
        local_names = _raw_bound_names(ctx.jinja, ti, nodes)
        for mname, body in bodies.items():
            subj = table[(tname, mname)]
            for g in _own_template_nodes(body, nodes):
                if not (isinstance(g, nodes.Getattr) and g.attr in names):
                    continue
                rd = ji.attr_reads.get((tname, mname, expr_text(g)))
                if rd is None:
                    continue  # never evaluated: the macro is not reachable from a rendered template
                owners = {(q, fld) for (q, fld) in stale if fld == g.attr and q in rd[3]}
                if not owners:
                    continue
                # one construct, one key: a read through a template-local name for an access path is the read of that path
                key = f"{tname}::{_key_scope(mname, g, scope_params, local_names, alias, nodes)}::{_unfolded_text(g, alias, nodes)}"
                if key in seen:
                    continue
                seen.add(key)
                base = g.node
                subject = _is_subject(base, subj, nodes, alias)
                q, fld = sorted(owners)[0]
                rep.check(subject, "R12.3", key,
                          f"`{expr_text(g)}` reads {q.rsplit('.', 1)[-1]}.{fld} on an object that is not the one handed to render(): the field is "
                          f"filled in after construction ({stale[(q, fld)][0]}) and instances are copied without it ({stale[(q, fld)][1]}), so a "
                          "copy taken before the original was completed keeps the placeholder and the emitted text depends on the order "
                          "of definitions in the document", where=f"{PKG}/templates/{tname}:{getattr(g, 'lineno', 0)}",
                          lhs=expr_text(base), rhs=f"a name for an object handed to render(), here: {sorted(subj)}")
    rep.floor("template_reads_of_late_filled_fields", len(seen), 5)


def _key_scope(mname: str, e: Any, scope_params: dict[str, set[str]], local_names: set[str], alias: dict[int, Any], nodes: Any) -> str:
    """the scope under which a template expression is keyed.  An access path whose root is a name of the render context - not a parameter
    of the macro it is written in, not bound by the template itself (set / for / with) - denotes the same object in every scope of the
    template: it is one construct wherever it is written, at the top level or in a macro the top level calls.  Everything else is
    keyed by the macro whose parameters give it its meaning."""
    if mname == "<top>":
        return mname
    root = e
    for _ in range(64):
        root = _resolve_alias(root, alias)
        if isinstance(root, (nodes.Getattr, nodes.Getitem, nodes.Call, nodes.Filter)) and root.node is not None:
            root = root.node
        else:
            break
    if isinstance(root, nodes.Name) and root.name.isidentifier() and root.name not in scope_params.get(mname, set()) and \
            root.name not in local_names:
        return "<top>"
    return mname


def _fresh_object(target: ast.AST, f: Any, ix: Any) -> bool:
    """target is a local of f that is only ever bound to the result of instantiating a class in f itself"""
    if not isinstance(target, ast.Name) or target.id in {a.arg for a in f.params}:
        return False
    vals = Locals(f.node).values_of(target.id)
    class_names = {c.name for c in ix.classes.values()}
    return bool(vals) and all(isinstance(v, ast.Call) and (call_name(v) == "cls" or call_name(v).rsplit(".", 1)[-1] in class_names) for v in vals)


def _access_path(e: Any, nodes: Any) -> bool:
    """a name, or attribute / constant-subscript / argument-less call steps from one: an expression that can be repeated wherever a name
    for it is used (no operator, no filter)"""
    while True:
        if isinstance(e, nodes.Name):
            return True
        if isinstance(e, nodes.Getattr) or (isinstance(e, nodes.Getitem) and isinstance(e.arg, nodes.Const)) or \
                (isinstance(e, nodes.Call) and not e.args and not e.kwargs and e.dyn_args is None and e.dyn_kwargs is None):
            e = e.node
            continue
        return False


def _template_aliases(ti: Any, nodes: Any) -> dict[int, Any]:
    """id(Name node) -> the expression the name stands for at that place: a `set` variable with one definition that is an access path
    (all uses carry the canonical name `(definition)`, see jinja_canon) or a `with` variable.  Template-local names for a
    path are spelling: rules and keys look through them."""
    from ..jinja_interp import expr_text

    out: dict[int, Any] = {}
    defs: dict[str, list[Any]] = {}
    for n in ti.tree.find_all(nodes.Assign):
        if isinstance(n.target, nodes.Name) and n.target.name[:1] == "(":
            defs.setdefault(n.target.name, []).append(n.node)
    single = {nm: ds[0] for nm, ds in defs.items() if len({expr_text(d) for d in ds}) == 1 and _access_path(ds[0], nodes)}
    for x in ti.tree.find_all(nodes.Name):
        if x.ctx == "load" and x.name in single:
            out[id(x)] = single[x.name]
    for w in ti.tree.find_all(nodes.With):  # document order: an inner `with` of the same name overrides the outer one
        for t, v in zip(w.targets, w.values):
            if isinstance(t, nodes.Name):  # (a value that is not a path is recorded too: the name then denotes no render argument)
                for b in w.body:
                    for x in [b, *b.find_all(nodes.Name)]:
                        if isinstance(x, nodes.Name) and x.ctx == "load" and x.name == t.name:
                            out[id(x)] = v
    return out


def _name_unfolder(ti: Any) -> Any:
    """text -> text: the canonical names `(path)` of single-definition `set` variables replaced by the path (for expression texts that
    come without their node); a `(` that follows a name, `)` or `]` opens an argument list and is left alone"""
    import re

    from jinja2 import nodes

    alias = _template_aliases(ti, nodes)
    table: dict[str, str] = {}
    for x in ti.tree.find_all(nodes.Name):
        if id(x) in alias and x.name[:1] == "(" and x.name not in table:
            table[x.name] = _unfolded_text(x, alias, nodes)
    pats = [(re.compile(r"(?<![\w\)\]])" + re.escape(nm) + r"(?!')"), txt) for nm, txt in sorted(table.items(), key=lambda kv: -len(kv[0]))]

    def run(text: str) -> str:
        for _ in range(4):
            before = text
            for pat, txt in pats:
                text = pat.sub(lambda m, t=txt: t, text)
            if text == before:
                break
        return text

    return run


def _resolve_alias(e: Any, alias: dict[int, Any]) -> Any:
    for _ in range(8):
        if id(e) not in alias:
            break
        e = alias[id(e)]
    return e


def _unfolded_text(e: Any, alias: dict[int, Any], nodes: Any) -> str:
    """expr_text with every template-local name for an access path replaced by the path"""
    import copy

    from ..jinja_interp import expr_text

    def unfold(n: Any, depth: int = 0) -> Any:
        if isinstance(n, nodes.Name):
            r = alias.get(id(n))
            return n if r is None or depth > 8 or not _access_path(r, nodes) else unfold(r, depth + 1)
        c = copy.copy(n)
        for fld in n.fields:
            v = getattr(n, fld)
            if isinstance(v, nodes.Node):
                setattr(c, fld, unfold(v, depth))
            elif isinstance(v, list):
                setattr(c, fld, [unfold(x, depth) if isinstance(x, nodes.Node) else x for x in v])
        return c

    return expr_text(unfold(e))


def _is_subject(e: Any, subj: set[str], nodes: Any, alias: dict[int, Any] | None = None) -> bool:
    """e denotes an object handed to render() itself: a render argument, a template-local name for one (`set` / `with`), or a macro
    parameter that receives one at every call"""
    e = _resolve_alias(e, alias or {})
    return isinstance(e, nodes.Name) and (e.name in subj or (e.name[:1] == "(" and e.name[-1:] == ")" and e.name[1:-1] in subj))


def _named_templates(t: Any, templates: dict[str, Any], nodes: Any) -> list[str]:
    """the templates an import / include expression may name: a constant, a list of constants, or - for a computed name `"dir/" + x` -
    every template under the constant prefix"""
    if isinstance(t, nodes.Const) and isinstance(t.value, str):
        return [t.value] if t.value in templates else []
    if isinstance(t, (nodes.List, nodes.Tuple)):
        return sorted({x for item in t.items for x in _named_templates(item, templates, nodes)})
    first = t
    while isinstance(first, (nodes.Add, nodes.Concat)):
        first = first.left if isinstance(first, nodes.Add) else first.nodes[0]
    prefix = first.value if isinstance(first, nodes.Const) and isinstance(first.value, str) else ""
    return [x for x in sorted(templates) if x.startswith(prefix)]


def _raw_bound_names(ji_index: Any, ti: Any, nodes: Any) -> set[str]:
    """the names the template binds itself (set / for / with targets), as spelled in its source: the canonical tree has renamed them, but
    a template that is included reads the including context under the spelled names"""
    try:
        raw = ji_index.env.parse(ti.src)
    except Exception:  # noqa: BLE001  (the canonical tree was parsed from the same source: cannot happen)
        return {"*"}
    out: set[str] = set()
    for n in raw.find_all((nodes.For, nodes.Assign, nodes.AssignBlock, nodes.With)):
        targets = n.targets if isinstance(n, nodes.With) else [n.target]
        for t in targets:
            out |= {x.name for x in [t, *t.find_all(nodes.Name)] if isinstance(x, nodes.Name)}
    return out


def _subject_table(jx: Any, render_kwargs: dict[str, Any], nodes: Any) -> dict[tuple[str, str], set[str]]:
    """(template, scope) -> the names that denote, there, an object handed to render() itself.  The identity of a render argument is
    followed through everything that hands the same object on without touching it:
      * the top level of a rendered template sees its render arguments; a macro sees those its parameters do not hide;
      * a macro parameter denotes one when every call of the macro - in its own template or in any template that imports it
        (`from T import m`, `import T as a` + `a.m(..)`, computed names count for every template under the constant prefix) - passes
        such a name (greatest fixed point: a macro that passes its parameter on to itself does not lose it);
      * the top level of a template that is pulled in by `include` sees what every including place sees, minus the names the including
        template binds itself (set / for / with - they would hide the render argument); `without context` sees nothing.
    Template-local names for an access path (`set` / `with`) are looked through (alias tables)."""
    templates = jx.templates
    alias = {t: _template_aliases(ti, nodes) for t, ti in templates.items()}
    scopes: dict[tuple[str, str], list[Any]] = {}
    params: dict[tuple[str, str], list[str]] = {}
    for t, ti in templates.items():
        scopes[(t, "<top>")] = ti.tree.body
        for m in ti.tree.find_all(nodes.Macro):
            scopes[(t, m.name)] = m.body
            params[(t, m.name)] = [a.name for a in m.args]
    # what a called name denotes in template t
    direct: dict[str, dict[str, set[tuple[str, str]]]] = {}   # t -> local name -> {(template, macro)}
    modules: dict[str, dict[str, set[str]]] = {}              # t -> import alias -> {template}
    for t, ti in templates.items():
        d = direct.setdefault(t, {})
        for m in ti.tree.find_all(nodes.Macro):
            d.setdefault(m.name, set()).add((t, m.name))
        for n in ti.tree.find_all(nodes.FromImport):
            for item in n.names:
                src, dst = (item, item) if isinstance(item, str) else item
                for x in _named_templates(n.template, templates, nodes):
                    if (x, src) in params:
                        d.setdefault(dst, set()).add((x, src))
        for n in ti.tree.find_all(nodes.Import):
            modules.setdefault(t, {}).setdefault(n.target, set()).update(_named_templates(n.template, templates, nodes))
    calls: dict[tuple[str, str], list[tuple[str, str, Any]]] = {}
    includes: dict[str, list[tuple[str, str, bool]]] = {}
    for (t, scope), body in scopes.items():
        for n in _own_template_nodes(body, nodes):
            if isinstance(n, nodes.Call):
                callees: set[tuple[str, str]] = set()
                if isinstance(n.node, nodes.Name):
                    callees = direct[t].get(n.node.name, set())
                elif isinstance(n.node, nodes.Getattr) and isinstance(n.node.node, nodes.Name):
                    callees = {(x, n.node.attr) for x in modules.get(t, {}).get(n.node.node.name, ()) if (x, n.node.attr) in params}
                for c in sorted(callees):
                    calls.setdefault(c, []).append((t, scope, n))
            elif isinstance(n, nodes.Include):
                for x in _named_templates(n.template, templates, nodes):
                    includes.setdefault(x, []).append((t, scope, bool(n.with_context)))
    universe = {k for kw in render_kwargs.values() for k in kw}
    top: dict[str, set[str]] = {}
    for t in templates:
        top[t] = set(render_kwargs[t]) if t in render_kwargs else set(universe) if t in includes else set()
    psub = {(t, m, a): bool(calls.get((t, m))) for (t, m), ps in params.items() for a in ps}
    bound = {t: _raw_bound_names(jx, templates[t], nodes) for t in {x for sites in includes.values() for x, _, _ in sites}}

    def seen_in(t: str, scope: str) -> set[str]:
        if scope == "<top>":
            return set(top[t])
        ps = params[(t, scope)]
        return (top[t] - set(ps)) | {a for a in ps if psub[(t, scope, a)]}

    for _ in range(len(psub) + len(templates) + 2):
        changed = False
        for t, sites in includes.items():
            new = set(top[t])
            for x, scope, with_context in sites:
                if not with_context or "*" in bound[x]:
                    new = set()
                    break
                new &= seen_in(x, scope) - bound[x] - set(params.get((x, scope), ()))
            if new != top[t]:
                top[t], changed = new, True
        for (t, m), ps in params.items():
            for i, a in enumerate(ps):
                if not psub[(t, m, a)]:
                    continue
                for x, scope, c in calls[(t, m)]:
                    arg = c.args[i] if i < len(c.args) else next((k.value for k in c.kwargs if k.key == a), None)
                    if arg is None or c.dyn_args is not None or c.dyn_kwargs is not None or \
                            not _is_subject(arg, seen_in(x, scope), nodes, alias[x]):
                        psub[(t, m, a)], changed = False, True
                        break
        if not changed:
            break
    return {(t, scope): seen_in(t, scope) for (t, scope) in scopes}


def _imported_templates(templates: dict[str, Any], nodes: Any, cached_only: bool = False) -> dict[str, str]:
    """templates that are the target of an `import` / `from .. import` (a computed name `"dir/" + x` counts for every template under the
    constant prefix) -> first importing site.  cached_only: only imports without `with context` (Jinja caches the module of those)"""
    out: dict[str, str] = {}
    for tname, ti in sorted(templates.items()):
        for n in ti.tree.find_all((nodes.Import, nodes.FromImport)):
            if cached_only and n.with_context:
                continue
            for x in _named_templates(n.template, templates, nodes):
                out.setdefault(x, f"{tname}:{n.lineno}")
    return out


def _own_template_nodes(body: list[Any], nodes: Any) -> Any:
    """all nodes below body, not descending into (nested) macro definitions"""
    stack = list(reversed(body))
    while stack:
        n = stack.pop()
        yield n
        if isinstance(n, nodes.Macro):
            continue
        stack.extend(reversed(list(n.iter_child_nodes())))


# ---- R12.4 ------------------------------------------------------------------------------------------------------------------
STATEFUL_CTORS = ("namespace", "dict", "list", "cycler", "joiner")
MUTATORS = ("append", "extend", "insert", "pop", "remove", "clear", "update", "setdefault", "popitem", "sort", "reverse", "add", "discard",
            "next", "reset", "__setitem__", "__delitem__", "__setattr__")


def _template_module_state(rep: Report, ctx: Any) -> None:
    from jinja2 import nodes

    templates = ctx.jinja.templates
    # templates whose module object is cached: targets of `import` / `from .. import` without `with context`
    cached = _imported_templates(templates, nodes, cached_only=True)
    rep.floor("templates_imported_without_context", len(cached), 9)
    for tname in sorted(cached):
        ti = templates[tname]
        # objects with identity created by the module body (the body runs once, when the module is first imported)
        state: dict[str, int] = {}
        for n in _own_template_nodes(ti.tree.body, nodes):
            if isinstance(n, nodes.Assign) and isinstance(n.target, nodes.Name):
                v = n.node
                if isinstance(v, (nodes.List, nodes.Dict)) or (isinstance(v, nodes.Call) and isinstance(v.node, nodes.Name) and v.node.name in STATEFUL_CTORS):
                    state[n.target.name] = n.lineno
        writes: list[tuple[str, str, int]] = []
        for m in ti.tree.find_all(nodes.Macro):
            shadow = {a.name for a in m.args}
            for n in _own_template_nodes(m.body, nodes):
                hit = None
                if isinstance(n, nodes.NSRef) and n.name in state and n.name not in shadow:
                    hit = n.name
                elif isinstance(n, nodes.Call) and isinstance(n.node, nodes.Getattr) and n.node.attr in MUTATORS and \
                        isinstance(n.node.node, nodes.Name) and n.node.node.name in state and n.node.node.name not in shadow:
                    hit = n.node.node.name
                elif isinstance(n, nodes.Call) and isinstance(n.node, nodes.Name) and n.node.name in state and n.node.name not in shadow:
                    hit = n.node.name  # joiner() / cycler: calling the object advances it
                if hit is not None:
                    writes.append((hit, m.name, getattr(n, "lineno", m.lineno)))
        if not writes:
            rep.ok("R12.4", f"{tname}::module-state", sorted(state), "no macro writes to a module-level object")
            continue
        for var, mname, line in sorted(set((v, m_, 0) for v, m_, _ in writes)):
            ln = min(l for v, m_, l in writes if (v, m_) == (var, mname))
            rep.fail("R12.4", f"{tname}::{mname}::writes {var}",
                     f"macro `{mname}` writes to `{var}`, an object created at the top level of {tname} (line {state[var]}); the template is "
                     f"imported without context ({cached[tname]}), so Jinja creates its module once per Environment and the object "
                     "lives for the whole run: what is emitted depends on which schemas / operations were rendered before",
                     where=f"{PKG}/templates/{tname}:{ln}", lhs=var, rhs="state declared inside the macro (per call) or in the rendered template")


# ---- R12.5 the parsed document is read-only -----------------------------------------------------------------------------------
DOC_PKG = f"{PKG}.schema"
CONTAINER_TYPES = {"list", "dict", "set", "sortedlist"}
CONTAINER_MUTATORS = ("append", "extend", "insert", "pop", "remove", "clear", "update", "setdefault", "popitem", "sort", "reverse", "add",
                      "discard", "intersection_update", "difference_update", "symmetric_difference_update", "__setitem__", "__delitem__",
                      "__iadd__", "__ior__")
# calls whose result is, or gives access to, what the receiver holds (a nested container, a view on the same storage)
ELEMENT_VIEWS = ("get", "values", "items", "setdefault", "pop", "popitem", "__getitem__")
# a new object whose fields still hold the containers of the original ...
SHALLOW_COPIERS = ("model_copy", "copy", "evolve", "replace")
# ... and a new object that shares nothing with what it was made from
DEEP_COPIERS = ("deepcopy", "model_validate", "model_validate_json", "model_construct", "parse_obj", "parse_raw")
ATTR_WRITERS = ("setattr", "object.__setattr__", "delattr", "object.__delattr__")
# writes to the document that are confirmed (by reading, and by generating with shared / retried nodes) to leave every later visit of
# the node with the result of the first one.  Identified by role: (module of the writing function, document class, field written)
DOC_WRITES_FROZEN = {
    ("parser.properties.enum_property", "Schema", "oneOf"):
        "an enum that lists null is rewritten, once, into oneOf[null, the same enum without null]: the builder hands the rewritten node "
        "to the union builder in the same call, and a later visit (enum is None now) reaches the union builder with the same node",
    ("parser.properties.enum_property", "Schema", "enum"):
        "second half of the same rewrite (enum moved into the oneOf member): decides that later visits take the union branch at once",
    ("parser.properties.literal_enum_property", "Schema", "oneOf"):
        "literal-enum twin of the nullable-enum rewrite: same node, same union builder on the first and on every later visit",
    ("parser.properties.literal_enum_property", "Schema", "enum"):
        "literal-enum twin of the nullable-enum rewrite (enum moved into the oneOf member)",
}


def _own_nodes(fn: ast.AST) -> Any:
    """nodes of the function itself: nested function / class definitions are functions of their own"""
    stack = list(reversed(list(ast.iter_child_nodes(fn))))
    while stack:
        n = stack.pop()
        yield n
        if isinstance(n, (ast.FunctionDef, ast.AsyncFunctionDef, ast.ClassDef)):
            continue
        stack.extend(reversed(list(ast.iter_child_nodes(n))))


def _all_params(f: Any) -> set[str]:
    a = f.node.args
    return {x.arg for x in f.params} | ({a.vararg.arg} if a.vararg else set()) | ({a.kwarg.arg} if a.kwarg else set())


class _DocFlow:
    """which expressions of one function may denote an object of the parsed document, or a container held by one.  Objects are
    recognised by their abstract type (a class of the schema package) unless the function made them itself; containers by where
    they come from: a field of a document object, an element / view of such a container, a local that some reaching binding
    makes a name for one (an `or` / conditional expression is any of its arms), the result of a function that returns one.
    `roots`: parameters assumed to hold such a container (used to summarise what a function does to its arguments)."""

    def __init__(self, f: Any, types_of: Any, summaries: "dict[str, _Summary]", callees: Any, ix: Any, cfgs: dict[str, Any],
                 roots: frozenset[str] = frozenset(), outer: "_DocFlow | None" = None, static: "dict[str, Any] | None" = None) -> None:
        self.f, self.types_of, self.summaries, self.callees, self.ix, self.cfgs = f, types_of, summaries, callees, ix, cfgs
        self.roots, self.outer = roots, outer
        st = static if static is not None else {}
        if not st:  # facts about the function's text, shared by every flow over it
            from ..cfg import walk_own

            st["lc"] = Locals(f.node)
            st["params"] = _all_params(f)
            st["own"] = list(_own_nodes(f.node))
            st["stmt"] = {}
            for n in [x for x in ast.walk(f.node) if isinstance(x, ast.stmt)]:  # outer statements first: the innermost one wins
                for sub in walk_own(n):
                    st["stmt"][id(sub)] = n
        self.lc, self.params, self.own, self._stmt_of = st["lc"], st["params"], st["own"], st["stmt"]
        self.class_names = {c.name for c in ix.classes.values()}

    # -- bindings of a local that can be in force at a statement
    def _stmt(self, node: ast.AST) -> ast.stmt | None:
        return node if isinstance(node, ast.stmt) else self._stmt_of.get(id(node))

    def reaching(self, name: str, at: ast.stmt | None) -> list[tuple[str, ast.AST, ast.AST | None]]:
        """the bindings of the local that can be in force when statement `at` runs (all of them when that cannot be decided)"""
        from ..astutil import cfg_of

        ds = [d for d in self.lc.defs.get(name, []) if not d[0].startswith("aug")]  # `x += ..` keeps the object x names
        if at is None or len(ds) < 2:
            return ds
        cfg = cfg_of(self.f, self.cfgs)
        where_ = [self._stmt(d[1]) for d in ds]
        if any(w is None or w not in cfg.succ for w in where_) or at not in cfg.succ:
            return ds
        out = []
        for d, w in zip(ds, where_):
            others = {id(x) for x in where_ if x is not w}
            if at in cfg.reachable_from(w, avoid=lambda n: id(n) in others and n is not at):
                out.append(d)
        return out

    # -- objects
    def doc_classes(self, e: ast.AST) -> set[str]:
        return {t for t in self.types_of(e) if t.startswith(DOC_PKG + ".")}

    def made_here(self, e: ast.AST, at: ast.stmt | None, deep: bool, seen: tuple[str, ...] = ()) -> bool:
        """e is an object the function created itself (deep: one that shares no container with an existing object)"""
        if isinstance(e, ast.Call):
            last = call_name(e).rsplit(".", 1)[-1]
            if last in DEEP_COPIERS or last == "cls" or last in self.class_names:
                return True
            if last in SHALLOW_COPIERS:
                return not deep or any(k.arg == "deep" and isinstance(k.value, ast.Constant) and k.value.value is True for k in e.keywords)
            return False
        if isinstance(e, ast.IfExp):
            return self.made_here(e.body, at, deep, seen) and self.made_here(e.orelse, at, deep, seen)
        if isinstance(e, ast.BoolOp):
            return all(self.made_here(v, at, deep, seen) for v in e.values)
        if isinstance(e, (ast.NamedExpr, ast.Await)):
            return self.made_here(e.value, at, deep, seen)
        if isinstance(e, ast.Name) and e.id not in self.params and e.id not in seen:
            ds = self.reaching(e.id, at)
            return bool(ds) and all(k == "assign" and v is not None and self.made_here(v, self._stmt(st), deep, (*seen, e.id)) for k, st, v in ds)
        return False

    def doc_object(self, e: ast.AST, at: ast.stmt | None) -> bool:
        return bool(self.doc_classes(e)) and not self.made_here(e, at, deep=False)

    # -- containers: the document fields (texts, locals by role) that e may be a name for
    def container(self, e: ast.AST | None, at: ast.stmt | None, seen: tuple[str, ...] = ()) -> set[str]:
        if e is None:
            return set()
        if isinstance(e, ast.BoolOp):
            return set().union(*[self.container(v, at, seen) for v in e.values])
        if isinstance(e, ast.IfExp):
            return self.container(e.body, at, seen) | self.container(e.orelse, at, seen)
        if isinstance(e, (ast.NamedExpr, ast.Await, ast.Starred)):
            return self.container(e.value, at, seen)
        if isinstance(e, ast.Attribute):
            if self.types_of(e) & CONTAINER_TYPES and self.doc_classes(e.value) and not self.made_here(e.value, at, deep=True):
                return {role_anon(e, self.f.node)}
            return set()
        if isinstance(e, ast.Subscript):
            t = self.types_of(e)  # an element that is (or may be: untyped) a container of its own
            return self.container(e.value, at, seen) if t & CONTAINER_TYPES or not t - {"Any"} else set()
        if isinstance(e, ast.Call):
            if isinstance(e.func, ast.Attribute) and e.func.attr in ELEMENT_VIEWS:
                return self.container(e.func.value, at, seen)
            if call_name(e) == "getattr" and e.args:
                if self.types_of(e) & CONTAINER_TYPES and self.doc_classes(e.args[0]) and not self.made_here(e.args[0], at, deep=True):
                    return {role_anon(e, self.f.node)}
                return set()
            out: set[str] = set()
            for g in self.callees(e, self.f):
                sm = self.summaries.get(g.qual)
                if sm is None:
                    continue
                if sm.returns_doc:
                    out |= {f"{g.name}() -> {o}" for o in sm.returns_doc}
                for p_, a in _bind_args(e, g):
                    if p_ in sm.returns_param:
                        out |= self.container(a, at, seen)
            return out
        if isinstance(e, ast.Name) and e.id not in seen:
            if e.id in self.params:
                return {f"<parameter {e.id}>"} if e.id in self.roots else set()
            if e.id not in self.lc.defs:
                return self.outer.container(e, None) if self.outer is not None else set()
            out = set()
            for k, st, v in self.reaching(e.id, at):
                if v is None:
                    continue
                got = self.container(v, self._stmt(st), (*seen, e.id))
                if k.startswith("for") or "[" in k:
                    # an element of what is traversed / unpacked: a container of its own only if it is typed as one
                    got = got if self.types_of(e) & CONTAINER_TYPES else set()
                out |= got
            return out
        return set()

    # -- writes
    def writes(self) -> tuple[list[tuple[ast.AST, str, str, str]], int]:
        """((node, what is written: origin text, operation, document class.field or ''), number of write sites examined)"""
        out: list[tuple[ast.AST, str, str, str]] = []
        examined = 0
        for n in self.own:
            if isinstance(n, (ast.Assign, ast.AugAssign, ast.AnnAssign, ast.Delete)):
                at = self._stmt(n)
                todo = list(n.targets) if isinstance(n, (ast.Assign, ast.Delete)) else [n.target]
                while todo:
                    t = todo.pop()
                    if isinstance(t, (ast.Tuple, ast.List)):
                        todo += t.elts
                    elif isinstance(t, ast.Starred):
                        todo.append(t.value)
                    elif isinstance(t, ast.Attribute):
                        examined += 1
                        if self.doc_object(t.value, at):
                            cls = sorted(c.rsplit(".", 1)[-1] for c in self.doc_classes(t.value))
                            out.append((n, f"{self._object_text(t.value, cls)}.{t.attr}", " del" if isinstance(n, ast.Delete) else " =",
                                        f"{'|'.join(cls)}.{t.attr}"))
                        elif isinstance(n, ast.AugAssign):
                            for o in sorted(self.container(t, at)):
                                out.append((n, o, " (augmented assignment)", ""))
                    elif isinstance(t, ast.Subscript):
                        examined += 1
                        for o in sorted(self.container(t.value, at)):
                            out.append((n, o, "[..] del" if isinstance(n, ast.Delete) else "[..] =", ""))
                    elif isinstance(t, ast.Name) and isinstance(n, ast.AugAssign):
                        examined += 1
                        for o in sorted(self.container(t, at)):
                            out.append((n, o, " (augmented assignment)", ""))
            elif isinstance(n, ast.Call):
                at = self._stmt(n)
                cn = call_name(n)
                if isinstance(n.func, ast.Attribute) and n.func.attr in CONTAINER_MUTATORS:
                    examined += 1
                    for o in sorted(self.container(n.func.value, at)):
                        out.append((n, o, f".{n.func.attr}()", ""))
                elif cn in ATTR_WRITERS and n.args:
                    examined += 1
                    if self.doc_object(n.args[0], at):
                        fld = n.args[1].value if len(n.args) > 1 and isinstance(n.args[1], ast.Constant) else "?"
                        cls = sorted(c.rsplit(".", 1)[-1] for c in self.doc_classes(n.args[0]))
                        out.append((n, f"{self._object_text(n.args[0], cls)}.{fld}", " " + cn.rsplit(".", 1)[-1] + "()", f"{'|'.join(cls)}.{fld}"))
                else:
                    for g in self.callees(n, self.f):
                        sm = self.summaries.get(g.qual)
                        if sm is None or not sm.writes_param:
                            continue
                        for p_, a in _bind_args(n, g):
                            if p_ in sm.writes_param:
                                examined += 1
                                for o in sorted(self.container(a, at)):
                                    out.append((n, o, f" handed to {g.name}(), which writes to its `{p_}`", ""))
        return out, examined

    def _object_text(self, e: ast.AST, cls: list[str]) -> str:
        """key text of a document object: its expression with locals by role; a local whose role has no description is shown by the
        document class it holds"""
        t = role_anon(e, self.f.node)
        return f"<{'|'.join(cls)}>" if t == "_" else t

    def returned(self) -> set[str]:
        out: set[str] = set()
        for n in self.own:
            if isinstance(n, ast.Return) and n.value is not None:
                vals = list(n.value.elts) if isinstance(n.value, ast.Tuple) else [n.value]
                for v in vals:
                    out |= self.container(v, n)
        return out


class _Summary:
    def __init__(self) -> None:
        self.writes_param: set[str] = set()   # parameters whose (container) argument the function may write to
        self.returns_param: set[str] = set()  # parameters whose (container) argument the result may be
        self.returns_doc: set[str] = set()    # document fields whose container the result may be

    def sig(self) -> tuple[Any, ...]:
        return (frozenset(self.writes_param), frozenset(self.returns_param), frozenset(self.returns_doc))


def _bind_args(c: ast.Call, g: Any) -> list[tuple[str, ast.AST]]:
    """(parameter name of g, argument expression) for the arguments of call c"""
    a = g.node.args
    pos = [x.arg for x in [*a.posonlyargs, *a.args]]
    if g.cls is not None and g.kind != "staticmethod" and pos[:1] and pos[0] in ("self", "cls"):
        pos = pos[1:]
    names = set(pos) | {x.arg for x in a.kwonlyargs}
    out = [(pos[i], v) for i, v in enumerate(c.args) if i < len(pos) and not isinstance(v, ast.Starred)]
    out += [(k.arg, k.value) for k in c.keywords if k.arg in names]
    return out


def _doc_flow_engine(ix: Any, types_of: Any, call_targets: Any) -> tuple[Any, dict[str, _Summary]]:
    """(factory of _DocFlow per function, summaries of what every function does to / returns of its container arguments)"""
    cfgs: dict[str, Any] = {}
    summaries: dict[str, _Summary] = {}
    funcs = [f for f in ix.all_functions if not f.module.name.startswith(DOC_PKG)]
    flows: dict[str, _DocFlow] = {}

    statics: dict[str, dict[str, Any]] = {}

    def flow(f: Any, roots: frozenset[str] = frozenset()) -> _DocFlow:
        outer = flow(f.parent) if f.parent is not None else None
        if roots:
            return _DocFlow(f, types_of, summaries, call_targets, ix, cfgs, roots, outer, statics.setdefault(f.qual, {}))
        if f.qual not in flows:
            flows[f.qual] = _DocFlow(f, types_of, summaries, call_targets, ix, cfgs, roots, outer, statics.setdefault(f.qual, {}))
        return flows[f.qual]

    for _ in range(4):
        before = {q: s.sig() for q, s in summaries.items()}
        for f in funcs:
            sm = summaries.setdefault(f.qual, _Summary())
            sm.returns_doc |= {o for o in flow(f).returned() if not o.startswith("<parameter ")}
            for p_ in sorted(_all_params(f)):
                fl = flow(f, frozenset({p_}))
                mark = f"<parameter {p_}>"
                if any(o == mark for _, o, _, _ in fl.writes()[0]):
                    sm.writes_param.add(p_)
                if mark in fl.returned():
                    sm.returns_param.add(p_)
        if before == {q: s.sig() for q, s in summaries.items()}:
            break
    return flow, summaries


def _interp_views(it: Any) -> tuple[Any, Any]:
    """(abstract types of an expression node, repository functions a call may reach) as the abstract interpreter recorded them; a method
    call is resolved through the caller's call edges by the method's name"""
    def types_of(e: ast.AST) -> frozenset[str]:
        av = it.node_av.get(id(e))
        return frozenset(av.types) if av is not None else frozenset()

    def call_targets(c: ast.Call, f: Any) -> list[Any]:
        av = it.node_av.get(id(c.func))
        out = [it.func_by_qual[q] for kind, q in (av.funcs if av is not None else ()) if kind == "func" and q in it.func_by_qual]
        if not out:
            last = call_name(c).rsplit(".", 1)[-1]
            out = [it.func_by_qual[q] for q in sorted(it.call_edges.get(f.qual, ())) if q.rsplit(".", 1)[-1] == last and q in it.func_by_qual]
        return [g for g in out if not g.module.name.startswith(DOC_PKG)]

    return types_of, call_targets


def _document_read_only(rep: Report, ctx: Any) -> None:
    ix = ctx.py
    it, _ = ctx.flow

    types_of, call_targets = _interp_views(it)
    rep.control("R12.5 aliasing forms", _control_document_aliases(ix))
    flow, _ = _doc_flow_engine(ix, types_of, call_targets)
    n_readers = n_sites = 0
    for f in ix.all_functions:
        if f.module.name.startswith(DOC_PKG):
            continue
        fl = flow(f)
        reads = any(fl.doc_classes(n) for n in _own_nodes(f.node) if isinstance(n, (ast.Name, ast.Attribute, ast.Subscript, ast.Call)))
        if not reads:
            continue
        n_readers += 1
        found, examined = fl.writes()
        n_sites += examined
        seen: set[str] = set()
        for node, origin, op, fld in found:
            key = f"{short(f)}::{origin}{op}"
            if key in seen:
                continue
            seen.add(key)
            cls, _, attr = fld.partition(".")
            frozen = next((why for (mod, c, a), why in DOC_WRITES_FROZEN.items()
                           if fld and mod == f.module.name.replace(PKG + ".", "", 1) and a == attr and c in cls.split("|")), None)
            if frozen is not None:
                rep.ok("R12.5", key, "frozen", frozen, nontrivial=False)
                continue
            rep.fail("R12.5", key, f"`{norm(node)[:100]}` writes to the parsed document ({origin}): the same node is visited again when a "
                                   "forward reference is retried or a shared component is referenced twice, and the second visit then sees "
                                   "a different document than the first - the output depends on the order of definitions",
                     where(f, node), lhs=origin, rhs="a copy made by the function itself (list(..), [*..], model_copy, ...)")
        if not found:
            rep.ok("R12.5", f"{short(f)}::document-reads", examined, "no write site reaches a document object or one of its containers")
    rep.floor("functions_reading_the_document", n_readers, 20)
    rep.floor("write_sites_examined_in_document_readers", n_sites, 20)


def _control_document_aliases(ix: Any) -> bool:
    """synthetic fragment: every way of reaching a document container that the rule claims to see through must be seen, and the
    correct forms (a copy made first, a re-bound local, an object created by the function) must not"""
    from types import SimpleNamespace

    from ..pyindex import FuncInfo, Module

    src = ("def f(data, other):\n"
           "    a = data.prefixItems or []\n"
           "    a.append(other)\n"                      # hit: alias through `or`
           "    b = list(data.prefixItems)\n"
           "    b.append(other)\n"
           "    data.required.sort()\n"                 # hit: mutator on the field itself
           "    c = data.prefixItems\n"
           "    c = [*c]\n"
           "    c.append(other)\n"                      # re-bound to a copy first
           "    for s in data.allOf:\n"
           "        s.title = None\n"                   # hit: attribute of a document object
           "    fresh = Schema(anyOf=b)\n"
           "    fresh.title = None\n"
           "    data.properties['k'] = other\n"         # hit: keyed store
           "    _fill(data.required if other else [])\n"  # hit: handed to a function that writes to its parameter
           "    _fill(b)\n"
           "    _view(data).extend(b)\n"                # hit: result of a function that returns the document's container
           "def _fill(xs):\n"
           "    xs.append(1)\n"
           "def _view(d):\n"
           "    return d.required or []\n")
    tree = ast.parse(src)
    mod = Module("control", ix.root, "control.py", tree, src, False)
    funcs = [FuncInfo(n.name, f"control.{n.name}", mod, None, n) for n in tree.body if isinstance(n, ast.FunctionDef)]
    schema = DOC_PKG + ".control.Schema"
    lists, dicts = ("prefixItems", "required", "allOf"), ("properties",)

    def types_of(e: ast.AST) -> frozenset[str]:
        if isinstance(e, ast.Name) and e.id in ("data", "d", "s", "fresh"):
            return frozenset({schema})
        if isinstance(e, ast.Attribute) and isinstance(e.value, ast.Name) and e.value.id in ("data", "d"):
            return frozenset({"list"} if e.attr in lists else {"dict"} if e.attr in dicts else set())
        if isinstance(e, ast.Name) and e.id in ("a", "b", "c", "xs"):
            return frozenset({"list"})
        return frozenset()

    def call_targets(c: ast.Call, f: Any) -> list[Any]:
        return [g for g in funcs if g.name == call_name(c)]

    stub = SimpleNamespace(all_functions=funcs, classes={schema: SimpleNamespace(name="Schema")})
    flow, _ = _doc_flow_engine(stub, types_of, call_targets)
    found, _ = flow(funcs[0]).writes()
    return sorted(getattr(n, "lineno", 0) for n, _, _, _ in found) == [3, 6, 11, 14, 15, 17]



# ---- R12.6 classes that may be declared several times --------------------------------------------------------------------------
UNORDERED_EQ = {"dict", "set", "frozenset"}          # `==` on these ignores the order of the entries
VIEW_ATTRS = ("items", "keys", "values")
T_SORTING = ("sort", "dictsort")
T_ORDER_BLIND = ("length", "count", "sum", "min", "max")
T_ORDER_KEEPING = ("list", "unique", "select", "reject", "selectattr", "rejectattr", "map", "batch", "slice", "reverse", "items", "default", "d")
# fields that are a function of a compared field (confirmed by reading the builder): (class, field) -> reason
DERIVED_FIELDS = {
    ("EnumProperty", "value_type"): "the common type of the members: two declarations with equal values have equal member types",
    ("LiteralEnumProperty", "value_type"): "the common type of the members: two declarations with equal values have equal member types",
}


def _redeclaration_guards(ix: Any, it: Any, types_of: Any, call_targets: Any) -> list[tuple[Any, ast.Compare, str, str, bool]]:
    """(function, comparison, class K, field F, the comparison ignores order) for every equality test between a field of an entry found
    in a registry of the repository (a keyed lookup in a dict held by a repository object) and something else: the test by which a
    builder decides that a declaration is the one already registered.  The entry is found by role - the local (or the parameter of
    a helper it is handed to) bound from the lookup - and its class by its abstract type narrowed by the isinstance tests on it."""
    funcs = [f for f in ix.all_functions if not f.module.name.startswith(DOC_PKG)]
    repo_classes = {q for q in ix.classes if not q.startswith(DOC_PKG + ".")}

    locs = {f.qual: Locals(f.node) for f in funcs}
    by_qual = {f.qual: f for f in funcs}

    def lookup(v: ast.AST | None, f: Any, depth: int = 2) -> bool:
        """v is an entry taken out of a registry: `R.d[k]` / `R.d.get(k)` on a dict held by a repository object (also through a local
        name for the dict), or the result of a function that returns such an entry (an accessor of the registry)"""
        lc = locs[f.qual]
        if isinstance(v, (ast.NamedExpr, ast.Await)):
            v = v.value
        if isinstance(v, ast.IfExp):
            return lookup(v.body, f, depth) or lookup(v.orelse, f, depth)
        base = v.value if isinstance(v, ast.Subscript) else \
            v.func.value if isinstance(v, ast.Call) and isinstance(v.func, ast.Attribute) and v.func.attr == "get" and v.args else None
        if base is None:
            if isinstance(v, ast.Call) and depth > 0:
                for g in call_targets(v, f):
                    if g.qual in locs and g.qual != f.qual:
                        for r in [r for r in _own_nodes(g.node) if isinstance(r, ast.Return) and r.value is not None]:
                            vals = locs[g.qual].values_of(r.value.id) if isinstance(r.value, ast.Name) else [r.value]
                            if any(lookup(x, g, depth - 1) for x in vals):
                                return True
            return False
        if "dict" not in types_of(base):
            return False
        if isinstance(base, ast.Name) and depth > 0:
            vals = lc.values_of(base.id)
            return bool(vals) and all(isinstance(x, ast.Attribute) and bool(types_of(x.value) & repo_classes) for x in vals)
        return isinstance(base, ast.Attribute) and bool(types_of(base.value) & repo_classes)

    # local (or parameter) that names a registry entry -> the functions in which the lookup was made
    entries: dict[str, dict[str, set[str]]] = {}
    for f in funcs:
        for name, ds in locs[f.qual].defs.items():
            if any(k == "assign" and lookup(v, f) for k, _, v in ds):
                entries.setdefault(f.qual, {}).setdefault(name, set()).add(f.qual)
    for _ in range(2):  # an entry handed to a helper is an entry there
        for f in funcs:
            mine = entries.get(f.qual, {})
            for c in [n for n in ast.walk(f.node) if isinstance(n, ast.Call)]:
                args = [*c.args, *[k.value for k in c.keywords]]
                if not any((isinstance(a, ast.Name) and a.id in mine) or lookup(a, f) for a in args):
                    continue
                for g in call_targets(c, f):
                    for p_, a in _bind_args(c, g):
                        if isinstance(a, ast.Name) and a.id in mine:
                            entries.setdefault(g.qual, {}).setdefault(p_, set()).update(mine[a.id])
                        elif lookup(a, f):
                            entries.setdefault(g.qual, {}).setdefault(p_, set()).add(f.qual)

    from ..astutil import region

    regions: dict[str, list[Any]] = {}

    def region_of(g: Any) -> list[Any]:
        if g.qual not in regions:
            regions[g.qual] = region(ix, g)
        return regions[g.qual]

    # who can learn the verdict of a test made in function x: x itself and the functions that call it (call edges of the abstract
    # interpreter, and the delegation to private helpers that `region` sees by name)
    callers: dict[str, set[str]] = {}
    for src, dsts in it.call_edges.items():
        for d in dsts:
            callers.setdefault(d, set()).add(src)
    for g in funcs:
        for h in region_of(g)[1:]:
            callers.setdefault(h.qual, set()).add(g.qual)

    def instantiates(g: Any, q: str) -> bool:
        for h in region_of(g):
            for c in [n for n in ast.walk(h.node) if isinstance(n, ast.Call)]:
                last = call_name(c).rsplit(".", 1)[-1]
                if last == ix.classes[q].name or (last == "cls" and h.cls is not None and h.cls.qual == q):
                    return True
        return False

    def builds(origin: str, q: str) -> bool:
        """the verdict of the test reaches a function that goes on to create an object of class q: the function that looked the entry up
        or made the comparison, or one that calls it (directly or through up to three levels of helpers / methods the test was moved
        into) - that function is the builder of a declaration of the class, the comparison is how it recognises a re-declaration"""
        level, seen_ = {origin}, {origin}
        for _ in range(4):
            if any(x in by_qual and instantiates(by_qual[x], q) for x in level):
                return True
            level = {c for x in level for c in callers.get(x, ())} - seen_
            seen_ |= level
        return False

    out = []
    for f in funcs:
        mine = entries.get(f.qual, {})

        def is_entry(e: ast.AST, f: Any = f, mine: dict[str, set[str]] = mine) -> bool:
            return (isinstance(e, ast.Name) and e.id in mine) or lookup(e, f)

        def origins(e: ast.AST) -> set[str]:
            return mine[e.id] if isinstance(e, ast.Name) and e.id in mine else {f.qual}

        if not any(isinstance(n, ast.Compare) for n in ast.walk(f.node)):
            continue
        narrowed: dict[str, set[str]] = {}
        for n in ast.walk(f.node):
            if isinstance(n, ast.Call) and call_name(n) == "isinstance" and len(n.args) == 2 and isinstance(n.args[0], ast.Name):
                names = {(dotted(x) or "").rsplit(".", 1)[-1] for x in (n.args[1].elts if isinstance(n.args[1], ast.Tuple) else [n.args[1]])}
                for q in repo_classes:
                    if any(b.name in names for b in ix.mro(ix.classes[q])):
                        narrowed.setdefault(n.args[0].id, set()).add(q)
        for n in ast.walk(f.node):
            if not (isinstance(n, ast.Compare) and len(n.ops) == 1 and isinstance(n.ops[0], (ast.Eq, ast.NotEq))):
                continue
            for side in (n.left, n.comparators[0]):
                parent = {id(ch): p_ for p_ in ast.walk(side) for ch in ast.iter_child_nodes(p_)}
                for a in [x for x in ast.walk(side) if isinstance(x, ast.Attribute) and is_entry(x.value)]:
                    wrapped_blind = wrapped_ordered = False
                    cur: ast.AST = a
                    while cur is not side:
                        par = parent[id(cur)]
                        if isinstance(par, ast.Call) and cur in par.args:
                            last = call_name(par).rsplit(".", 1)[-1]
                            wrapped_blind = wrapped_blind or last in ORDER_BLIND
                            wrapped_ordered = wrapped_ordered or last in ("list", "tuple")
                        cur = par
                    cands = {q for q in types_of(a.value) & repo_classes if a.attr in ix.all_fields(ix.classes[q])}
                    if isinstance(a.value, ast.Name) and cands & narrowed.get(a.value.id, set()):
                        cands &= narrowed[a.value.id]
                    for q in sorted(cands):
                        if not any(builds(o, q) for o in sorted(origins(a.value) | {f.qual})):
                            continue
                        c = ix.classes[q]
                        declared = it.tr.from_ann(c.module, ix.all_fields(c).get(a.attr)).types
                        blind = wrapped_blind or (not wrapped_ordered and bool(declared & UNORDERED_EQ))
                        out.append((f, n, q, a.attr, blind))
    return out


def _key_fields(ix: Any, it: Any, q: str) -> set[str]:
    """fields of class q that carry the name it is registered under: a field whose class holds a value of a key type of the name
    registries (the key types are read off the annotations of the dict-typed fields of the repository's registry classes)"""
    key_types: set[str] = set()
    for c in ix.classes.values():
        if c.qual.startswith(DOC_PKG + "."):
            continue
        for fld, ann in ix.all_fields(c).items():
            av = it.tr.from_ann(c.module, ann)
            if "dict" in av.types and av.key is not None and av.elem is not None and q in _with_subclasses(ix, av.elem.types):
                key_types |= {t for t in av.key.types if t in ix.classes}
    out = set()
    c = ix.classes[q]
    for fld, ann in ix.all_fields(c).items():
        for t in it.tr.from_ann(c.module, ann).types:
            if t in key_types:
                out.add(fld)
            elif t in ix.classes and any(set(it.tr.from_ann(ix.classes[t].module, a2).types) & key_types for a2 in ix.all_fields(ix.classes[t]).values()):
                out.add(fld)
    return out


def _with_subclasses(ix: Any, types: Any) -> set[str]:
    out = set()
    for t in types:
        if t in ix.classes:
            out.add(t)
            out |= {s.qual for s in ix.subclasses(ix.classes[t])}
    return out


def _self_reads(ix: Any, c: Any, meth: str, depth: int = 3, seen: "set[str] | None" = None) -> set[str]:
    """fields of the object that method `meth` of class c reads, directly or through the methods it calls on itself"""
    seen = seen if seen is not None else set()
    m = ix.find_method(c, meth)
    if m is None or m.qual in seen or depth < 0:
        return set()
    seen.add(m.qual)
    me = m.params[0].arg if m.params else "self"
    fields = ix.all_fields(c)
    out: set[str] = set()
    for n in ast.walk(m.node):
        if isinstance(n, ast.Attribute) and isinstance(n.value, ast.Name) and n.value.id == me:
            if n.attr in fields:
                out.add(n.attr)
            elif ix.find_method(c, n.attr) is not None:
                out |= _self_reads(ix, c, n.attr, depth - 1, seen)
    return out


def _order_fate(g: Any, parent: dict[int, Any], tree: Any, nodes: Any, depth: int = 0) -> list[tuple[str, Any]]:
    """what becomes of the order of the collection that template expression g evaluates to: [(sorted | blind | observed, node)].
    Followed through views (.items()), order-keeping filters and template-local names."""
    cur = g
    while True:
        p_ = parent.get(id(cur))
        if p_ is None:
            return [("observed", cur)]
        if isinstance(p_, nodes.Getattr) and p_.node is cur and p_.attr in VIEW_ATTRS:
            cur = p_
        elif isinstance(p_, nodes.Call) and p_.node is cur and isinstance(cur, nodes.Getattr) and cur.attr in VIEW_ATTRS:
            cur = p_
        elif isinstance(p_, nodes.Filter) and p_.node is cur:
            if p_.name in T_SORTING:
                return [("sorted", p_)]
            if p_.name in T_ORDER_BLIND:
                return [("blind", p_)]
            if p_.name not in T_ORDER_KEEPING:
                return [("observed", p_)]
            cur = p_
        elif isinstance(p_, nodes.Operand) and p_.op in ("in", "notin") and p_.expr is cur:
            return [("blind", p_)]
        elif (isinstance(p_, nodes.Getitem) and p_.node is cur) or (isinstance(p_, nodes.Test) and p_.node is cur) or isinstance(p_, nodes.Not) or \
                (isinstance(p_, (nodes.If, nodes.CondExpr)) and p_.test is cur):
            return [("blind", p_)]
        elif isinstance(p_, (nodes.And, nodes.Or)) or (isinstance(p_, nodes.CondExpr) and p_.test is not cur):
            cur = p_
        elif isinstance(p_, nodes.Assign) and p_.node is cur and isinstance(p_.target, nodes.Name) and depth < 4:
            out: list[tuple[str, Any]] = []
            for u in tree.find_all(nodes.Name):
                if u.ctx == "load" and u.name == p_.target.name:
                    out += _order_fate(u, parent, tree, nodes, depth + 1)
            return out or [("blind", p_)]
        else:
            return [("observed", p_)]


def _redeclared_classes(rep: Report, ctx: Any) -> None:
    from jinja2 import nodes

    from ..jinja_interp import expr_text

    ix = ctx.py
    it, ji = ctx.flow

    types_of, call_targets = _interp_views(it)
    guards = _redeclaration_guards(ix, it, types_of, call_targets)
    compared: dict[str, dict[str, bool]] = {}  # class -> field -> some comparison of it ignores order
    where_: dict[tuple[str, str], str] = {}
    for f, n, q, fld, blind in guards:
        compared.setdefault(q, {})[fld] = compared.get(q, {}).get(fld, False) or blind
        where_.setdefault((q, fld), where(f, n))
    rep.floor("redeclaration_tests_on_registered_entries", len({(q, fld) for _, _, q, fld, _ in guards}), 1)
    rep.indexed["classes_that_may_be_redeclared"] = sorted(f"{q.rsplit('.', 1)[-1]}.{fld}" + (" (order ignored)" if b else "")
                                                           for q, d in compared.items() for fld, b in d.items())
    n_reads = 0
    key_fields: dict[str, set[str]] = {}
    included_by: dict[str, set[str]] = {}
    for tname, ti in sorted(ctx.jinja.templates.items()):
        for n in ti.tree.find_all(nodes.Include):
            for x in _named_templates(n.template, ctx.jinja.templates, nodes):
                included_by.setdefault(x, set()).add(tname)
    for _ in range(len(included_by)):  # transitively
        for x in included_by:
            included_by[x] |= {y for t in sorted(included_by[x]) for y in included_by.get(t, ())}
    for tname, ti in sorted(ctx.jinja.templates.items()):
        parent = {id(ch): p_ for p_ in ti.tree.find_all(nodes.Node) for ch in p_.iter_child_nodes()}
        parent.update({id(ch): ti.tree for ch in ti.tree.iter_child_nodes()})
        alias = _template_aliases(ti, nodes)
        # (a template that is pulled in by `include` is rendered with what its including templates are rendered with)
        rendered_with = {q for t in sorted({tname} | included_by.get(tname, set())) for av in ji.render_kwargs.get(t, {}).values()
                         for q in av.types if q in compared}
        scopes: dict[str, list[Any]] = {"<top>": ti.tree.body}
        scopes.update({m.name: m.body for m in ti.tree.find_all(nodes.Macro)})
        scope_params = {m.name: {a.name for a in m.args} for m in ti.tree.find_all(nodes.Macro)}
        local_names = _raw_bound_names(ctx.jinja, ti, nodes)
        seen: set[str] = set()
        for mname, body in scopes.items():
            for g in _own_template_nodes(body, nodes):
                if not isinstance(g, nodes.Getattr):
                    continue
                rd = ji.attr_reads.get((tname, mname, expr_text(g)))
                if rd is None:
                    continue
                owners = sorted(q for q in rd[3] if q in compared)
                if not owners:
                    continue
                text = _unfolded_text(g, alias, nodes)
                kscope = _key_scope(mname, g, scope_params, local_names, alias, nodes)
                # (a) order of a field that is compared without regard to order
                for q in owners:
                    if compared[q].get(g.attr):
                        for verdict, at in _order_fate(g, parent, ti.tree, nodes):
                            shown = at.iter if isinstance(at, nodes.For) else at
                            key = f"{tname}::{kscope}::order of {_unfolded_text(shown, alias, nodes) if isinstance(shown, nodes.Expr) else text}"
                            if key in seen:
                                continue
                            seen.add(key)
                            n_reads += 1
                            rep.check(verdict != "observed", "R12.6", key,
                                      f"`{expr_text(shown) if isinstance(shown, nodes.Expr) else text}` lays out {q.rsplit('.', 1)[-1]}.{g.attr} in "
                                      f"its stored order, but two declarations of the class are taken to be the same when that field is "
                                      f"equal as a {'/'.join(sorted(UNORDERED_EQ))} ({where_[(q, g.attr)]}: order ignored) and the one registered "
                                      "last is rendered: the emitted order depends on the order of definitions in the document",
                                      where=f"{PKG}/templates/{tname}:{getattr(at, 'lineno', 0)}", lhs=verdict, rhs="| sort / | dictsort / order-blind use")
                # (b) a template rendered with the registered object reads only what identifies the declaration
                for q in owners:
                    if q not in rendered_with:
                        continue
                    c = ix.classes[q]
                    if q not in key_fields:
                        key_fields[q] = _key_fields(ix, it, q)
                    allowed = set(compared[q]) | key_fields[q] | {fld for (cn, fld) in DERIVED_FIELDS if cn == c.name}
                    if g.attr in ix.all_fields(c):
                        read = {g.attr}
                    elif ix.find_method(c, g.attr) is not None:
                        read = _self_reads(ix, c, g.attr)
                    else:
                        continue
                    key = f"{tname}::{kscope}::{text} of {c.name}"
                    if key in seen:
                        continue
                    seen.add(key)
                    n_reads += 1
                    extra = sorted(read - allowed)
                    rep.check(not extra, "R12.6", key,
                              f"`{expr_text(g)}` reads {', '.join(c.name + '.' + x for x in extra)} of the registered object: a class of that "
                              f"name may be declared several times, declarations are taken to be the same when {sorted(compared[q])} are equal "
                              "and the one registered last is rendered, so a field the comparison does not cover differs between them and "
                              "the emitted text depends on the order of definitions in the document",
                              where=f"{PKG}/templates/{tname}:{getattr(g, 'lineno', 0)}", lhs=sorted(read), rhs=sorted(allowed))
    rep.floor("template_reads_of_redeclarable_classes", n_reads, 4)



# ---- R12.8 arrival order in the traversal of a document map ---------------------------------------------------------------------
FRESH_CONTAINERS = ("dict", "list", "set", "defaultdict", "Counter", "OrderedDict", "deque")
PURE_WRITERS = ("append", "extend", "insert", "add", "update", "setdefault", "appendleft", "extendleft")
FACT_METHODS = ("get", "pop", "popitem", "index", "count", "keys", "values", "items", "most_common", "copy", "__contains__", "__len__",
                "__getitem__")
FACT_BUILTINS = ("len", "bool", "any", "all", "sum", "min", "max", "next", "iter", "sorted", "list", "tuple", "set", "enumerate", "dict")
SCALARS = {"int", "str", "bool", "float", "None"}


def _fresh_state(v: ast.AST | None) -> str:
    """'container' / 'number' when v creates an empty container or is an integer constant, else ''"""
    if isinstance(v, (ast.Dict, ast.List, ast.Set)) and not (getattr(v, "keys", None) or getattr(v, "elts", None)):
        return "container"
    if isinstance(v, ast.Call) and call_name(v).rsplit(".", 1)[-1] in FRESH_CONTAINERS and \
            all(isinstance(a, (ast.Name, ast.Attribute, ast.Lambda)) for a in v.args):  # defaultdict(int), defaultdict(list)
        return "container"
    if isinstance(v, ast.Constant) and type(v.value) is int:
        return "number"
    return ""


def _error_only(stmts: list[ast.stmt], errs: set[str]) -> bool:
    """the branch does nothing but report: builds / records / returns / raises an error and leaves"""
    if not stmts:
        return False
    said = False
    for st in stmts:
        if isinstance(st, (ast.Continue, ast.Break, ast.Pass)):
            continue
        if isinstance(st, ast.Raise):
            said = True
        elif isinstance(st, ast.Return) and st.value is not None and (constructs_error(st.value) or names_in_load(st.value) & errs):
            said = True
        elif isinstance(st, (ast.Assign, ast.AnnAssign)) and constructs_error(st.value):
            said = True
        elif isinstance(st, ast.Expr) and isinstance(st.value, ast.Call) and isinstance(st.value.func, ast.Attribute) and \
                st.value.func.attr in LIST_GROW and st.value.args and \
                (constructs_error(st.value.args[-1]) or names_in_load(st.value.args[-1]) & errs):
            said = True
        elif isinstance(st, (ast.For, ast.AsyncFor)) and _error_only(st.body, errs):
            said = True
        else:
            return False
    return said


def _facts_read(g: Any, body: list[ast.stmt], names: dict[str, str], types_of: Any, call_targets: Any, depth: int = 2) -> list[tuple[ast.AST, str]]:
    """(node, what is asked) for every place below `body` (statements of function g) where one of `names` (name -> container / number)
    is asked about its content.  Writes, get-or-create and diagnostics-only tests are no questions."""
    parent = {id(ch): p_ for st in body for p_ in ast.walk(st) for ch in ast.iter_child_nodes(p_)}
    errs = error_names(g.node)
    out: list[tuple[ast.AST, str]] = []

    def test_owner(n: ast.AST) -> ast.AST | None:
        """the if / while / conditional expression whose test n is part of"""
        ch = n
        while id(ch) in parent:
            par = parent[id(ch)]
            if isinstance(par, (ast.If, ast.While, ast.IfExp)) and par.test is ch:
                return par
            if not isinstance(par, (ast.BoolOp, ast.UnaryOp, ast.Compare, ast.NamedExpr)):
                return None
            ch = par
        return None

    def excused(n: ast.AST, name: str) -> bool:
        """the question decides only about a diagnostic, or about creating the entry that is missing (get-or-create)"""
        own = test_owner(n)
        if not isinstance(own, ast.If):
            return False
        for branch in (own.body, own.orelse):
            if _error_only(branch, errs):
                return True
        if not own.orelse and all(_stores_into(st, name) for st in own.body):
            return True
        return False

    for st in body:
        for n in ast.walk(st):
            if not (isinstance(n, ast.Name) and isinstance(n.ctx, ast.Load) and n.id in names):
                continue
            par = parent.get(id(n))
            gp = parent.get(id(par)) if par is not None else None
            what = ""
            if names[n.id] == "number":
                if isinstance(par, ast.AugAssign) or (isinstance(gp, (ast.Assign, ast.AugAssign)) and isinstance(par, ast.BinOp) and
                                                      any(isinstance(t, ast.Name) and t.id == n.id for t in getattr(gp, "targets", [gp]) if True)):
                    continue  # n = n + 1
                what = "the counter"
            elif isinstance(par, ast.Attribute) and isinstance(gp, ast.Call) and gp.func is par:
                if par.attr in PURE_WRITERS:
                    continue
                if par.attr in FACT_METHODS:
                    if par.attr in ("get", "pop", "__getitem__"):
                        t = types_of(gp) - {"Any"}
                        dflt = gp.args[1] if len(gp.args) > 1 else None
                        scalar = (bool(t) and t <= SCALARS and t != {"None"}) or (isinstance(dflt, ast.Constant) and type(dflt.value) in (int, str, bool))
                        if not scalar:
                            continue  # the entry of a key (an object): keyed, not positional
                    what = f".{par.attr}()"
            elif isinstance(par, ast.Compare) and any(c is n for c in par.comparators) and any(isinstance(o, (ast.In, ast.NotIn)) for o in par.ops):
                what = "membership"
            elif isinstance(par, ast.Call) and n in par.args and call_name(par) in FACT_BUILTINS:
                what = f"{call_name(par)}()"
            elif isinstance(par, (ast.For, ast.AsyncFor, ast.comprehension)) and par.iter is n:
                what = "traversal"
            elif isinstance(par, ast.Subscript) and par.value is n and isinstance(par.ctx, ast.Load):
                t = types_of(par) - {"Any"}
                if bool(t) and t <= SCALARS and t != {"None"} and not (isinstance(gp, ast.AugAssign) and gp.target is par):
                    what = "[..]"
            elif test_owner(n) is not None and isinstance(par, (ast.If, ast.While, ast.IfExp, ast.BoolOp, ast.UnaryOp)):
                what = "truth"
            elif isinstance(par, (ast.Call, ast.keyword)) and depth > 0:
                c = par if isinstance(par, ast.Call) else gp
                if isinstance(c, ast.Call) and not (isinstance(par, ast.Call) and par.func is n):
                    for h in call_targets(c, g):
                        for p_, a in _bind_args(c, h):
                            if a is n:
                                inner = _facts_read(h, h.node.body, {p_: names[n.id]}, types_of, call_targets, depth - 1)
                                if inner:
                                    what = f"{h.name}(): {inner[0][1]}"
            if what and not excused(n, n.id):
                out.append((n, what))
    return out


def _stores_into(st: ast.stmt, name: str) -> bool:
    """the statement only puts something into the container `name`"""
    if isinstance(st, ast.Assign):
        return all(isinstance(t, ast.Subscript) and isinstance(t.value, ast.Name) and t.value.id == name for t in st.targets)
    return isinstance(st, ast.Expr) and isinstance(st.value, ast.Call) and isinstance(st.value.func, ast.Attribute) and \
        st.value.func.attr in PURE_WRITERS and isinstance(st.value.func.value, ast.Name) and st.value.func.value.id == name


def _arrival_order(rep: Report, ctx: Any) -> None:
    ix = ctx.py
    it, _ = ctx.flow
    types_of, call_targets = _interp_views(it)
    _, summaries = _doc_flow_engine(ix, types_of, call_targets)
    n_loops = n_state = 0
    for f in ix.all_functions:
        if f.module.name.startswith(DOC_PKG):
            continue
        lc = Locals(f.node)
        for loop in [n for n in _own_nodes(f.node) if isinstance(n, (ast.For, ast.AsyncFor))]:
            if not _map_traversal(loop, lc, types_of):
                continue
            n_loops += 1
            inside = {id(s) for st in [*loop.body, *loop.orelse] for s in ast.walk(st)}
            # -- what the loop carries from one item to the next: created outside, filled inside
            carried: dict[str, str] = {}
            for name, ds in lc.defs.items():
                outer = [_fresh_state(v) for k, st, v in ds if id(st) not in inside and st is not loop and k == "assign"]
                if not outer or not all(outer) or len(set(outer)) != 1:
                    continue
                if _filled_in(name, [*loop.body, *loop.orelse], f, call_targets, summaries):
                    carried[name] = outer[0]
            for name in sorted(carried):
                n_state += 1
                facts = _facts_read(f, [*loop.body, *loop.orelse], {name: carried[name]}, types_of, call_targets)
                key = f"{short(f)}::for {role_anon(loop.iter, f.node)}::state {_state_role(name, lc, f)}"
                at = facts[0][0] if facts else loop
                rep.check(not facts, "R12.8", key,
                          f"the loop over the document map `{norm(loop.iter)}` asks `{name}`, which it fills itself from the items visited so "
                          f"far, about its content ({', '.join(sorted({w for _, w in facts}))}): the answer is the position of the item in the "
                          "map, so what is made from it (a numbered name, a duplicate that is skipped) changes when the map is permuted",
                          where(f, at), lhs=sorted({w for _, w in facts}), rhs="writes, get-or-create of a key's entry, diagnostics only")
    rep.floor("traversals_of_document_maps", n_loops, 2)
    rep.indexed["state_carried_through_document_map_traversals"] = n_state


def _state_role(name: str, lc: Locals, f: Any) -> str:
    """a carried local by what it is filled with, not by its spelling"""
    puts = []
    for n in ast.walk(f.node):
        if isinstance(n, ast.Call) and isinstance(n.func, ast.Attribute) and isinstance(n.func.value, ast.Name) and n.func.value.id == name and \
                n.func.attr in PURE_WRITERS:
            puts.append(f"{n.func.attr}({', '.join(role_anon(a, f.node) for a in n.args)})")
        elif isinstance(n, ast.Subscript) and isinstance(n.ctx, ast.Store) and isinstance(n.value, ast.Name) and n.value.id == name:
            puts.append(f"[{role_anon(n.slice, f.node)}]=")
        elif isinstance(n, ast.AugAssign) and isinstance(n.target, ast.Name) and n.target.id == name:
            puts.append(f"{type(n.op).__name__}=")
    return sorted(puts)[0][:70] if puts else "handed to a function that fills it"


def _filled_in(name: str, body: list[ast.stmt], f: Any, call_targets: Any, summaries: dict[str, "_Summary"]) -> bool:
    for st in body:
        for n in ast.walk(st):
            if isinstance(n, ast.Call) and isinstance(n.func, ast.Attribute) and n.func.attr in CONTAINER_MUTATORS and \
                    isinstance(n.func.value, ast.Name) and n.func.value.id == name:
                return True
            if isinstance(n, ast.Subscript) and isinstance(n.ctx, (ast.Store, ast.Del)) and isinstance(n.value, ast.Name) and n.value.id == name:
                return True
            if isinstance(n, ast.Subscript) and isinstance(n.value, ast.Name) and n.value.id == name:
                continue
            if isinstance(n, ast.AugAssign) and ((isinstance(n.target, ast.Name) and n.target.id == name) or
                                                 (isinstance(n.target, ast.Subscript) and isinstance(n.target.value, ast.Name) and n.target.value.id == name)):
                return True
            if isinstance(n, ast.Assign) and any(isinstance(t, ast.Name) and t.id == name for t in n.targets) and name in names_in_load(n.value):
                return True  # n = n + 1
            if isinstance(n, ast.Call):
                for h in call_targets(n, f):
                    sm = summaries.get(h.qual)
                    for p_, a in _bind_args(n, h):
                        if isinstance(a, ast.Name) and a.id == name and sm is not None and p_ in sm.writes_param:
                            return True
    return False


def _map_traversal(loop: ast.AST, lc: Locals, types_of: Any, depth: int = 3) -> bool:
    """the loop takes document objects out of a dict: over the dict / its items() / values(), directly, through `or` / conditional arms or
    through a local bound to one of these (sorted(..) gives an order of its own: not a traversal of the map)"""
    def dictish(e: ast.AST | None, d: int) -> bool:
        if e is None:
            return False
        if isinstance(e, ast.Call) and isinstance(e.func, ast.Attribute) and e.func.attr in ("items", "values", "keys") and not e.args:
            return dictish(e.func.value, d) or "dict" in types_of(e.func.value)
        if isinstance(e, ast.Call) and call_name(e) in ("list", "tuple", "iter", "enumerate", "reversed", "dict") and e.args:
            return dictish(e.args[0], d)
        if isinstance(e, ast.BoolOp):
            return any(dictish(v, d) for v in e.values)
        if isinstance(e, ast.IfExp):
            return dictish(e.body, d) or dictish(e.orelse, d)
        if isinstance(e, ast.Name):
            if "dict" in types_of(e):
                return True
            return d > 0 and any(dictish(v, d - 1) for k, _, v in lc.defs.get(e.id, []) if k == "assign")
        if isinstance(e, (ast.Attribute, ast.Subscript)):
            return "dict" in types_of(e)
        return False

    if not dictish(loop.iter, depth):
        return False
    targets = {n.id for n in ast.walk(loop.target) if isinstance(n, ast.Name)}
    for st in loop.body:
        for n in ast.walk(st):
            if isinstance(n, ast.Name) and n.id in targets and any(t.startswith(DOC_PKG + ".") for t in types_of(n)):
                return True
    return False
