"""Uniqueness scopes (R07.4 = R09.3 = R14.2): every keyed store of a document-derived artefact is dominated by a
membership test on the same key in the same collection that leads to a diagnostic, or the key is unique by
construction (frozen table, one line of reason each), and conflict-resolution paths end in a re-check."""
from __future__ import annotations

import ast
from typing import Any

from ..astutil import (Locals, anon, call_name, cfg_of, error_names, find_stmts, local_names, norm, receivers, returns_error, short,
                       stmt_calls, truth_table, where)
from ..cfg import CFG, walk_own
from ..core import PKG, Report
from ..pyindex import FuncInfo, dotted

# stores whose key is unique by construction or whose merge is intended: construct key -> reason (confirmed by reading)
FROZEN = {
    "parser.bodies.body_from_data::classes_by_name[_.class_info.name]":
        "re-registration of an already registered (or just created) model under its own class name after evolve(is_multipart_body=True)",
    "parser.properties.schemas.update_schemas_with_data::classes_by_reference[ref_path]":
        "ref_path is built from a key of components.schemas: keys of one mapping are distinct",
    "parser.properties.schemas.update_parameters_with_data::classes_by_reference[ref_path]":
        "ref_path is built from a key of components.parameters: keys of one mapping are distinct",
    "parser.properties.schemas.parameter_from_data::classes_by_name[ClassName(name, config.field_prefix)]":
        "Parameters.classes_by_name is never read anywhere in the package (write-only table)",
    "parser.properties.enum_property.EnumProperty.values_from_list::<local dict>[f'VALUE_NEGATIVE_{-_}']":
        "integer members: the name is an injective function of the integer value (equal names = equal values)",
    "parser.properties.enum_property.EnumProperty.values_from_list::<local dict>[f'VALUE_{_}']":
        "integer members: the name is an injective function of the integer value (equal names = equal values)",
}


def _reg_of(e: ast.AST, names: set[str]) -> str:
    """registry named by expression e: a local accumulator by its own name, an attribute registry by its last component"""
    if isinstance(e, ast.Name):
        return e.id if e.id in names else ""
    d = (dotted(e) or "").rsplit(".", 1)[-1]
    return d if d in names and d in ATTR_REGISTRIES else ""


def _registry_stores(f: FuncInfo, names: set[str]) -> list[tuple[ast.stmt, str, ast.expr, str]]:
    """(statement, registry name, key expr, kind) for stores into one of the registries `names`."""
    out = []
    for st in ast.walk(f.node):
        if not isinstance(st, ast.stmt):
            continue
        if isinstance(st, (ast.FunctionDef, ast.AsyncFunctionDef, ast.ClassDef)) and st is not f.node:
            continue
        for n in walk_own(st):
            # X[K] = V
            if isinstance(n, ast.Assign):
                for t in n.targets:
                    if isinstance(t, ast.Subscript):
                        reg = _reg_of(t.value, names)
                        if reg:
                            out.append((st, reg, t.slice, "subscript"))
            # evolve(x, reg={**x.reg, K: V})  /  reg={K: V, **x.reg}
            if isinstance(n, ast.keyword) and n.arg in names and isinstance(n.value, ast.Dict):
                if any(k is None for k in n.value.keys):
                    for k in n.value.keys:
                        if k is not None:
                            out.append((st, n.arg, k, "spread"))
            if isinstance(n, ast.Call) and isinstance(n.func, ast.Attribute) and n.func.attr in ("setdefault",):
                reg = _reg_of(n.func.value, names)
                if reg and n.args:
                    out.append((st, reg, n.args[0], "setdefault"))
            if isinstance(n, ast.Call) and isinstance(n.func, ast.Attribute) and n.func.attr == "add":
                reg = _reg_of(n.func.value, names)
                if reg and n.args:
                    out.append((st, reg, n.args[0], "add"))
    # nested functions are separate FuncInfos; drop statements that belong to them
    nested = [g for g in ast.walk(f.node) if isinstance(g, (ast.FunctionDef, ast.AsyncFunctionDef)) and g is not f.node]
    inner = {id(s) for g in nested for s in ast.walk(g)}
    return [x for x in out if id(x[0]) not in inner]


def _holders(st: ast.stmt, reg: str) -> set[str]:
    """local names through which statement st reaches registry `reg`: the root of `<root>...reg`, or reg itself when it is a local"""
    out = set()
    for n in walk_own(st):
        if isinstance(n, ast.Attribute) and n.attr == reg:
            root = n.value
            while isinstance(root, (ast.Attribute, ast.Subscript, ast.Call)):
                root = root.func if isinstance(root, ast.Call) else root.value
            if isinstance(root, ast.Name):
                out.add(root.id)
        elif isinstance(n, ast.Name) and n.id == reg:
            out.add(reg)
    return out


def _rebound_between(cfg: CFG, test: ast.stmt, store: ast.stmt, holders: set[str]) -> list[ast.stmt]:
    """statements that assign one of `holders` on some path test -> ... -> store (not passing the test again)"""
    out = []
    between = cfg.reachable_from(test, avoid=lambda n: n is store or n is test)
    for r in between:
        if not isinstance(r, ast.stmt) or r is test or r is store:
            continue
        if any(isinstance(x, ast.Name) and isinstance(x.ctx, ast.Store) and x.id in holders for x in walk_own(r)):
            if store in cfg.reachable_from(r, avoid=lambda n: n is test):
                out.append(r)
    return sorted(out, key=lambda s_: getattr(s_, "lineno", 0))


def _membership_tests(f: FuncInfo, reg: str) -> list[tuple[ast.stmt, str]]:
    """statements of f that test `K in <...>.reg` / call reg.pop(K) / reg.get(K): (stmt, normalised K)"""
    out = []
    for st in ast.walk(f.node):
        if not isinstance(st, ast.stmt):
            continue
        for n in walk_own(st):
            if isinstance(n, ast.Compare) and len(n.ops) == 1 and isinstance(n.ops[0], (ast.In, ast.NotIn)):
                if _reg_of(n.comparators[0], {reg}) == reg:
                    out.append((st, norm(n.left)))
            if isinstance(n, ast.Call) and isinstance(n.func, ast.Attribute) and n.func.attr in ("pop", "get") and n.args:
                if _reg_of(n.func.value, {reg}) == reg:
                    out.append((st, norm(n.args[0])))
    return out


# Registries reached through attributes are part of the data model and are named; registries that are local variables are found
# by role: a local of the function (or of the enclosing function, for closures) initialised to an empty dict / set into which
# keyed stores are made.  Sets that only collect text lines (import statements) are not registries of named artefacts.
ATTR_REGISTRIES = {"classes_by_name", "classes_by_reference"}
REGISTRIES = ATTR_REGISTRIES  # kept for importers


def local_registries(f: FuncInfo) -> dict[str, str]:
    """local accumulator name -> kind ('dict' | 'set') for f and its enclosing functions"""
    out: dict[str, str] = {}
    g: FuncInfo | None = f
    while g is not None:
        lc = Locals(g.node)
        for name, ds in lc.defs.items():
            for k, _, v in ds:
                if k != "assign" or v is None:
                    continue
                t = norm(v)
                if t in ("{}", "dict()"):
                    out.setdefault(name, "dict")
                elif t == "set()":
                    out.setdefault(name, "set")
        g = g.parent
    # a set that only ever receives string literals / f-strings collects text (import lines): duplicates are harmless
    for name, kind in list(out.items()):
        if kind == "set":
            adds = [c for r, c in receivers(f.node, "add") if r == name]
            if adds and all(c.args and isinstance(c.args[0], (ast.Constant, ast.JoinedStr)) for c in adds):
                del out[name]
    return out


def registry_label(reg: str, locs: dict[str, str]) -> str:
    return f"<local {locs[reg]}>" if reg in locs else reg


def check_registries(rep: Report, ctx: Any, rid: str) -> None:
    ix = ctx.py
    rep.rule(rid, "every keyed store into a registry of document-derived artefacts (classes_by_name, classes_by_reference, "
                  "per-model properties, per-operation python names, enum members, unique parameters, per-item module files) "
                  "is dominated by a membership test on the same key expression in the same collection, or is a frozen "
                  "unique-by-construction case; conflict-resolution paths end in a re-check")
    cfgs: dict[str, CFG] = {}
    n_stores = 0
    for f in ix.all_functions:
        # the code that turns document items into artefacts: the parser, and the module that writes the artefacts out (Project)
        if not (f.module.name.startswith(f"{PKG}.parser") or f.module.name == PKG):
            continue
        locs = local_registries(f)
        stores = _registry_stores(f, ATTR_REGISTRIES | set(locs))
        if not stores:
            continue
        cfg = cfg_of(f, cfgs)
        errs = error_names(f.node)
        lnames = local_names(f.node) | (local_names(f.parent.node) if f.parent is not None else set())
        for st, reg, key, kind in stores:
            n_stores += 1
            ckey = f"{short(f)}::{registry_label(reg, locs)}[{anon(key, lnames)}]"
            if ckey in FROZEN:
                rep.ok(rid, ckey, "frozen: unique by construction", FROZEN[ckey], nontrivial=False)
                continue
            tests = _membership_tests(f, reg)
            same = [t for t, k in tests if k == norm(key)]
            other = sorted({k for t, k in tests if k != norm(key)})
            if isinstance(key, ast.Constant):
                # a literal key names a fixed slot of the program, not an item of the document: no two items can meet in it
                rep.ok(rid, ckey, "literal key", "not derived from the document", nontrivial=False)
                continue
            if kind == "setdefault":
                # setdefault is itself test-and-store: an existing entry is kept and shared (endpoints grouped by tag)
                rep.ok(rid, ckey, "setdefault", "test-and-store in one operation", nontrivial=False)
                continue
            if f.name == "_add_if_no_conflict" and reg in locs:
                # uniqueness scope is python_name: the comparison loop must dominate the store on every path
                def is_pyname_loop(n: object, reg: str = reg) -> bool:
                    if not isinstance(n, ast.For):
                        return False
                    if reg not in norm(n.iter):
                        return False
                    body_txt = " ".join(norm(s) for s in n.body)
                    return "python_name" in body_txt and "_resolve_naming_conflict" in body_txt

                ok = cfg.is_dominated_by(st, is_pyname_loop)
                rep.check(ok, rid, ckey, "the store into the model's property table is not dominated (on every path) by the "
                                         "python_name collision loop ending in _resolve_naming_conflict", where(f, st),
                          lhs="store " + norm(st)[:80], rhs="dominated by `for other_prop in properties.values(): ... python_name ...`")
                continue
            if f.name == "_check_parameters_for_conflicts" and reg in locs:
                dominated = any(cfg.is_dominated_by(st, lambda n, t=t: n is t) for t in same)
                if not dominated:
                    # alternative: the modification is recorded before the store on every path (a re-check is forced)
                    mods = modification_sets(f)
                    dominated = cfg.is_dominated_by(st, lambda n: isinstance(n, ast.stmt) and any(
                        r in mods for r, c in receivers(n, "add") if any(c is x for x in walk_own(n))))
                rep.check(dominated, rid, ckey, "store into the per-operation name table without a dominating pop/membership "
                                                "test of the same key expression", where(f, st),
                          lhs="store " + norm(st)[:80], rhs=f"dominated by pop/in on `{norm(key)}`")
                continue
            if not same:
                msg = "no membership test on the stored key in the same collection"
                if other:
                    msg += f" (a different key is tested: {other} - the test and the store disagree)"
                rep.fail(rid, ckey, msg, where(f, st), lhs="stored key " + norm(key), rhs=f"tested keys {other}")
                continue
            dominated = any(cfg.is_dominated_by(st, lambda n, t=t: n is t) for t in same)
            if not dominated:
                rep.fail(rid, ckey, "the membership test on this key does not dominate the store (some path skips it)",
                         where(f, st), lhs="store " + norm(st)[:80], rhs="dominated by test")
                continue
            # the test must lead to a diagnostic: some return of an error is reachable from the test without passing the store
            t0 = next(t for t in same if cfg.is_dominated_by(st, lambda n, t=t: n is t))
            reach = cfg.reachable_from(t0, avoid=lambda n: n is st)
            leads = any(isinstance(n, ast.stmt) and (returns_error(n, errs) or isinstance(n, ast.Raise)) for n in reach)
            if not leads:
                rep.fail(rid, ckey, "the membership test never leads to an error return or raise: a duplicate is not diagnosed",
                         where(f, st), lhs="test " + norm(t0)[:80], rhs="reaches `return <error>` avoiding the store")
                continue
            # test and store must see the same registry: the variable holding it is not rebound on any path between them (a call
            # that returns a new registry state in between may have added the very key that was tested)
            stale = _rebound_between(cfg, t0, st, _holders(t0, reg) | _holders(st, reg))
            rep.check(not stale, rid, ckey, "the registry is replaced between the membership test and the store: entries added in "
                                            "between under the same key are overwritten without a diagnostic", where(f, stale[0] if stale else st),
                      lhs="test " + norm(t0)[:60] + " ... " + (norm(stale[0])[:60] if stale else ""), rhs="no rebinding of the holder between test and store")
    rep.floor("registry_stores", n_stores, 9)

    # ---- compatibility condition of the enum builders (existing entry of another kind must be an error) ----------
    for cname in ("EnumProperty", "LiteralEnumProperty"):
        c = ix.cls(cname)
        b = c.methods.get("build")
        rep.require(b, f"{cname}.build")
        found = False
        for n in ast.walk(b.node):
            if isinstance(n, ast.If) and "isinstance(existing" in norm(n.test) and any(
                    isinstance(s, ast.Return) for s in ast.walk(n)):
                found = True
                inst_atom = [a for a in _atoms(n.test) if a.startswith("isinstance(existing")]
                val_atom = [a for a in _atoms(n.test) if "values" in a]
                ok = bool(inst_atom) and bool(val_atom)
                if ok:
                    for env, res in truth_table(n.test):
                        own = env[inst_atom[0]] and (cname in inst_atom[0])
                        differ = env[val_atom[0]] if "!=" in val_atom[0] else not env[val_atom[0]]
                        must_err = (not own) or differ
                        if must_err and not res:
                            ok = False
                rep.check(ok, rid, f"{short(b)}::existing-compatible",
                          "an existing class of another kind or with other values under the same name must be diagnosed",
                          where(b, n), lhs=norm(n.test), rhs="true whenever existing is not this enum kind or values differ")
        rep.require(found, f"{cname}.build compatibility test")

    check_param_conflicts(rep, ctx, rid, cfgs)


def check_param_conflicts(rep: Report, ctx: Any, rid: str, cfgs: "dict[str, CFG] | None" = None) -> None:
    """conflict resolution of operation parameters ends in a re-check; reserved names are examined for every parameter"""
    ix = ctx.py
    cfgs = cfgs if cfgs is not None else {}
    ep = ix.cls("Endpoint")
    f = ep.methods.get("_check_parameters_for_conflicts")
    rep.require(f, "Endpoint._check_parameters_for_conflicts")
    cfg = cfg_of(f, cfgs)
    reserved = reserved_lists(f)
    loops = [n for n in ast.walk(f.node) if isinstance(n, ast.For) and any(
        isinstance(x, ast.Compare) and isinstance(x.ops[0], ast.In) and norm(x.comparators[0]) in reserved for s_ in n.body for x in ast.walk(s_))]
    rep.require(loops, "parameter loop (with the reserved-name test) in _check_parameters_for_conflicts")
    loop = loops[0]
    renames = [s for s in cfg.stmts() if stmt_calls(s, "set_python_name")]
    rep.floor("parameter_renames", len(renames), 3)
    mods = modification_sets(f)
    rep.require(mods, "the set handed to the recursive re-run (previously_modified_params=...)")

    def records(n: object) -> bool:
        return isinstance(n, ast.stmt) and any(r in mods and any(c is x for x in walk_own(n)) for r, c in receivers(n, "add"))

    for s in renames:
        # every path from the rename back to the loop head records the modification (forcing the recursive re-run)
        ok = cfg.every_path_passes(s, loop, records)
        rep.check(ok, rid, f"{short(f)}::rename->{anon(s, local_names(f.node))[:60]}",
                  "a parameter is renamed but the change is not recorded in modified_params on every path: no re-check runs",
                  where(f, s), lhs=norm(s)[:80], rhs="followed by <modified set>.add on every path to the next iteration")
    tail = [s for s in cfg.stmts() if isinstance(s, ast.Return) and s.value is not None and stmt_calls(s, "_check_parameters_for_conflicts")]
    rep.check(bool(tail), rid, f"{short(f)}::re-run", "the conflict check no longer re-runs itself after modifications",
              where(f, f.node), lhs="recursive return", rhs="present")
    for s in cfg.stmts():
        if isinstance(s, ast.Return) and isinstance(s.value, ast.Name) and s.value.id == "self":
            ok = cfg.is_dominated_by(s, lambda n: n is loop)
            rep.check(ok, rid, f"{short(f)}::success-return", "a success return is reachable without visiting the parameters "
                                                               "(reserved names / collisions unchecked)", where(f, s),
                      lhs="return self", rhs="dominated by the loop over all parameters")
    # reserved names cover the keyword parameters the endpoint functions themselves declare is checked by C18 (R18.2)

    # naming conflict of model attributes: the raw-name fallback is followed by an equality re-check
    g = ix.func("model_property._resolve_naming_conflict")
    cfg2 = cfg_of(g, cfgs)
    sets = [s for s in cfg2.stmts() if stmt_calls(s, "set_python_name")]
    cmp_ = [s for s in cfg2.stmts() if isinstance(s, ast.If) and "python_name" in norm(s.test) and "==" in norm(s.test)]
    ok = bool(sets) and bool(cmp_) and all(cfg2.every_path_passes(s, "EXIT", lambda n: n in cmp_) for s in sets) and \
        any(returns_error(r, set()) for c_ in cmp_ for r in ast.walk(c_) if isinstance(r, ast.stmt))
    rep.check(ok, rid, f"{short(g)}::re-check", "raw-name fallback is not followed by an equality test that returns an error",
              where(g, g.node), lhs="set_python_name(..., skip_snake_case=True) x2", rhs="then `if first.python_name == second.python_name: return PropertyError`")


def modification_sets(f: FuncInfo) -> set[str]:
    """locals handed to the recursive call as previously_modified_params: a change recorded there forces a re-check"""
    out = set()
    for c in ast.walk(f.node):
        if isinstance(c, ast.Call) and call_name(c).endswith("_check_parameters_for_conflicts"):
            for k in c.keywords:
                if k.arg == "previously_modified_params" and isinstance(k.value, ast.Name):
                    out.add(k.value.id)
    return out


def reserved_lists(f: FuncInfo) -> dict[str, list[str]]:
    """locals bound to a literal list / tuple / set of strings (reserved identifier tables)"""
    out = {}
    for name, ds in Locals(f.node).defs.items():
        for k, _, v in ds:
            if k == "assign" and isinstance(v, (ast.List, ast.Tuple, ast.Set)) and v.elts and all(
                    isinstance(e, ast.Constant) and isinstance(e.value, str) for e in v.elts):
                out[name] = [e.value for e in v.elts]
    return out


def _atoms(e: ast.expr) -> list[str]:
    from ..astutil import bool_atoms

    return bool_atoms(e)


def _single_assignments(fn: ast.AST) -> dict[str, ast.AST]:
    """locals of fn bound exactly once, by a plain assignment: reading them is reading their definition"""
    out = {}
    for name, ds in Locals(fn).defs.items():
        if len(ds) == 1 and ds[0][0] == "assign" and ds[0][2] is not None:
            out[name] = ds[0][2]
    return out


class _Subst(ast.NodeTransformer):
    def __init__(self, env: dict[str, ast.AST]) -> None:
        self.env = env

    def visit_Name(self, n: ast.Name) -> ast.AST:
        import copy

        if isinstance(n.ctx, ast.Load) and n.id in self.env:
            return copy.deepcopy(self.env[n.id])
        return n


def _subst(e: ast.AST, env: dict[str, ast.AST], rounds: int = 1) -> ast.AST:
    import copy

    out = copy.deepcopy(e)
    for _ in range(rounds):
        if not (names_in_load(out) & set(env)):
            break
        out = ast.fix_missing_locations(_Subst(env).visit(out))
    return out


def names_in_load(e: ast.AST) -> set[str]:
    return {n.id for n in ast.walk(e) if isinstance(n, ast.Name) and isinstance(n.ctx, ast.Load)}


def _inline_locals(e: ast.AST, fn: ast.AST) -> ast.AST:
    """e with every once-assigned local of fn replaced by what it is bound to (three levels): the expression in terms of
    parameters, loop variables and attributes, however many intermediate locals the author introduced"""
    return _subst(e, _single_assignments(fn), rounds=3)


def _innermost_for(fn: ast.AST, node: ast.AST) -> ast.For | None:
    best = None
    for lp in ast.walk(fn):
        if isinstance(lp, (ast.For, ast.AsyncFor)) and any(x is node for s in lp.body for x in ast.walk(s)):
            best = lp  # breadth-first walk: deeper loops come later
    return best


def _bind_call(g: FuncInfo, call: ast.Call) -> dict[str, ast.AST]:
    """parameter name of g -> actual argument expression at `call`"""
    a = g.node.args
    pos = [x.arg for x in [*a.posonlyargs, *a.args]]
    if pos and pos[0] in ("self", "cls") and g.kind in ("method", "classmethod", "property"):
        pos = pos[1:]
    env: dict[str, ast.AST] = {}
    for p_, v in zip(pos, call.args):
        if not isinstance(v, ast.Starred):
            env[p_] = v
    for k in call.keywords:
        if k.arg is not None:
            env[k.arg] = k.value
    return env


def _path_constructions(fn: ast.AST) -> list[tuple[ast.BinOp, ast.expr]]:
    """`<dir> / f"...{NAME}..."` expressions of fn: (the path expression, NAME)"""
    out = []
    for n in ast.walk(fn):
        if isinstance(n, ast.BinOp) and isinstance(n.op, ast.Div) and isinstance(n.right, ast.JoinedStr):
            fv = [v.value for v in n.right.values if isinstance(v, ast.FormattedValue)]
            if fv:
                out.append((n, fv[0]))
    return out


def _stmt_containing(fn: ast.AST, node: ast.AST) -> ast.stmt | None:
    best = None
    for st in ast.walk(fn):
        if isinstance(st, ast.stmt) and any(x is node for x in walk_own(st)):
            best = st
    return best


def _diagnosing_guard(f: FuncInfo, scope: list[ast.stmt], name_txt: str, avoid: set[int], cfgs: dict[str, CFG]) -> bool:
    """some membership test on the derived name inside `scope` from which a diagnostic (raise / error record / error return) is
    reachable without passing the write: a test that merely selects between two silent behaviours protects nothing"""
    cfg = cfg_of(f, cfgs)
    errs = error_names(f.node)
    for s in scope:
        for st in ast.walk(s):
            if not isinstance(st, ast.stmt):
                continue
            for c in walk_own(st):
                if isinstance(c, ast.Compare) and len(c.ops) == 1 and isinstance(c.ops[0], (ast.In, ast.NotIn)) and \
                        name_txt in norm(_inline_locals(c.left, f.node)):
                    reach = cfg.reachable_from(st, avoid=lambda n: id(n) in avoid)
                    if any(isinstance(n, ast.stmt) and (isinstance(n, ast.Raise) or returns_error(n, errs) or _records_error(n, errs))
                           for n in reach):
                        return True
    return False


def _records_error(st: ast.stmt, errs: set[str]) -> bool:
    from ..astutil import constructs_error

    for c in walk_own(st):
        if isinstance(c, ast.Call) and isinstance(c.func, ast.Attribute) and c.func.attr in ("append", "extend") and c.args:
            a0 = c.args[0]
            if constructs_error(a0) or (isinstance(a0, ast.Name) and a0.id in errs):
                return True
    return False


def check_module_files(rep: Report, ctx: Any, rid: str) -> None:
    """per-item module files written by Project: two items mapping to one path overwrite each other silently unless a membership
    test on the derived name that leads to a diagnostic guards the write.  A site is a path expression `<dir> / f"{NAME}.py"`
    evaluated once per iteration of a loop - in the loop body itself or in a helper the loop body calls, in which case NAME is
    read in the caller's terms (actual arguments substituted for the helper's parameters)."""
    ix = ctx.py
    proj = ix.cls("Project")
    cfgs: dict[str, CFG] = {}
    methods = list(proj.methods.values())

    def call_sites(g: FuncInfo) -> list[tuple[FuncInfo, ast.Call]]:
        out = []
        for h in methods:
            if h is g:
                continue
            for c in ast.walk(h.node):
                if isinstance(c, ast.Call) and call_name(c) in (f"self.{g.name}", f"cls.{g.name}", f"{proj.name}.{g.name}"):
                    out.append((h, c))
        return out

    # (function holding the loop, loop, NAME in that function's terms, node evaluated per iteration, statements to look for a guard in,
    #  ids of the statements that perform / lead to the write)
    sites: list[tuple[FuncInfo, ast.For, ast.AST, ast.AST, list[tuple[FuncInfo, list[ast.stmt], set[int]]]]] = []

    def lift(g: FuncInfo, node: ast.AST, name: ast.AST, guards: list[tuple[FuncInfo, list[ast.stmt], set[int]]], depth: int) -> None:
        name = _inline_locals(name, g.node)
        loop = _innermost_for(g.node, node)
        st = _stmt_containing(g.node, node)
        users = {id(st)} if st is not None else set()
        if isinstance(st, ast.Assign):
            bound = {t.id for t in st.targets if isinstance(t, ast.Name)}
            users |= {id(s) for s in ast.walk(g.node) if isinstance(s, ast.stmt) and s is not st and
                      any(isinstance(x, ast.Name) and x.id in bound and isinstance(x.ctx, ast.Load) for x in walk_own(s))}
        if loop is not None:
            sites.append((g, loop, name, node, guards + [(g, list(loop.body), users)]))
            return
        params = {a.arg for a in [*g.node.args.posonlyargs, *g.node.args.args, *g.node.args.kwonlyargs]} - {"self", "cls"}
        if depth <= 0 or not (names_in_load(name) & params):
            return  # evaluated once per run (a fixed file) or not traceable: not a per-item file
        for h, call in call_sites(g):
            lift(h, call, _subst(name, _bind_call(g, call)), guards + [(g, list(g.node.body), users)], depth - 1)

    for g in methods:
        for node, name in _path_constructions(g.node):
            lift(g, node, name, [], 2)

    n = 0
    seen: set[tuple[int, str]] = set()
    for f, loop, name, node, guards in sites:
        lnames = local_names(f.node)
        key = f"{short(f)}::file[{anon(name, lnames)}]@{anon(loop.iter, lnames)}"
        if (id(loop), key) in seen:
            continue
        seen.add((id(loop), key))
        n += 1
        guarded = False
        for g, scope, users in guards:
            # the name as the guard's function spells it: in the loop's function the lifted expression, in a helper its own
            for _, nm in ([(None, name)] if g is f else _path_constructions(g.node)):
                if _diagnosing_guard(g, scope, norm(_inline_locals(nm, g.node)), users, cfgs):
                    guarded = True
        rep.check(guarded, rid, key, "one file per item, named from the sanitised name, written without any collision test that "
                                     "leads to a diagnostic: two items with the same derived name overwrite each other",
                  where(f, node), lhs=norm(node)[:90], rhs="guarded by a membership test on the derived name that reaches a diagnostic")
    rep.floor("per_item_module_files", n, 3)
