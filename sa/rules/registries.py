"""Uniqueness scopes (R07.4 = R09.3 = R14.2): every keyed store of a document-derived artefact is dominated by a
membership test on the same key in the same collection that leads to a diagnostic - in the function that stores or, when
the store sits in a helper / a method of the registry class that is handed the key, at every call site of the helper (the
key read in the caller's terms) -, or re-registers an object under its own name, or the key is unique by construction
(frozen table, one line of reason each), and conflict-resolution paths end in a re-check."""
from __future__ import annotations

import ast
from typing import Any

from ..astutil import (Locals, anon, call_name, cfg_of, error_names, find_stmts, local_names, norm, receivers, region, returns_error,
                       short, stmt_calls, terminals, where)
from ..cfg import CFG, walk_own
from ..core import PKG, Report
from ..pyindex import FuncInfo, dotted

# stores whose key is unique by construction or whose merge is intended: construct key -> reason (confirmed by reading)
FROZEN = {
    "parser.properties.schemas.update_schemas_with_data::classes_by_reference[ref_path]":
        "ref_path is built from a key of components.schemas: keys of one mapping are distinct",
    "parser.properties.schemas.update_parameters_with_data::classes_by_reference[ref_path]":
        "ref_path is built from a key of components.parameters: keys of one mapping are distinct",
    "parser.properties.schemas.parameter_from_data::classes_by_name[ClassName(name, config.field_prefix)]":
        "Parameters.classes_by_name is never read anywhere in the package (write-only table)",
    "parser.properties.enum_property.EnumProperty.values_from_list::<local dict>[f'VALUE_NEGATIVE_{-_}']":
        "integer members: the name is an injective function of the integer value (equal names = equal values)",
    "parser.properties.enum_property.EnumProperty.values_from_list::<local dict>[f'VALUE_{_}']":
        "integer members: the name is an injective function of the integer value (equal names = equal values)",
}


def _copy_source(v: ast.AST) -> ast.AST:
    """X when v is X itself or a shallow copy of it: dict(X), X.copy(), copy(X), {**X} / {**X, k: v}"""
    if isinstance(v, ast.Call):
        if call_name(v) in ("dict", "copy", "copy.copy", "set") and len(v.args) == 1 and not v.keywords:
            return v.args[0]
        if isinstance(v.func, ast.Attribute) and v.func.attr == "copy" and not v.args and not v.keywords:
            return v.func.value
    if isinstance(v, ast.Dict):
        spreads = [x for k, x in zip(v.keys, v.values) if k is None]
        if len(spreads) == 1:
            return spreads[0]
    return v


def _aliases(fn: ast.AST) -> dict[str, str]:
    """local name -> attribute registry, for locals only ever bound to such a registry or to a shallow copy of it (the copy that
    is filled and then handed to evolve(...) stands for the registry it was copied from).  Found by what the local is bound
    from, never by how it is spelled."""
    out: dict[str, str] = {}
    for name, ds in Locals(fn).defs.items():
        regs = set()
        for k, _, v in ds:
            src = _copy_source(v) if k == "assign" and v is not None else None
            d = (dotted(src) or "").rsplit(".", 1)[-1] if isinstance(src, ast.Attribute) else ""
            regs.add(d if d in ATTR_REGISTRIES else "")
        if len(regs) == 1 and "" not in regs:
            out[name] = next(iter(regs))
    return out


def _reg_of(e: ast.AST, names: set[str], aliases: "dict[str, str] | None" = None) -> str:
    """registry named by expression e: a local accumulator by its own name, an attribute registry by its last component, a local
    alias / working copy of an attribute registry by the registry it was taken from"""
    if isinstance(e, ast.Name):
        if aliases and aliases.get(e.id) in names:
            return aliases[e.id]
        return e.id if e.id in names and e.id not in ATTR_REGISTRIES else ""
    if isinstance(e, ast.Call) and isinstance(e.func, ast.Attribute) and e.func.attr == "keys" and not e.args:
        return _reg_of(e.func.value, names, aliases)
    d = (dotted(e) or "").rsplit(".", 1)[-1]
    return d if d in names and d in ATTR_REGISTRIES else ""


def _key_alternatives(fn: ast.AST, key: ast.expr, depth: int = 3) -> list[ast.expr]:
    """the expressions a stored key can be: a conditional expression is either of its arms; a local that is only bound by plain
    assignments is what it is bound to - any of the values when different branches bind different ones"""
    if isinstance(key, ast.IfExp):
        alts = _key_alternatives(fn, key.body, depth) + _key_alternatives(fn, key.orelse, depth)
    elif isinstance(key, ast.Name) and depth > 0:
        ds = _locals(fn).defs.get(key.id, [])
        sig = getattr(fn, "args", None)
        is_param = isinstance(sig, ast.arguments) and key.id in {x.arg for x in [*sig.posonlyargs, *sig.args, *sig.kwonlyargs]}
        if ds and not is_param and all(k == "assign" and v is not None for k, _, v in ds):
            alts = [alt for _, _, v in ds for alt in _key_alternatives(fn, v, depth - 1)]
        else:
            alts = [key]
    else:
        alts = [key]
    seen: set[str] = set()
    return [a for a in alts if not (norm(a) in seen or seen.add(norm(a)))]


def same_key(a: ast.AST, b: ast.AST, fn: ast.AST) -> bool:
    """two key expressions denote the same key: equal text, or equal once the locals that are bound exactly once are replaced by
    what they are bound to (`name = info.name; if name in reg` tests the key of `reg[info.name] = ...`)"""
    return norm(a) == norm(b) or norm(_inline_locals(a, fn)) == norm(_inline_locals(b, fn)) or norm(canon_key(a, fn)) == norm(canon_key(b, fn))


def _registry_stores(f: FuncInfo, names: set[str]) -> list[tuple[ast.stmt, str, ast.expr, str, "ast.expr | None"]]:
    """(statement, registry name, key expr, kind, stored value) for stores into one of the registries `names`.  A key that is a choice
    between several expressions (see _key_alternatives) and is not itself the subject of a membership test counts as one store per
    alternative: each must be justified on its own."""
    out: list[tuple[ast.stmt, str, ast.expr, str, "ast.expr | None"]] = []
    aliases = _aliases(f.node)
    tested: dict[str, list[ast.expr]] = {}

    def emit(st: ast.stmt, reg: str, key: ast.expr, kind: str, value: "ast.expr | None" = None) -> None:
        if reg not in tested:
            tested[reg] = [k for _, k in membership_tests(f, reg)]
        if any(same_key(k, key, f.node) for k in tested[reg]):
            out.append((st, reg, key, kind, value))
            return
        for alt in _key_alternatives(f.node, key):
            out.append((st, reg, alt, kind, value))

    for st in ast.walk(f.node):
        if not isinstance(st, ast.stmt):
            continue
        if isinstance(st, (ast.FunctionDef, ast.AsyncFunctionDef, ast.ClassDef)) and st is not f.node:
            continue
        own = list(walk_own(st))
        kw_dicts = {id(n.value): n.arg for n in own if isinstance(n, ast.keyword) and n.arg in names and isinstance(n.value, ast.Dict)}
        for n in own:
            # X[K] = V
            if isinstance(n, ast.Assign):
                for t in n.targets:
                    if isinstance(t, ast.Subscript):
                        reg = _reg_of(t.value, names, aliases)
                        if reg:
                            emit(st, reg, t.slice, "subscript", n.value)
            # {**x.reg, K: V} / {K: V, **x.reg}: the registry with one more entry, wherever the display is written (argument of
            # evolve(x, reg=...), or bound to a local first)
            if isinstance(n, ast.Dict) and any(k is None for k in n.keys):
                reg = kw_dicts.get(id(n)) or next((r for k, v in zip(n.keys, n.values) if k is None
                                                   for r in [_reg_of(v, names, aliases)] if r), "")
                if reg:
                    for k, v in zip(n.keys, n.values):
                        if k is not None:
                            emit(st, reg, k, "spread", v)
            # x.reg | {K: V}
            if isinstance(n, ast.BinOp) and isinstance(n.op, ast.BitOr):
                for a, b in ((n.left, n.right), (n.right, n.left)):
                    reg = _reg_of(a, names, aliases)
                    if reg and isinstance(b, ast.Dict):
                        for k, v in zip(b.keys, b.values):
                            if k is not None:
                                emit(st, reg, k, "spread", v)
            if isinstance(n, ast.Call) and isinstance(n.func, ast.Attribute) and n.func.attr in ("setdefault", "add") and n.args:
                reg = _reg_of(n.func.value, names, aliases)
                if reg:
                    emit(st, reg, n.args[0], n.func.attr, n.args[1] if n.func.attr == "setdefault" and len(n.args) > 1 else None)
            if isinstance(n, ast.Call) and isinstance(n.func, ast.Attribute) and n.func.attr == "update" and n.args and \
                    isinstance(n.args[0], ast.Dict):
                reg = _reg_of(n.func.value, names, aliases)
                if reg:
                    for k, v in zip(n.args[0].keys, n.args[0].values):
                        if k is not None:
                            emit(st, reg, k, "subscript", v)
    # nested functions are separate FuncInfos; drop statements that belong to them
    nested = [g for g in ast.walk(f.node) if isinstance(g, (ast.FunctionDef, ast.AsyncFunctionDef)) and g is not f.node]
    inner = {id(s) for g in nested for s in ast.walk(g)}
    return [x for x in out if id(x[0]) not in inner]


def _alias_definitions(fn: ast.AST, reg: str) -> list[ast.stmt]:
    """the statements that bind a local alias / working copy of registry `reg`"""
    al = {n for n, r in _aliases(fn).items() if r == reg}
    return [st for n, ds in Locals(fn).defs.items() if n in al for _, st, _v in ds if isinstance(st, ast.stmt)]


def _holders(st: ast.stmt, reg: str, aliases: "dict[str, str] | None" = None) -> set[str]:
    """local names through which statement st reaches registry `reg`: the root of `<root>...reg`, reg itself when it is a local,
    a local alias / working copy of it"""
    out = set()
    for n in walk_own(st):
        if isinstance(n, ast.Attribute) and n.attr == reg:
            root = n.value
            while isinstance(root, (ast.Attribute, ast.Subscript, ast.Call)):
                root = root.func if isinstance(root, ast.Call) else root.value
            if isinstance(root, ast.Name):
                out.add(root.id)
        elif isinstance(n, ast.Name) and (n.id == reg or (aliases or {}).get(n.id) == reg):
            out.add(n.id)
    return out


def _rebound_between(cfg: CFG, test: ast.stmt, store: ast.stmt, holders: set[str], benign: "list[ast.stmt] | None" = None) -> list[ast.stmt]:
    """statements that assign one of `holders` on some path test -> ... -> store (not passing the test again); `benign` are
    statements known not to change what the holders stand for (taking the working copy of the registry)"""
    out = []
    between = cfg.reachable_from(test, avoid=lambda n: n is store or n is test)
    for r in between:
        if not isinstance(r, ast.stmt) or r is test or r is store or any(r is b for b in benign or []):
            continue
        if any(isinstance(x, ast.Name) and isinstance(x.ctx, ast.Store) and x.id in holders for x in walk_own(r)):
            if store in cfg.reachable_from(r, avoid=lambda n: n is test):
                out.append(r)
    return sorted(out, key=lambda s_: getattr(s_, "lineno", 0))


def membership_tests(f: FuncInfo, reg: str, ix: Any = None) -> list[tuple[ast.stmt, ast.expr]]:
    """statements of f that find out whether key K is in registry `reg`: `K in <...>.reg` (or its .keys()), reg.pop(K) / reg.get(K),
    `reg[K]` read under a handler for the missing key; the registry may be reached through a local alias: (stmt, K).  With the index
    given, also the statements that call a private helper of f (astutil.region) which asks that question about a key it is handed:
    the call is where the question is asked, K is the helper's key in f's terms."""
    out: list[tuple[ast.stmt, ast.expr]] = []
    if ix is not None and reg in ATTR_REGISTRIES:
        helpers = {g.name: g for g in region(ix, f, depth=1) if g is not f}
        if helpers:
            for st in ast.walk(f.node):
                if not isinstance(st, ast.stmt):
                    continue
                for c in walk_own(st):
                    g = helpers.get(call_name(c).rsplit(".", 1)[-1]) if isinstance(c, ast.Call) else None
                    if g is None:
                        continue
                    env = _bind_full(g, c)
                    for _, k in membership_tests(g, reg):
                        k_f = _in_callers_terms(k, g, env) if names_in_load(canon_key(k, g.node)) & _params_of(g) else None
                        if k_f is not None:
                            out.append((st, k_f))
    aliases = _aliases(f.node)
    guarded: dict[int, ast.Try] = {}
    for t in ast.walk(f.node):
        if isinstance(t, ast.Try) and any(h.type is None or {x.rsplit(".", 1)[-1] for x in [dotted(e) or "" for e in (
                h.type.elts if isinstance(h.type, ast.Tuple) else [h.type])]} & {"KeyError", "LookupError", "Exception"} for h in t.handlers):
            guarded.update({id(s): t for b in t.body for s in ast.walk(b) if isinstance(s, ast.stmt)})
    for st in ast.walk(f.node):
        if not isinstance(st, ast.stmt):
            continue
        for n in walk_own(st):
            if isinstance(n, ast.Compare) and len(n.ops) == 1 and isinstance(n.ops[0], (ast.In, ast.NotIn)):
                if _reg_of(n.comparators[0], {reg}, aliases) == reg:
                    out.append((st, n.left))
            if isinstance(n, ast.Call) and isinstance(n.func, ast.Attribute) and n.func.attr in ("pop", "get") and n.args:
                if _reg_of(n.func.value, {reg}, aliases) == reg:
                    out.append((st, n.args[0]))
            if isinstance(n, ast.Subscript) and isinstance(n.ctx, ast.Load) and id(st) in guarded and \
                    _reg_of(n.value, {reg}, aliases) == reg:
                # the `try` statement as a whole is the test: its body may be left for the handler at any point
                out.append((guarded[id(st)], n.slice))
    return out


def _membership_tests(f: FuncInfo, reg: str) -> list[tuple[ast.stmt, str]]:
    """membership_tests with the key as normalised text (kept for importers)"""
    return [(st, norm(k)) for st, k in membership_tests(f, reg)]


# Registries reached through attributes are part of the data model and are named; registries that are local variables are found
# by role: a local of the function (or of the enclosing function, for closures) initialised to an empty dict / set into which
# keyed stores are made.  Sets that only collect text lines (import statements) are not registries of named artefacts.
ATTR_REGISTRIES = {"classes_by_name", "classes_by_reference"}
REGISTRIES = ATTR_REGISTRIES  # kept for importers


def local_registries(f: FuncInfo) -> dict[str, str]:
    """local accumulator name -> kind ('dict' | 'set') for f and its enclosing functions"""
    out: dict[str, str] = {}
    g: FuncInfo | None = f
    while g is not None:
        lc = Locals(g.node)
        for name, ds in lc.defs.items():
            for k, _, v in ds:
                if k != "assign" or v is None:
                    continue
                t = norm(v)
                if t in ("{}", "dict()"):
                    out.setdefault(name, "dict")
                elif t == "set()":
                    out.setdefault(name, "set")
        g = g.parent
    # a set that only ever receives string literals / f-strings collects text (import lines): duplicates are harmless
    for name, kind in list(out.items()):
        if kind == "set":
            adds = [c for r, c in receivers(f.node, "add") if r == name]
            if adds and all(c.args and isinstance(c.args[0], (ast.Constant, ast.JoinedStr)) for c in adds):
                del out[name]
    return out


def registry_label(reg: str, locs: dict[str, str]) -> str:
    return f"<local {locs[reg]}>" if reg in locs else reg


def check_registries(rep: Report, ctx: Any, rid: str) -> None:
    ix = ctx.py
    rep.rule(rid, "every keyed store into a registry of document-derived artefacts (classes_by_name, classes_by_reference, "
                  "per-model properties, per-operation python names, enum members, unique parameters, per-item module files) "
                  "is dominated by a membership test on the same key in the same collection that leads to a diagnostic - in the "
                  "function that stores, or, when the store sits in a helper / a method of the registry that is handed the key, at "
                  "every place the helper is called from (key read in the caller's terms) -, or re-registers an object the function "
                  "obtained under that object's own class name, or is a frozen unique-by-construction case; conflict-resolution "
                  "paths end in a re-check")
    cfgs: dict[str, CFG] = {}
    n_stores = 0
    scope = registry_scope(ix)
    for f in scope:
        locs = local_registries(f)
        stores = _registry_stores(f, ATTR_REGISTRIES | set(locs))
        if not stores:
            continue
        cfg = cfg_of(f, cfgs)
        lnames = local_names(f.node) | (local_names(f.parent.node) if f.parent is not None else set())
        mods: "set[str] | None" = None
        for st, reg, key, kind, value in stores:
            n_stores += 1
            ckey = f"{short(f)}::{registry_label(reg, locs)}[{anon(key, lnames)}]"
            if f.name == "_add_if_no_conflict" and reg in locs and not _is_frozen(f, reg, key, locs, lnames):
                # uniqueness scope is python_name: the comparison loop must dominate the store on every path
                def is_pyname_loop(n: object, reg: str = reg) -> bool:
                    if not isinstance(n, ast.For):
                        return False
                    if reg not in norm(n.iter):
                        return False
                    body_txt = " ".join(norm(s) for s in n.body)
                    return "python_name" in body_txt and "_resolve_naming_conflict" in body_txt

                if not (isinstance(key, ast.Constant) or kind == "setdefault"):
                    ok = cfg.is_dominated_by(st, is_pyname_loop)
                    rep.check(ok, rid, ckey, "the store into the model's property table is not dominated (on every path) by the "
                                             "python_name collision loop ending in _resolve_naming_conflict", where(f, st),
                              lhs="store " + norm(st)[:80], rhs="dominated by `for other_prop in properties.values(): ... python_name ...`")
                    continue
            if reg in locs and not _is_frozen(f, reg, key, locs, lnames) and not isinstance(key, ast.Constant) and kind != "setdefault":
                if mods is None:
                    mods = modification_sets(f, ix)
                if mods:
                    # a table kept by a pass that is re-run whenever something was modified (the pass records modifications in a
                    # set that decides the re-run): a store is justified by a dominating pop / membership test of its key, or by a
                    # modification recorded before it on every path - the next pass compares the entry again
                    same = [t for t, k in membership_tests(f, reg, ix) if same_key(k, key, f.node)]
                    dominated = any(cfg.is_dominated_by(st, lambda n, t=t: n is t) for t in same)
                    if not dominated:
                        helpers = _helpers_of(ix, f)
                        dominated = cfg.is_dominated_by(st, lambda n: isinstance(n, ast.stmt) and bool(_adds_into(f, n, helpers) & mods))
                    rep.check(dominated, rid, ckey, "store into the per-operation name table without a dominating pop/membership "
                                                    "test of the same key expression", where(f, st),
                              lhs="store " + norm(st)[:80], rhs=f"dominated by pop/in on `{norm(key)}`")
                    continue
            for o in _judge(ix, f, st, reg, key, kind, value, set(), cfgs, scope, depth=2, lifted=False):
                o.emit(rep, rid)
    rep.floor("registry_stores", n_stores, 8)

    # ---- compatibility condition of the enum builders (existing entry of another kind must be an error) ----------
    for cname in ("EnumProperty", "LiteralEnumProperty"):
        c = ix.cls(cname)
        b = c.methods.get("build")
        rep.require(b, f"{cname}.build")
        found = False
        reg_b = region(ix, b)
        # a helper that only answers the question for its caller is judged where the answer is used
        answering = {n for g in reg_b for n in _Compat(ix, g, cname).consumed()}
        for g in reg_b:
            if g.name in answering:
                continue
            for verdict, at, shown in _existing_compatible(g, cname, ix):
                found = True
                rep.check(verdict, rid, f"{short(g)}::existing-compatible",
                          "an existing class of another kind or with other values under the same name must be diagnosed",
                          where(g, at), lhs=shown, rhs="only error returns are reachable whenever existing is not this enum kind or values differ")
        rep.require(found, f"{cname}.build compatibility test")

    check_param_conflicts(rep, ctx, rid, cfgs)


def registry_scope(ix: Any) -> list[FuncInfo]:
    """the code that turns document items into artefacts: the parser, and the module that writes the artefacts out (Project)"""
    return [f for f in ix.all_functions if f.module.name.startswith(f"{PKG}.parser") or f.module.name == PKG]


def _is_frozen(f: FuncInfo, reg: str, key: ast.expr, locs: dict[str, str], lnames: set[str]) -> "str | None":
    for shown in (key, _inline_locals(key, f.node), canon_key(key, f.node)):
        k = f"{short(f)}::{registry_label(reg, locs)}[{anon(shown, lnames)}]"
        if k in FROZEN:
            return k
    return None


class _Outcome:
    """one obligation of the registry rule: ok (None = discharged for a stated reason that needs no proof), key, texts"""

    def __init__(self, ok: "bool | None", ckey: str, msg: str, detail: str = "", at: str = "", lhs: Any = None, rhs: Any = None) -> None:
        self.ok, self.ckey, self.msg, self.detail, self.at, self.lhs, self.rhs = ok, ckey, msg, detail, at, lhs, rhs

    def emit(self, rep: Report, rid: str) -> None:
        if self.ok is None:
            rep.ok(rid, self.ckey, self.msg, self.detail, nontrivial=False)
        else:
            rep.check(self.ok, rid, self.ckey, self.msg, self.at, lhs=self.lhs, rhs=self.rhs)


# the attribute path under which an entry of a registry carries its own key
OWN_KEY = {"classes_by_name": ("class_info", "name")}


def _judge(ix: Any, h: FuncInfo, at: ast.stmt, reg: str, key: ast.expr, kind: str, value: "ast.expr | None", holders: set[str],
           cfgs: dict[str, CFG], scope: list[FuncInfo], depth: int, lifted: bool) -> list[_Outcome]:
    """Is the store of `key` into `reg` justified at statement `at` of h?  `at` is the storing statement itself, or - when the store
    was lifted out of a helper - the statement of h that calls the helper (`key` then reads in h's terms, `holders` are the locals of
    h through which the helper reaches the registry)."""
    fn = h.node
    locs = local_registries(h)
    lnames = local_names(fn) | (local_names(h.parent.node) if h.parent is not None else set())
    ckey = f"{short(h)}::{registry_label(reg, locs)}[{anon(simplify_fields(key, fn) if lifted else key, lnames)}]"
    frozen = _is_frozen(h, reg, key, locs, lnames)
    if frozen:
        return [_Outcome(None, frozen, "frozen: unique by construction", FROZEN[frozen])]
    if isinstance(key, ast.Constant):
        # a literal key names a fixed slot of the program, not an item of the document: no two items can meet in it
        return [_Outcome(None, ckey, "literal key", "not derived from the document")]
    if kind == "setdefault":
        # setdefault is itself test-and-store: an existing entry is kept and shared (endpoints grouped by tag)
        return [_Outcome(None, ckey, "setdefault", "test-and-store in one operation")]
    if reg in OWN_KEY and _reregistration(ix, h, reg, key, value):
        return [_Outcome(None, ckey, "re-registration", "the entry is an object this function obtained (possibly copied with evolve(), "
                         "its class untouched), stored under that object's own class name: the item it replaces is the same item "
                         "(model objects are registered where they are built)")]
    cfg = cfg_of(h, cfgs)
    errs = error_names(fn)
    aliases = _aliases(fn)
    tests = membership_tests(h, reg, ix)
    same = [t for t, k in tests if same_key(k, key, fn)]
    other = sorted({norm(k) for t, k in tests if not same_key(k, key, fn)})
    if not same:
        sites = _lift(ix, h, at, reg, key, value, holders, scope) if depth > 0 and reg in ATTR_REGISTRIES else []
        if sites:
            # the store sits in a helper that is handed the key: each place the helper is called from must justify it
            return [o for g, st_g, key_g, value_g, hold_g in sites
                    for o in _judge(ix, g, st_g, reg, key_g, "call", value_g, hold_g, cfgs, scope, depth - 1, True)]
        msg = "no membership test on the stored key in the same collection"
        if other:
            msg += f" (a different key is tested: {other} - the test and the store disagree)"
        return [_Outcome(False, ckey, msg, at=where(h, at), lhs="stored key " + norm(key), rhs=f"tested keys {other}")]
    dominated = any(cfg.is_dominated_by(at, lambda n, t=t: n is t) for t in same)
    if not dominated:
        return [_Outcome(False, ckey, "the membership test on this key does not dominate the store (some path skips it)",
                         at=where(h, at), lhs="store " + norm(at)[:80], rhs="dominated by test")]
    # the test must lead to a diagnostic: some return of an error is reachable from the test without passing the store
    t0 = next(t for t in same if cfg.is_dominated_by(at, lambda n, t=t: n is t))
    reach = cfg.reachable_from(t0, avoid=lambda n: n is at)
    raised, maybe_errors = _asked_in_helper(ix, h, t0, reg, cfgs)
    leads = raised or any(isinstance(n, ast.stmt) and diagnoses(n, errs | maybe_errors) for n in reach)
    if not leads:
        return [_Outcome(False, ckey, "the membership test never leads to an error return or raise: a duplicate is not diagnosed",
                         at=where(h, at), lhs="test " + norm(t0)[:80], rhs="reaches `return <error>` avoiding the store")]
    # test and store must see the same registry: the variable holding it is not rebound on any path between them (a call
    # that returns a new registry state in between may have added the very key that was tested).  Taking the working copy
    # that is then filled is not a rebinding; what it is copied from is a holder like any other.
    copies = _alias_definitions(fn, reg)
    hold = _holders(t0, reg, aliases) | _holders(at, reg, aliases) | set(holders)
    for c_ in copies:
        hold |= _holders(c_, reg, aliases)
    stale = _rebound_between(cfg, t0, at, hold, benign=copies)
    return [_Outcome(not stale, ckey, "the registry is replaced between the membership test and the store: entries added in "
                     "between under the same key are overwritten without a diagnostic", at=where(h, stale[0] if stale else at),
                     lhs="test " + norm(t0)[:60] + " ... " + (norm(stale[0])[:60] if stale else ""),
                     rhs="no rebinding of the holder between test and store")]


def _asked_in_helper(ix: Any, h: FuncInfo, t0: ast.stmt, reg: str, cfgs: dict[str, CFG]) -> tuple[bool, set[str]]:
    """When statement t0 of h asks its question by calling a private helper (the membership test is in the helper): (the helper
    raises on a path from its test, the locals of h that t0 binds to the helper's result when the helper returns an error on a path
    from its test - they may hold the diagnostic)"""
    raised, names = False, set()
    if ix is None:
        return raised, names
    helpers = {g.name: g for g in region(ix, h, depth=1) if g is not h}
    for c in walk_own(t0):
        g = helpers.get(call_name(c).rsplit(".", 1)[-1]) if isinstance(c, ast.Call) else None
        if g is None:
            continue
        gerrs = error_names(g.node)
        gcfg = cfg_of(g, cfgs)
        for t, _ in membership_tests(g, reg):
            after = [n for n in gcfg.reachable_from(t) if isinstance(n, ast.stmt)]
            raised = raised or any(isinstance(n, ast.Raise) or _records_error(n, gerrs) for n in after)
            if any(returns_error(n, gerrs) or _yields_error(n, gerrs) for n in after) and isinstance(t0, (ast.Assign, ast.AnnAssign)):
                for tg in (t0.targets if isinstance(t0, ast.Assign) else [t0.target]):
                    names |= {x.id for x in ast.walk(tg) if isinstance(x, ast.Name)}
    return raised, names


# ---- the key in canonical terms ----------------------------------------------------------------------------------------------------
_COPY_WITH = ("evolve", "replace")          # evolve(X, field=V, ...): X with some fields replaced
_COPY_PLAIN = ("deepcopy", "copy")


class _Fields(ast.NodeTransformer):
    """reads of a field of a record whose construction is in sight are what the field was built from: `C(a=E, ...).a` is E,
    `evolve(X, b=..).a` is `X.a`, `evolve(X, a=E).a` is E (keyword construction only; positional fields are left alone).  With
    `once` (the once-bound locals of the function) a local that holds such a record is looked through, and only then."""

    def __init__(self, once: "dict[str, ast.AST] | None" = None) -> None:
        self.once = once or {}

    def visit_Attribute(self, n: ast.Attribute) -> ast.AST:
        import copy

        self.generic_visit(n)
        src: ast.AST = n.value
        hops = 0
        while isinstance(src, ast.Name) and src.id in self.once and hops < 4:
            src, hops = self.once[src.id], hops + 1
        if not isinstance(n.ctx, ast.Load) or not isinstance(src, ast.Call) or any(k.arg is None for k in src.keywords):
            return n
        last = call_name(src).rsplit(".", 1)[-1]
        kws = {k.arg: k.value for k in src.keywords}
        if last in _COPY_WITH and src.args and not isinstance(src.args[0], ast.Starred):
            if n.attr in kws:
                return copy.deepcopy(kws[n.attr])
            return self.visit(ast.copy_location(ast.Attribute(value=copy.deepcopy(src.args[0]), attr=n.attr, ctx=ast.Load()), n))
        if last in _COPY_PLAIN and len(src.args) == 1 and not src.keywords:
            return self.visit(ast.copy_location(ast.Attribute(value=copy.deepcopy(src.args[0]), attr=n.attr, ctx=ast.Load()), n))
        if (last[:1].isupper() or last == "cls") and n.attr in kws:
            return copy.deepcopy(kws[n.attr])
        return n


def simplify_fields(e: ast.AST, fn: ast.AST) -> ast.AST:
    """e with the field reads that can be decided replaced (see _Fields); every other local stays as it is spelled"""
    import copy

    return ast.fix_missing_locations(_Fields(_single_assignments(fn)).visit(copy.deepcopy(e)))


def canon_key(e: ast.AST, fn: ast.AST) -> ast.AST:
    """the key in terms of parameters, loop variables and attributes: field reads from a record built in sight replaced by what the
    field was built from, once-bound locals replaced by what they are bound to"""
    import copy

    out = _inline_locals(simplify_fields(e, fn), fn)
    return ast.fix_missing_locations(_Fields().visit(copy.deepcopy(out)))


def _params_of(h: FuncInfo) -> set[str]:
    a = h.node.args
    return {x.arg for x in [*a.posonlyargs, *a.args, *a.kwonlyargs]}


def _origin(e: ast.AST, fn: ast.AST, field: str) -> ast.AST:
    """the object e is a copy of: once-bound locals looked through, evolve(X, ...) that leaves `field` alone / deepcopy(X) peeled"""
    once = _single_assignments(fn)
    for _ in range(6):
        if isinstance(e, ast.Name) and e.id in once:
            e = once[e.id]
        elif isinstance(e, ast.Call) and not any(k.arg is None for k in e.keywords) and e.args and (
                (call_name(e).rsplit(".", 1)[-1] in _COPY_WITH and field not in {k.arg for k in e.keywords}) or
                (call_name(e).rsplit(".", 1)[-1] in _COPY_PLAIN and len(e.args) == 1)):
            e = e.args[0]
        else:
            break
    return e


def _obtained(ix: Any, h: FuncInfo, e: ast.AST, field: str, busy: "set[str] | None" = None, idx: "int | None" = None, depth: int = 2) -> bool:
    """the object denoted by e was obtained by h, not built by it and not handed in: the result of a call to something that is neither
    a class nor a private helper of h's own, or a copy (evolve / deepcopy) of such an object that leaves `field` as it was.  The result
    of a private helper is what the helper returns, read in h's terms.  A parameter is neither: whoever calls h knows."""
    busy = busy if busy is not None else set()
    if isinstance(e, ast.Name):
        if e.id in busy:
            return True
        ds = _locals(h.node).defs.get(e.id, [])
        if e.id in _params_of(h) or not ds:
            return False
        out = True
        for k, _, v in ds:
            if not k.startswith("assign") or v is None:
                return False
            i = int(k[k.index("[") + 1:k.index("]")]) if "[" in k else None
            out = out and _obtained(ix, h, v, field, busy | {e.id}, i, depth)
        return out
    if isinstance(e, ast.Call):
        if any(k.arg is None for k in e.keywords):
            return False
        last = call_name(e).rsplit(".", 1)[-1]
        if last in _COPY_WITH and e.args:
            return idx is None and field not in {k.arg for k in e.keywords} and _obtained(ix, h, e.args[0], field, busy, None, depth)
        if last in _COPY_PLAIN and len(e.args) == 1:
            return idx is None and _obtained(ix, h, e.args[0], field, busy, None, depth)
        if last[:1].isupper() or last in ("cls", "type"):
            return False
        if last.startswith("_"):
            g = next((g for g in region(ix, h, depth=1) if g is not h and g.name == last), None) if ix is not None else None
            if g is None or depth <= 0:
                return False
            env = _bind_full(g, e)
            rets = [r.value for r in _own_nodes(g.node) if isinstance(r, ast.Return)]
            if not rets:
                return False
            for r in rets:
                if idx is not None:
                    if not (isinstance(r, ast.Tuple) and idx < len(r.elts)):
                        return False
                    r = r.elts[idx]
                if r is None:
                    return False
                ck = canon_key(r, g.node)
                used = names_in_load(ck) & _params_of(g)
                if (names_in_load(ck) & local_names(g.node)) or not used <= set(env):
                    return False
                if not _obtained(ix, h, _subst(ck, {p_: env[p_] for p_ in used}), field, busy, None, depth - 1):
                    return False
            return True
        return True
    return False


def _own_path(k: ast.AST, path: tuple[str, ...]) -> "ast.AST | None":
    """O when k reads `O.<path>`"""
    for attr in reversed(path):
        if not (isinstance(k, ast.Attribute) and k.attr == attr):
            return None
        k = k.value
    return k


def _reregistration(ix: Any, h: FuncInfo, reg: str, key: ast.expr, value: "ast.expr | None") -> bool:
    """the key is read from the stored object itself (`V.class_info.name` for the stored V, the key possibly held in a local first,
    V possibly a copy of the object the key is read from that leaves its class alone) and V is an object h obtained"""
    if value is None:
        return False
    path = OWN_KEY[reg]
    obj = _own_path(key, path) or _own_path(simplify_fields(key, h.node), path) or _own_path(_inline_locals(key, h.node), path)
    if obj is None:
        return False
    a, b = _origin(obj, h.node, path[0]), _origin(value, h.node, path[0])
    return norm(a) == norm(b) and _obtained(ix, h, value, path[0])


# ---- who calls a function ------------------------------------------------------------------------------------------------------------
def _own_nodes(fn: ast.AST) -> Any:
    stack = list(ast.iter_child_nodes(fn))
    while stack:
        n = stack.pop()
        yield n
        if not isinstance(n, (ast.FunctionDef, ast.AsyncFunctionDef, ast.Lambda, ast.ClassDef)):
            stack.extend(ast.iter_child_nodes(n))


def _ann_classes(ix: Any, ann: "ast.AST | None", idx: "int | None" = None) -> set[str]:
    """short names of the repository's classes an annotation mentions (the idx-th element of a tuple[...] when given)"""
    if ann is None:
        return set()
    if isinstance(ann, ast.Constant) and isinstance(ann.value, str):
        try:
            ann = ast.parse(ann.value, mode="eval").body
        except SyntaxError:
            return set()
    if idx is not None and isinstance(ann, ast.Subscript) and norm(ann.value).rsplit(".", 1)[-1] in ("tuple", "Tuple") and \
            isinstance(ann.slice, ast.Tuple) and idx < len(ann.slice.elts):
        ann = ann.slice.elts[idx]
    known = {c.name for c in ix.classes.values()}
    out: set[str] = set()
    for n in ast.walk(ann):
        if isinstance(n, ast.Name) and n.id in known:
            out.add(n.id)
        elif isinstance(n, ast.Attribute) and n.attr in known:
            out.add(n.attr)
        elif isinstance(n, ast.Constant) and isinstance(n.value, str) and n is not ann:
            out |= _ann_classes(ix, n)
    return out


def receiver_classes(ix: Any, h: FuncInfo, e: ast.AST, depth: int = 3, idx: "int | None" = None) -> set[str]:
    """the repository classes the value of e can be an instance of, from annotations only (parameters, annotated locals, return
    annotations of the functions whose result a local is bound to, declared fields); empty: not known"""
    if depth <= 0:
        return set()
    if isinstance(e, ast.Name):
        if e.id in ("self", "cls") and h.cls is not None:
            return {h.cls.name}
        out: set[str] = set()
        for x in h.params:
            if x.arg == e.id:
                out |= _ann_classes(ix, x.annotation)
        for n in _own_nodes(h.node):
            if isinstance(n, ast.AnnAssign) and isinstance(n.target, ast.Name) and n.target.id == e.id:
                out |= _ann_classes(ix, n.annotation)
        for k, _, v in _locals(h.node).defs.get(e.id, []):
            if k.startswith("assign") and v is not None:
                i = int(k[k.index("[") + 1:k.index("]")]) if "[" in k else None
                out |= receiver_classes(ix, h, v, depth - 1, i)
        return out
    if isinstance(e, ast.Call):
        last = call_name(e).rsplit(".", 1)[-1]
        if last in _COPY_WITH + _COPY_PLAIN and e.args:
            return receiver_classes(ix, h, e.args[0], depth - 1)
        if last == "cls" and h.cls is not None:
            return {h.cls.name}
        if any(c.name == last for c in ix.classes.values()):
            return {last}
        out = set()
        for g in ix.all_functions:
            if g.name == last:
                out |= _ann_classes(ix, g.node.returns, idx)
        return out
    if isinstance(e, ast.Attribute):
        out = set()
        for cn in receiver_classes(ix, h, e.value, depth - 1):
            for c in ix.classes.values():
                if c.name == cn:
                    out |= _ann_classes(ix, ix.all_fields(c).get(e.attr))
        return out
    if isinstance(e, ast.IfExp):
        return receiver_classes(ix, h, e.body, depth - 1) | receiver_classes(ix, h, e.orelse, depth - 1)
    return set()


def callers_of(ix: Any, g: FuncInfo, scope: "list[FuncInfo] | None" = None) -> list[tuple[FuncInfo, ast.Call]]:
    """(function, call) for the calls of g in the package: a module-level function by its plain or module-qualified name, a method
    through any receiver - told apart from a method of the same name in another class by the declared class of the receiver, when
    that is known (an unknown receiver counts as a call: the answer errs on the side of more call sites)"""
    if g.parent is not None:
        scope = [g.parent]
    out: list[tuple[FuncInfo, ast.Call]] = []
    rivals = [c for c in ix.classes.values() if g.cls is not None and c is not g.cls and g.name in c.methods]
    homonyms = [f for f in ix.all_functions if f.name == g.name and f is not g and f.cls is None and f.parent is None]
    for h in (scope if scope is not None else ix.all_functions):
        if h is g:
            continue
        for c in _own_nodes(h.node):
            if not isinstance(c, ast.Call):
                continue
            cn = call_name(c)
            if cn.rsplit(".", 1)[-1] != g.name:
                continue
            if isinstance(c.func, ast.Name):
                if g.cls is not None and g.parent is None:
                    continue  # a method is not called by its bare name
                r = ix.resolve(h.module, cn)
                if r is not None and r[0] == "func" and r[1] is not g and g.parent is None:
                    continue
                out.append((h, c))
            elif isinstance(c.func, ast.Attribute):
                if g.cls is None:
                    r = ix.resolve(h.module, cn)
                    if (r is not None and r[0] == "func" and r[1] is g) or (r is None and not homonyms and
                                                                            h.module.imports.get(cn.split(".", 1)[0]) is not None):
                        out.append((h, c))
                    continue
                known = receiver_classes(ix, h, c.func.value)
                head = dotted(c.func.value) or ""
                if head and any(k.name == head for k in ix.classes.values()):
                    known = {head}
                if rivals and known:
                    mine = {k.name for k in ix.classes.values() if g.cls in ix.mro(k)}
                    if not (known & mine):
                        continue
                out.append((h, c))
    return out


def _bind_full(g: FuncInfo, call: ast.Call) -> dict[str, ast.AST]:
    """_bind_call plus the receiver: `self` of a method is what the method is called on"""
    env = _bind_call(g, call)
    a = g.node.args
    pos = [x.arg for x in [*a.posonlyargs, *a.args]]
    if pos and pos[0] == "self" and g.kind in ("method", "property") and isinstance(call.func, ast.Attribute):
        env["self"] = call.func.value
    return env


def _root_name(e: ast.AST) -> "str | None":
    while isinstance(e, (ast.Attribute, ast.Subscript, ast.Call)):
        e = e.func if isinstance(e, ast.Call) else e.value
    return e.id if isinstance(e, ast.Name) else None


def _in_callers_terms(e: "ast.AST | None", h: FuncInfo, env: dict[str, ast.AST]) -> "ast.AST | None":
    """expression e of h as the caller reads it (parameters replaced by the actual arguments); None when it cannot be expressed
    there: it reads a local of h that is not just a name for something, or a parameter the call leaves to its default"""
    if e is None:
        return None
    ck = canon_key(e, h.node)
    used = names_in_load(ck) & _params_of(h)
    if (names_in_load(ck) & local_names(h.node)) or not used <= set(env):
        return None
    return _subst(ck, {p_: env[p_] for p_ in used})


def _lift(ix: Any, h: FuncInfo, at: ast.stmt, reg: str, key: ast.expr, value: "ast.expr | None", holders: set[str],
          scope: list[FuncInfo]) -> list[tuple[FuncInfo, ast.stmt, ast.expr, "ast.expr | None", set[str]]]:
    """The store of `key` at statement `at` of h, seen from the functions that call h: (caller, calling statement, key and stored value
    in the caller's terms, the caller's locals through which h reaches the registry).  Only when the key is computed from parameters
    of h (the caller decides what is stored) and every call site hands all of them over; otherwise nothing."""
    if h.parent is not None or not (names_in_load(canon_key(key, h.node)) & _params_of(h)):
        return []
    mine = (_holders(at, reg, _aliases(h.node)) | set(holders)) & _params_of(h)
    out = []
    for g, call in callers_of(ix, h, scope):
        env = _bind_full(h, call)
        st_g = _stmt_containing(g.node, call)
        key_g = _in_callers_terms(key, h, env)
        if key_g is None or st_g is None:
            return []
        hold = {r for p_ in mine if p_ in env for r in [_root_name(env[p_])] if r}
        out.append((g, st_g, key_g, _in_callers_terms(value, h, env), hold))
    return out


def _lookup(e: ast.AST, aliases: dict[str, str]) -> bool:
    """e reads one entry of an attribute registry: <...>.reg[K] / .get(K) / .pop(K)"""
    if isinstance(e, ast.Subscript):
        return bool(_reg_of(e.value, ATTR_REGISTRIES, aliases))
    if isinstance(e, ast.Call) and isinstance(e.func, ast.Attribute) and e.func.attr in ("get", "pop") and e.args:
        return bool(_reg_of(e.func.value, ATTR_REGISTRIES, aliases))
    return False


class _Compat:
    """The decision "may the class already registered under this name be reused", as function g takes part in it.

    The registered entry is found by role - an expression that reads one entry of a registry, or a local bound to one - and the
    decision is every test that asks for its type (isinstance).  It is evaluated over the paths, not over its text: with the entry
    present, whenever it is not of this enum kind or its values differ, only error returns / raises may be reachable from the lookup
    onwards (early return or nested if, either branch order, one combined test or several).  A private helper that answers the
    question for its caller (returns a truth value, or an error / None) is evaluated the same way and the call stands for what it
    returns: where the question is asked does not matter, only what follows from the answer."""

    def __init__(self, ix: Any, g: FuncInfo, cname: str, depth: int = 2) -> None:
        self.ix, self.g, self.cname, self.depth = ix, g, cname, depth
        self.fn = g.node
        self.aliases = _aliases(self.fn)
        self.lc = _locals(self.fn)
        self.existing = {name for name, ds in self.lc.defs.items()
                         if any(k == "assign" and v is not None and _lookup(v, self.aliases) for k, _, v in ds)}
        self.once = _single_assignments(self.fn)
        self.helpers = {h.name: h for h in region(ix, g, depth=1) if h is not g} if (ix is not None and depth > 0) else {}
        self._sub: dict[str, "_Compat"] = {}

    def is_existing(self, e: ast.AST) -> bool:
        return (isinstance(e, ast.Name) and e.id in self.existing) or _lookup(e, self.aliases)

    def kind_atom(self, e: ast.AST) -> "bool | None":
        """isinstance(<existing>, C): True when C is this enum class (or cls), False for another class, None when e is something else"""
        if isinstance(e, ast.Call) and call_name(e) == "isinstance" and len(e.args) == 2 and self.is_existing(e.args[0]):
            classes = {(dotted(x) or "").rsplit(".", 1)[-1] for x in (e.args[1].elts if isinstance(e.args[1], ast.Tuple) else [e.args[1]])}
            return classes <= {self.cname, "cls"}
        return None

    def about_entry(self, e: ast.AST) -> bool:
        """e asks something about the registered entry: its kind, or whether its values are the ones at hand"""
        if self.kind_atom(e) is not None:
            return True
        return isinstance(e, ast.Compare) and len(e.ops) == 1 and isinstance(e.ops[0], (ast.Eq, ast.NotEq)) and any(
            isinstance(x, ast.Attribute) and x.attr == "values" and self.is_existing(x.value) for x in (e.left, e.comparators[0]))

    def helper(self, e: ast.AST) -> "_Compat | None":
        """the private helper whose answer e is (a call, or a once-bound local holding the result of one), if it takes part in the decision"""
        hops = 0
        while isinstance(e, ast.Name) and e.id in self.once and hops < 3:
            e, hops = self.once[e.id], hops + 1
        h = self.helpers.get(call_name(e).rsplit(".", 1)[-1]) if isinstance(e, ast.Call) else None
        if h is None:
            return None
        if h.name not in self._sub:
            self._sub[h.name] = _Compat(self.ix, h, self.cname, self.depth - 1)
        sub = self._sub[h.name]
        return sub if sub.asks() else None

    def asks(self) -> bool:
        """g itself asks for the kind of the registered entry somewhere (in a test or in what it returns), or a helper of it does"""
        for n in _own_nodes(self.fn):
            if self.about_entry(n):
                return True
            if isinstance(n, ast.Call) and self.helper(n) is not None:
                return True
        return False

    def deciding(self) -> list[ast.If]:
        out = []
        for n in _own_nodes(self.fn):
            if isinstance(n, ast.If):
                t = _inline_locals(n.test, self.fn)
                if any(self.about_entry(x) or (isinstance(x, ast.Call) and self.helper(x) is not None) for x in ast.walk(t)):
                    out.append(n)
        return sorted(out, key=lambda n: n.lineno)

    def consumed(self) -> set[str]:
        """helpers whose answer feeds a decision of g"""
        return {call_name(x).rsplit(".", 1)[-1] for n in self.deciding() for x in ast.walk(_inline_locals(n.test, self.fn))
                if isinstance(x, ast.Call) and self.helper(x) is not None}

    # -- evaluation under one assumption: the entry is present, `own` = it is of this enum kind, `differ` = its values differ
    def results(self, own: bool, differ: bool) -> set[str]:
        """what g can return under the assumption: T / F (truth values), N (None), E (an error), ? (anything else)"""
        errs = error_names(self.fn)
        terms, falls = terminals(self.fn.body, lambda t: self.ev(t, own, differ))
        out = {"N"} if falls else set()
        for t in terms:
            if isinstance(t, ast.Raise):
                continue  # loud
            v = t.value
            if v is None or (isinstance(v, ast.Constant) and v.value is None):
                out.add("N")
            elif isinstance(v, ast.Constant) and isinstance(v.value, bool):
                out.add("T" if v.value else "F")
            elif returns_error(t, errs):
                out.add("E")
            else:
                b = self.ev(v, own, differ)
                out.add("?" if b is None else ("T" if b else "F"))
        return out

    def ev(self, t: ast.expr, own: bool, differ: bool, depth: int = 3) -> "bool | None":
        if isinstance(t, ast.UnaryOp) and isinstance(t.op, ast.Not):
            x = self.ev(t.operand, own, differ, depth)
            return None if x is None else not x
        if isinstance(t, ast.BoolOp):
            xs = [self.ev(x, own, differ, depth) for x in t.values]
            if isinstance(t.op, ast.And):
                return False if any(x is False for x in xs) else (True if all(x is True for x in xs) else None)
            return True if any(x is True for x in xs) else (False if all(x is False for x in xs) else None)
        k = self.kind_atom(t)
        if k is not None:
            return own if k else (None if not own else False)
        if isinstance(t, ast.Call) and call_name(t) == "isinstance" and len(t.args) == 2:
            sub = self.helper(t.args[0])
            classes = {(dotted(x) or "").rsplit(".", 1)[-1] for x in (t.args[1].elts if isinstance(t.args[1], ast.Tuple) else [t.args[1]])}
            if sub is not None and classes and classes <= ERROR_CLASS_NAMES:
                vals = sub.results(own, differ)
                return True if vals and vals <= {"E"} else (False if not (vals & {"E", "?"}) else None)
        if isinstance(t, ast.Compare) and len(t.ops) == 1:
            op, l, r = t.ops[0], t.left, t.comparators[0]
            if isinstance(op, (ast.Eq, ast.NotEq)) and any(isinstance(x, ast.Attribute) and x.attr == "values" and self.is_existing(x.value) for x in (l, r)):
                return differ == isinstance(op, ast.NotEq)
            # the entry is present: `existing is (not) None`, `K (not) in <registry>`
            if isinstance(op, (ast.Is, ast.IsNot)) and isinstance(r, ast.Constant) and r.value is None and self.is_existing(l):
                return isinstance(op, ast.IsNot)
            if isinstance(op, (ast.In, ast.NotIn)) and _reg_of(r, ATTR_REGISTRIES, self.aliases):
                return isinstance(op, ast.In)
            if isinstance(op, (ast.Is, ast.IsNot)) and isinstance(r, ast.Constant) and r.value is None:
                sub = self.helper(l)
                if sub is not None:
                    vals = sub.results(own, differ)
                    is_none = True if vals and vals <= {"N"} else (False if not (vals & {"N", "?"}) else None)
                    return None if is_none is None else (is_none == isinstance(op, ast.Is))
        if self.is_existing(t):
            return True
        sub = self.helper(t) if isinstance(t, (ast.Call, ast.Name)) else None
        if sub is not None:
            vals = sub.results(own, differ)
            return True if vals and vals <= {"T", "E"} else (False if vals and vals <= {"F", "N"} else None)
        if isinstance(t, ast.Name) and t.id in self.once and depth > 0:
            # the decision (or a part of it) kept in a local first
            return self.ev(self.once[t.id], own, differ, depth - 1)
        return None

    def verdict(self) -> list[tuple[bool, ast.AST, str]]:
        deciding = self.deciding()
        if not deciding:
            return []
        first = deciding[0]
        fn = self.fn
        # where the entry is looked up: the binding of the local, or the deciding statement itself when the lookup is written inline
        # or made by the helper that is asked
        lookups = [st for name in self.existing for k, st, v in self.lc.defs[name] if isinstance(st, ast.stmt)] or [first]
        cfg = CFG(fn)
        after: set[object] = set()
        for st in lookups:
            after |= cfg.reachable_from(st)
        ok = True
        for own, differ in ((False, False), (False, True), (True, True)):
            # locals that hold what a helper answered, when under this assumption the answer is an error
            errs = error_names(fn) | {name for name, v in self.once.items() if isinstance(v, ast.Call) and self.helper(v) is not None
                                      and self.helper(v).results(own, differ) <= {"E"}}
            terms, falls = terminals(fn.body, lambda t, own=own, differ=differ: self.ev(t, own, differ))
            for t in terms:
                if t in after and not (isinstance(t, ast.Raise) or returns_error(t, errs)):
                    ok = False
            if falls:
                ok = False
        return [(ok, first, "; ".join(norm(n.test) for n in deciding)[:200])]


ERROR_CLASS_NAMES = {"ParseError", "PropertyError", "ParameterError", "GeneratorError"}


def _existing_compatible(g: FuncInfo, cname: str, ix: Any = None) -> list[tuple[bool, ast.AST, str]]:
    """The decision "may the class already registered under this name be reused" in g, if g takes it: (verdict, where, test shown);
    see _Compat"""
    return _Compat(ix, g, cname).verdict()


# ---- conflict resolution of operation parameters ---------------------------------------------------------------------------------
def _helpers_of(ix: Any, f: FuncInfo) -> dict[str, FuncInfo]:
    return {h.name: h for h in region(ix, f) if h is not f}


def _adds_into(g: FuncInfo, st: ast.stmt, helpers: "dict[str, FuncInfo] | None" = None, depth: int = 1) -> set[str]:
    """names of g (locals or parameters) that statement st itself adds an element to: `N.add(..)` / `N.update(..)` / `N |= ..`, or a
    call to a private helper that does so with the parameter N is handed to"""
    out: set[str] = set()
    if isinstance(st, ast.AugAssign) and isinstance(st.op, ast.BitOr) and isinstance(st.target, ast.Name):
        out.add(st.target.id)
    for c in walk_own(st):
        if not isinstance(c, ast.Call):
            continue
        if isinstance(c.func, ast.Attribute) and c.func.attr in ("add", "update") and isinstance(c.func.value, ast.Name):
            out.add(c.func.value.id)
        h = (helpers or {}).get(call_name(c).rsplit(".", 1)[-1])
        if h is not None and depth > 0:
            # the helper adds into its parameter on every path through it (an addition made on some paths only records nothing)
            hcfg = CFG(h.node)
            for p_, a in _bind_call(h, c).items():
                if isinstance(a, ast.Name) and hcfg.every_path_passes(
                        "ENTRY", "EXIT", lambda n, p_=p_: isinstance(n, ast.stmt) and p_ in _adds_into(h, n, helpers, depth - 1)):
                    out.add(a.id)
    return out


def _names_behind(e: ast.AST, fn: ast.AST, depth: int = 3) -> set[str]:
    """the names e is computed from, through the locals it reads (transitively)"""
    lc = _locals(fn)
    seen: set[str] = set()
    frontier = names_in_load(e)
    for _ in range(depth + 1):
        nxt: set[str] = set()
        for n in frontier - seen:
            seen.add(n)
            for v in lc.values_of(n):
                nxt |= names_in_load(v)
        frontier = nxt
    return seen


def _own_rerun_sets(f: FuncInfo) -> set[str]:
    """names of f whose content decides whether f's work is done once more: handed to a recursive call of f, or - when the work is
    repeated by a `while` loop - bound inside that loop and read (directly or through locals computed from it) by a test of the loop"""
    out: set[str] = set()
    for c in ast.walk(f.node):
        if isinstance(c, ast.Call) and call_name(c).rsplit(".", 1)[-1] == f.name:
            out |= {a.id for a in [*c.args, *[k.value for k in c.keywords]] if isinstance(a, ast.Name)}
    for w in ast.walk(f.node):
        if not isinstance(w, ast.While):
            continue
        inside = [n for s in w.body for n in ast.walk(s)]
        bound = {n.id for n in inside if isinstance(n, ast.Name) and isinstance(n.ctx, ast.Store)}
        read: set[str] = set()
        for t in [w.test] + [n.test for n in inside if isinstance(n, (ast.If, ast.While))]:
            read |= _names_behind(t, f.node)
        out |= bound & read
    return out


def modification_sets(f: FuncInfo, ix: Any = None) -> set[str]:
    """the sets in which f records that it changed something and that decide whether another pass runs: names of f that elements are
    added to and that are re-run sets of f itself, or parameters of f that receive a re-run set of the function calling f (the pass
    was extracted from its driver)"""
    adds: set[str] = set()
    helpers = _helpers_of(ix, f) if ix is not None else {}
    for st in ast.walk(f.node):
        if isinstance(st, ast.stmt):
            adds |= _adds_into(f, st, helpers)
    out = adds & _own_rerun_sets(f)
    if ix is not None and f.name.startswith("_"):
        for d in ix.all_functions:
            if d is f or d.module is not f.module or (f.cls is not None and d.cls is not f.cls):
                continue
            calls = [c for c in ast.walk(d.node) if isinstance(c, ast.Call) and call_name(c).rsplit(".", 1)[-1] == f.name]
            if not calls:
                continue
            drv = _own_rerun_sets(d)
            for c in calls:
                out |= {p_ for p_, a in _bind_call(f, c).items() if p_ in adds and isinstance(a, ast.Name) and a.id in drv}
    return out


def _string_table(v: ast.AST | None) -> "list[str] | None":
    if isinstance(v, ast.Call) and call_name(v) in ("frozenset", "set", "tuple", "list") and len(v.args) == 1:
        v = v.args[0]
    if isinstance(v, (ast.List, ast.Tuple, ast.Set)) and v.elts and all(isinstance(e, ast.Constant) and isinstance(e.value, str) for e in v.elts):
        return [e.value for e in v.elts]
    return None


def reserved_lists(f: FuncInfo) -> dict[str, list[str]]:
    """locals bound to a literal list / tuple / set of strings (reserved identifier tables)"""
    out = {}
    for name, ds in Locals(f.node).defs.items():
        for k, _, v in ds:
            tbl = _string_table(v) if k == "assign" else None
            if tbl is not None:
                out[name] = tbl
    return out


def _reserved_table(g: FuncInfo, e: ast.AST) -> "list[str] | None":
    """the strings of the table expression e of g: written in place, a local of g, a module-level constant or a class constant"""
    tbl = _string_table(e)
    if tbl is not None:
        return tbl
    if isinstance(e, ast.Name):
        if e.id in reserved_lists(g):
            return reserved_lists(g)[e.id]
        return _string_table(g.module.variables.get(e.id))
    if isinstance(e, ast.Attribute) and isinstance(e.value, ast.Name) and g.cls is not None and e.value.id in ("self", "cls", g.cls.name):
        return _string_table(g.cls.classvars.get(e.attr))
    return None


def _reserved_tests(g: FuncInfo, node: ast.AST) -> list[tuple[ast.Compare, list[str]]]:
    """comparisons `<x>.python_name in <table of strings>` inside node"""
    out = []
    for x in ast.walk(node):
        if isinstance(x, ast.Compare) and len(x.ops) == 1 and isinstance(x.ops[0], (ast.In, ast.NotIn)) and \
                isinstance(x.left, ast.Attribute) and x.left.attr == "python_name":
            tbl = _reserved_table(g, x.comparators[0])
            if tbl is not None:
                out.append((x, tbl))
    return out


def _derived_from(loop: ast.For) -> set[str]:
    """the loop variable(s) and every name bound, inside the body, from something that reads one of them"""
    dep = {n.id for n in ast.walk(loop.target) if isinstance(n, ast.Name)}
    changed = True
    while changed:
        changed = False
        for b in loop.body:
            for n in ast.walk(b):
                tgts: list[ast.AST] = []
                if isinstance(n, ast.Assign):
                    tgts, v = list(n.targets), n.value
                elif isinstance(n, (ast.AnnAssign, ast.NamedExpr)) and n.value is not None:
                    tgts, v = [n.target], n.value
                else:
                    continue
                if names_in_load(v) & dep:
                    new = {x.id for t in tgts for x in ast.walk(t) if isinstance(x, ast.Name)} - dep
                    if new:
                        dep |= new
                        changed = True
    return dep


def parameter_passes(ix: Any, f: FuncInfo) -> list[tuple[FuncInfo, ast.For]]:
    """the loops that examine the python_name of each parameter of an operation, in f or in the private helpers f delegates to:
    (function, loop).  A pass is recognised by what it does with its items - it reads the `python_name` of (something taken from)
    its loop variable: to test it against the reserved names, to look it up among the names seen so far, to rename - not by any one
    of these tests being present."""
    out = []
    for g in region(ix, f):
        loops = []
        for n in ast.walk(g.node):
            if not isinstance(n, ast.For):
                continue
            dep = _derived_from(n)
            if any(isinstance(x, ast.Attribute) and x.attr == "python_name" and isinstance(x.value, ast.Name) and x.value.id in dep
                   for s_ in n.body for x in ast.walk(s_)):
                loops.append(n)
        # the outermost such loop of g is the pass
        for lp in loops:
            if not any(o is not lp and any(x is lp for x in ast.walk(o)) for o in loops):
                out.append((g, lp))
    return out


def endpoint_reserved_names(ix: Any) -> set[str]:
    """the parameter names an operation reserves for itself: the strings every parameter's python_name is tested against in the
    parameter pass of Endpoint._check_parameters_for_conflicts, wherever that pass lives (the method or a helper it delegates to)"""
    f = ix.cls("Endpoint").methods.get("_check_parameters_for_conflicts")
    out: set[str] = set()
    if f is None:
        return out
    for g, lp in parameter_passes(ix, f):
        for s_ in lp.body:
            for _, tbl in _reserved_tests(g, s_):
                out |= set(tbl)
    return out


def _true_at_entry(cfg: CFG, fn: ast.AST, w: ast.While) -> bool:
    """the test of `while` loop w holds when the loop is first reached (its body runs at least once): a constant, or built with
    not / and / or from locals whose only binding outside the loop is a constant assigned on every path to the loop"""
    inside = {id(n) for b in w.body for n in ast.walk(b)}
    dom = cfg.dominators().get(w, set())
    lc = _locals(fn)

    def val(e: ast.expr) -> "bool | None":
        if isinstance(e, ast.Constant):
            return bool(e.value)
        if isinstance(e, ast.Name):
            outer = [(st, v) for k, st, v in lc.defs.get(e.id, []) if id(st) not in inside]
            if len(outer) == 1 and isinstance(outer[0][1], ast.Constant) and outer[0][0] in dom:
                return bool(outer[0][1].value)
            return None
        if isinstance(e, ast.UnaryOp) and isinstance(e.op, ast.Not):
            x = val(e.operand)
            return None if x is None else not x
        if isinstance(e, ast.BoolOp):
            xs = [val(x) for x in e.values]
            if isinstance(e.op, ast.And):
                return True if all(x is True for x in xs) else (False if any(x is False for x in xs) else None)
            return True if any(x is True for x in xs) else (False if all(x is False for x in xs) else None)
        return None

    return val(w.test) is True


def _passes_before(cfg: CFG, fn: ast.AST, node: object, is_pass: Any) -> bool:
    """every path from the entry of fn to `node` visits a statement satisfying is_pass.  Dominance on the statement graph, except that a
    `while` loop whose test holds when it is first reached cannot be skipped: leaving it from its head is only possible after a trip
    through its body (do-while written with `while True` / a flag)."""
    forced = {id(w): {id(n) for b in w.body for n in ast.walk(b)} for w in ast.walk(fn) if isinstance(w, ast.While) and _true_at_entry(cfg, fn, w)}
    start = ("ENTRY", frozenset())
    seen = {start}
    stack = [start]
    while stack:
        n, been = stack.pop()
        if n is node:
            return False
        for s_ in cfg.succ.get(n, ()):
            if s_ is not node and is_pass(s_):
                continue
            b2 = been
            if id(n) in forced and id(n) not in been:
                if id(s_) not in forced[id(n)]:
                    continue  # first time at the head: only into the body
            # arriving at a forced loop's head from inside its body: from now on the head may be left
            if id(s_) in forced and id(n) in forced[id(s_)]:
                b2 = been | {id(s_)}
            st_ = (s_, b2)
            if st_ not in seen:
                seen.add(st_)
                stack.append(st_)
    return True


def check_param_conflicts(rep: Report, ctx: Any, rid: str, cfgs: "dict[str, CFG] | None" = None) -> None:
    """conflict resolution of operation parameters ends in a re-check; reserved names are examined for every parameter.  The check is
    a pass over all parameters plus something that repeats the pass while it changed anything; pass and repetition may be one
    function (the pass calls itself again) or two (a driver loop around an extracted pass): every fact is stated over the region."""
    ix = ctx.py
    cfgs = cfgs if cfgs is not None else {}
    ep = ix.cls("Endpoint")
    f = ep.methods.get("_check_parameters_for_conflicts")
    rep.require(f, "Endpoint._check_parameters_for_conflicts")
    passes = parameter_passes(ix, f)
    rep.require(passes, "the loop of _check_parameters_for_conflicts (or of a helper of it) that examines the python_name of each parameter")
    g, loop = passes[0]
    reg = region(ix, f)
    renames = [(h, s) for h in reg for s in cfg_of(h, cfgs).stmts() if stmt_calls(s, "set_python_name")]
    rep.floor("parameter_renames", len(renames), 2)
    mods = modification_sets(g, ix)
    rep.require(mods, "the set in which the parameter pass records its renames and which decides the re-run")
    helpers = _helpers_of(ix, g)
    cfg_g = cfg_of(g, cfgs)

    def records_in(h: FuncInfo, hmods: set[str]) -> Any:
        hh = _helpers_of(ix, h)
        return lambda n: isinstance(n, ast.stmt) and bool(_adds_into(h, n, hh) & hmods)

    for h, s in renames:
        # every path from the rename to the next parameter records the modification (which forces another pass)
        if h is g:
            ok = bool(_adds_into(g, s, helpers) & mods) or cfg_g.every_path_passes(s, loop, records_in(g, mods))
        else:
            # renamed inside a helper of the pass: recorded before the helper returns, or after each call of it in the pass
            hm = modification_sets(h, ix) if h is not f else set()
            ok = bool(hm) and cfg_of(h, cfgs).every_path_passes(s, "EXIT", records_in(h, hm))
            if not ok:
                sites = [c for c in cfg_g.stmts() if stmt_calls(c, h.name)]
                ok = bool(sites) and all(bool(_adds_into(g, c, helpers) & mods) or cfg_g.every_path_passes(c, loop, records_in(g, mods))
                                         for c in sites)
        rep.check(ok, rid, f"{short(h)}::rename->{anon(s, local_names(h.node))[:60]}",
                  "a parameter is renamed but the change is not recorded in modified_params on every path: no re-check runs",
                  where(h, s), lhs=norm(s)[:80], rhs="followed by <modified set>.add on every path to the next iteration")
    # the pass is repeated: it calls the check again, or the check drives it from a loop whose continuation reads the recorded set
    recursive = [s for h in reg for s in cfg_of(h, cfgs).stmts() if stmt_calls(s, f.name)]
    driven = g is not f and any(isinstance(w, ast.While) and any(stmt_calls(s, g.name) for b in w.body for s in ast.walk(b) if isinstance(s, ast.stmt))
                                for w in ast.walk(f.node)) and bool(_own_rerun_sets(f))
    looped = g is f and any(isinstance(w, ast.While) and any(x is loop for b in w.body for x in ast.walk(b)) for w in ast.walk(f.node)) \
        and bool(_own_rerun_sets(f))
    rep.check(bool(recursive) or driven or looped, rid, f"{short(f)}::re-run", "the conflict check no longer re-runs itself after modifications",
              where(f, f.node), lhs="recursive call / driver loop", rhs="present")
    # no success without the pass: in the function holding the loop every return that is not an error comes after the loop; in the
    # check itself (when the pass was extracted) every such return comes after the call of the pass
    scopes: list[tuple[FuncInfo, Any]] = [(g, lambda n: n is loop)]
    if g is not f:
        scopes.append((f, lambda n: isinstance(n, ast.stmt) and bool(stmt_calls(n, g.name))))
    for h, is_pass in scopes:
        cfg_h = cfg_of(h, cfgs)
        herrs = error_names(h.node)
        for s in cfg_h.stmts():
            if isinstance(s, ast.Return) and not returns_error(s, herrs):
                ok = _passes_before(cfg_h, h.node, s, is_pass)
                rep.check(ok, rid, f"{short(h)}::success-return", "a success return is reachable without visiting the parameters "
                                                                   "(reserved names / collisions unchecked)", where(h, s),
                          lhs=norm(s)[:60], rhs="dominated by the loop over all parameters")
    # reserved names cover the keyword parameters the endpoint functions themselves declare is checked by C18 (R18.2)

    # naming conflict of model attributes: the raw-name fallback is followed by an equality re-check
    g2 = ix.func("model_property._resolve_naming_conflict")
    cfg2 = cfg_of(g2, cfgs)
    sets = [s for s in cfg2.stmts() if stmt_calls(s, "set_python_name")]

    def names_equal(t: ast.expr) -> "bool | None":
        """value of test atom t when the two python names are (still) equal; None for any other test"""
        if isinstance(t, ast.Name) and t.id in _single_assignments(g2.node):
            t = _single_assignments(g2.node)[t.id]
        if isinstance(t, ast.Compare) and len(t.ops) == 1 and isinstance(t.ops[0], (ast.Eq, ast.NotEq)) and \
                all(isinstance(y, ast.Attribute) and y.attr == "python_name" for y in (t.left, t.comparators[0])):
            return isinstance(t.ops[0], ast.Eq)
        return None

    # after the raw-name fallback the two names are compared again, and while they are equal nothing but an error comes out:
    # evaluated over the paths (early return or nested, == or != with swapped branches, the comparison kept in a local first)
    after: set[object] = set()
    for s in sets:
        after |= cfg2.reachable_from(s)
    terms, falls = terminals(g2.node.body, names_equal)
    compared = any(names_equal(x) is not None for st in after if isinstance(st, ast.If) for x in ast.walk(st.test))
    ok = bool(sets) and compared and not falls and all(isinstance(t, ast.Raise) or returns_error(t, error_names(g2.node)) for t in terms if t in after)
    rep.check(ok, rid, f"{short(g2)}::re-check", "raw-name fallback is not followed by an equality test that returns an error",
              where(g2, g2.node), lhs="set_python_name(..., skip_snake_case=True) x2", rhs="then `if first.python_name == second.python_name: return PropertyError`")


_LOCALS_CACHE: dict[int, tuple[ast.AST, Locals]] = {}


def _locals(fn: ast.AST) -> Locals:
    if id(fn) not in _LOCALS_CACHE:
        _LOCALS_CACHE[id(fn)] = (fn, Locals(fn))
    return _LOCALS_CACHE[id(fn)][1]


def _atoms(e: ast.expr) -> list[str]:
    from ..astutil import bool_atoms

    return bool_atoms(e)


def _single_assignments(fn: ast.AST) -> dict[str, ast.AST]:
    """locals of fn bound exactly once, by a plain assignment: reading them is reading their definition"""
    out = {}
    a = getattr(fn, "args", None)
    params = {x.arg for x in [*a.posonlyargs, *a.args, *a.kwonlyargs, *([a.vararg] if a.vararg else []), *([a.kwarg] if a.kwarg else [])]} \
        if isinstance(a, ast.arguments) else set()
    for name, ds in _locals(fn).defs.items():
        # a parameter that is assigned once has two bindings
        if len(ds) == 1 and ds[0][0] == "assign" and ds[0][2] is not None and name not in params:
            out[name] = ds[0][2]
    return out


class _Subst(ast.NodeTransformer):
    def __init__(self, env: dict[str, ast.AST]) -> None:
        self.env = env

    def visit_Name(self, n: ast.Name) -> ast.AST:
        import copy

        if isinstance(n.ctx, ast.Load) and n.id in self.env:
            return copy.deepcopy(self.env[n.id])
        return n


def _subst(e: ast.AST, env: dict[str, ast.AST], rounds: int = 1) -> ast.AST:
    import copy

    out = copy.deepcopy(e)
    for _ in range(rounds):
        if not (names_in_load(out) & set(env)):
            break
        out = ast.fix_missing_locations(_Subst(env).visit(out))
    return out


def names_in_load(e: ast.AST) -> set[str]:
    return {n.id for n in ast.walk(e) if isinstance(n, ast.Name) and isinstance(n.ctx, ast.Load)}


def _inline_locals(e: ast.AST, fn: ast.AST, keep: "set[str] | None" = None) -> ast.AST:
    """e with every once-assigned local of fn (except `keep`) replaced by what it is bound to (three levels): the expression in
    terms of parameters, loop variables and attributes, however many intermediate locals the author introduced"""
    env = _single_assignments(fn)
    if keep:
        env = {k: v for k, v in env.items() if k not in keep}
    return _subst(e, env, rounds=3)


def _innermost_for(fn: ast.AST, node: ast.AST) -> ast.For | None:
    best = None
    for lp in ast.walk(fn):
        if isinstance(lp, (ast.For, ast.AsyncFor)) and any(x is node for s in lp.body for x in ast.walk(s)):
            best = lp  # breadth-first walk: deeper loops come later
    return best


def _bind_call(g: FuncInfo, call: ast.Call) -> dict[str, ast.AST]:
    """parameter name of g -> actual argument expression at `call`"""
    a = g.node.args
    pos = [x.arg for x in [*a.posonlyargs, *a.args]]
    if pos and pos[0] in ("self", "cls") and g.kind in ("method", "classmethod", "property"):
        pos = pos[1:]
    env: dict[str, ast.AST] = {}
    for p_, v in zip(pos, call.args):
        if not isinstance(v, ast.Starred):
            env[p_] = v
    for k in call.keywords:
        if k.arg is not None:
            env[k.arg] = k.value
    return env


def _path_constructions(fn: ast.AST) -> list[tuple[ast.BinOp, ast.expr]]:
    """`<dir> / f"...{NAME}..."` expressions of fn: (the path expression, NAME)"""
    out = []
    for n in ast.walk(fn):
        if isinstance(n, ast.BinOp) and isinstance(n.op, ast.Div) and isinstance(n.right, ast.JoinedStr):
            fv = [v.value for v in n.right.values if isinstance(v, ast.FormattedValue)]
            if fv:
                out.append((n, fv[0]))
    return out


def _stmt_containing(fn: ast.AST, node: ast.AST) -> ast.stmt | None:
    best = None
    for st in ast.walk(fn):
        if isinstance(st, ast.stmt) and any(x is node for x in walk_own(st)):
            best = st
    return best


def _diagnosing_guard(f: FuncInfo, scope: list[ast.stmt], name_txt: str, avoid: set[int], cfgs: dict[str, CFG]) -> bool:
    """some membership test on the derived name inside `scope` from which a diagnostic (raise / error record / error return) is
    reachable without passing the write: a test that merely selects between two silent behaviours protects nothing"""
    cfg = cfg_of(f, cfgs)
    errs = error_names(f.node)
    for s in scope:
        for st in ast.walk(s):
            if not isinstance(st, ast.stmt):
                continue
            for c in walk_own(st):
                if isinstance(c, ast.Compare) and len(c.ops) == 1 and isinstance(c.ops[0], (ast.In, ast.NotIn)) and \
                        name_txt in norm(_inline_locals(c.left, f.node)):
                    reach = cfg.reachable_from(st, avoid=lambda n: id(n) in avoid)
                    if any(isinstance(n, ast.stmt) and diagnoses(n, errs) for n in reach):
                        return True
    return False


def _yields_error(st: ast.stmt, errs: set[str]) -> bool:
    """the statement yields an error value: a generator hands it to whoever iterates it, as `return` hands it to the caller"""
    from ..astutil import constructs_error

    if isinstance(st, (ast.FunctionDef, ast.AsyncFunctionDef, ast.ClassDef)):
        return False
    for y in walk_own(st):
        if isinstance(y, (ast.Yield, ast.YieldFrom)) and y.value is not None:
            v = y.value
            cands = [v] + (list(v.elts) if isinstance(v, ast.Tuple) else [])
            if constructs_error(v) or any(isinstance(c, ast.Name) and c.id in errs for c in cands):
                return True
    return False


def diagnoses(st: ast.stmt, errs: set[str]) -> bool:
    """the statement makes a diagnostic: it raises, returns an error, yields one (generator), or records one in a list"""
    return isinstance(st, ast.Raise) or returns_error(st, errs) or _yields_error(st, errs) or _records_error(st, errs)


def _records_error(st: ast.stmt, errs: set[str]) -> bool:
    from ..astutil import constructs_error

    for c in walk_own(st):
        if isinstance(c, ast.Call) and isinstance(c.func, ast.Attribute) and c.func.attr in ("append", "extend") and c.args:
            a0 = c.args[0]
            if constructs_error(a0) or (isinstance(a0, ast.Name) and a0.id in errs):
                return True
    return False


def check_module_files(rep: Report, ctx: Any, rid: str) -> None:
    """per-item module files written by Project: two items mapping to one path overwrite each other silently unless a membership
    test on the derived name that leads to a diagnostic guards the write.  A site is a path expression `<dir> / f"{NAME}.py"`
    evaluated once per iteration of a loop - in the loop body itself or in a helper the loop body calls, in which case NAME is
    read in the caller's terms (actual arguments substituted for the helper's parameters)."""
    ix = ctx.py
    proj = ix.cls("Project")
    cfgs: dict[str, CFG] = {}
    methods = list(proj.methods.values())

    def call_sites(g: FuncInfo) -> list[tuple[FuncInfo, ast.Call]]:
        out = []
        for h in methods:
            if h is g:
                continue
            for c in ast.walk(h.node):
                if isinstance(c, ast.Call) and call_name(c) in (f"self.{g.name}", f"cls.{g.name}", f"{proj.name}.{g.name}"):
                    out.append((h, c))
        return out

    # (function holding the loop, loop, NAME in that function's terms, node evaluated per iteration, statements to look for a guard in,
    #  ids of the statements that perform / lead to the write)
    sites: list[tuple[FuncInfo, ast.For, ast.AST, ast.AST, list[tuple[FuncInfo, list[ast.stmt], set[int]]]]] = []

    def lift(g: FuncInfo, node: ast.AST, name: ast.AST, guards: list[tuple[FuncInfo, list[ast.stmt], set[int]]], depth: int) -> None:
        name = _inline_locals(name, g.node)
        loop = _innermost_for(g.node, node)
        st = _stmt_containing(g.node, node)
        users = {id(st)} if st is not None else set()
        if isinstance(st, ast.Assign):
            bound = {t.id for t in st.targets if isinstance(t, ast.Name)}
            users |= {id(s) for s in ast.walk(g.node) if isinstance(s, ast.stmt) and s is not st and
                      any(isinstance(x, ast.Name) and x.id in bound and isinstance(x.ctx, ast.Load) for x in walk_own(s))}
        if loop is not None:
            sites.append((g, loop, name, node, guards + [(g, list(loop.body), users)]))
            return
        params = {a.arg for a in [*g.node.args.posonlyargs, *g.node.args.args, *g.node.args.kwonlyargs]} - {"self", "cls"}
        if depth <= 0 or not (names_in_load(name) & params):
            return  # evaluated once per run (a fixed file) or not traceable: not a per-item file
        for h, call in call_sites(g):
            lift(h, call, _subst(name, _bind_call(g, call)), guards + [(g, list(g.node.body), users)], depth - 1)

    for g in methods:
        for node, name in _path_constructions(g.node):
            lift(g, node, name, [], 2)

    def constants(e: ast.AST, g: FuncInfo, depth: int = 3) -> "list[Any] | None":
        """the values of e when it is a display of constants: written in place, or a local / module-level / class-level name for one"""
        if isinstance(e, (ast.Tuple, ast.List, ast.Set)):
            return [x.value for x in e.elts] if e.elts and all(isinstance(x, ast.Constant) for x in e.elts) else None
        if isinstance(e, ast.Call) and call_name(e) in ("tuple", "list", "sorted", "frozenset", "set") and len(e.args) == 1 and not e.keywords:
            return constants(e.args[0], g, depth)
        if depth <= 0:
            return None
        if isinstance(e, ast.Name):
            once = _single_assignments(g.node)
            if e.id in once:
                return constants(once[e.id], g, depth - 1)
            if e.id not in local_names(g.node) and e.id not in _params_of(g) and e.id in g.module.variables:
                return constants(g.module.variables[e.id], g, depth - 1)
        if isinstance(e, ast.Attribute) and isinstance(e.value, ast.Name) and e.value.id in ("self", "cls", proj.name):
            cv = ix.find_classvar(proj, e.attr)
            return constants(cv[1], g, depth - 1) if cv is not None else None
        return None

    def in_terms_of(g: FuncInfo, name: ast.AST, it: ast.AST, lnames: set[str], depth: int = 3) -> tuple[FuncInfo, ast.AST, ast.AST, set[str]]:
        """the site (files named NAME, one per element of IT) read in the terms of the method that determines it: while NAME or IT
        are computed from parameters of g (other than self) and g is called from one place, they are what that caller hands over.
        The method that holds the loop is incidental (the loop may be moved into a helper and back)."""
        params = _params_of(g) - {"self", "cls"}
        lnames = lnames | local_names(g.node)
        behind = _names_behind(name, g.node) | _names_behind(it, g.node)
        cs = call_sites(g)
        if depth <= 0 or not (behind & params) or len(cs) != 1:
            return g, name, it, lnames
        h, call = cs[0]
        env = {p_: a for p_, a in _bind_call(g, call).items() if p_ in params}
        return in_terms_of(h, _subst(name, env), _subst(it, env), lnames, depth - 1)

    n = 0
    seen: set[tuple[int, str]] = set()
    for f, loop, name, node, guards in sites:
        kf, kname, kiter, lnames = in_terms_of(f, name, loop.iter, set())
        key = f"{short(kf)}::file[{anon(kname, lnames)}]@{anon(kiter, lnames)}"
        if (id(loop), key) in seen:
            continue
        seen.add((id(loop), key))
        fixed = constants(loop.iter, f)
        if fixed is not None:
            # the loop goes through names written in the program, not through items of the document: what could meet in one file is
            # decided by the program text alone
            rep.ok(rid, key, "fixed names", "the file names come from a list of constants in the program, not from the document", nontrivial=False)
            continue
        n += 1
        guarded = False
        for g, scope, users in guards:
            # the name as the guard's function spells it: in the loop's function the lifted expression, in a helper its own
            for _, nm in ([(None, name)] if g is f else _path_constructions(g.node)):
                if _diagnosing_guard(g, scope, norm(_inline_locals(nm, g.node)), users, cfgs):
                    guarded = True
        rep.check(guarded, rid, key, "one file per item, named from the sanitised name, written without any collision test that "
                                     "leads to a diagnostic: two items with the same derived name overwrite each other",
                  where(f, node), lhs=norm(node)[:90], rhs="guarded by a membership test on the derived name that reaches a diagnostic")
    rep.floor("per_item_module_files", n, 2)


def check_enum_name_identifies_values(rep: Report, ctx: Any, rid: str) -> int:
    """The compatibility condition of the enum builders on its own (the same obligations, with the same construct keys, as the last part
    of check_registries): under one class name only one list of values is ever registered - an entry of another kind or with other values
    under the name of the enum that is being built is a diagnostic.  For properties that claim it separately (C15: the class that is
    generated for a narrowed enum is found by its name).  Returns the number of decisions that were judged."""
    ix = ctx.py
    n = 0
    for cname in ("EnumProperty", "LiteralEnumProperty"):
        c = ix.cls(cname)
        b = c.methods.get("build")
        rep.require(b, f"{cname}.build")
        reg_b = region(ix, b)
        answering = {name for g in reg_b for name in _Compat(ix, g, cname).consumed()}
        found = False
        for g in reg_b:
            if g.name in answering:
                continue
            for verdict, at, shown in _existing_compatible(g, cname, ix):
                found = True
                n += 1
                rep.check(verdict, rid, f"{short(g)}::existing-compatible",
                          "an existing class of another kind or with other values under the same name must be diagnosed",
                          where(g, at), lhs=shown, rhs="only error returns are reachable whenever existing is not this enum kind or values differ")
        rep.require(found, f"{cname}.build compatibility test")
    return n


def check_enum_class_shared(rep: Report, ctx: Any, rid: str) -> None:
    """the same condition under the name C02 claims it by (a class shared by name holds the values of every declaration that names it)"""
    check_enum_name_identifies_values(rep, ctx, rid)
