"""Shared rule (C13 R13.9 = C15 R15.9): the fields that decide how a default is converted, and copies that change them.

`convert_value` of a property kind that is an instance method reads fields of the property (an enum: its class, its table of values,
its value type; a const: its value).  Those fields are the *determinants* of the kind's default: the stored default - a `Value` whose
python_code names the class and a member - was computed from them.  A copy of a property object that replaces a determinant
(`evolve(p, values=..., class_info=...)`) while keeping the stored default keeps a default computed for another class / another table:
`e: Union[Unset, ChildEnum] = ParentEnum.A` (a NameError when the models package is imported) or a default the narrowed kind would have
rejected.  The rule: such a copy gives `default` anew in the same call (None, to be converted again by what follows, or a converted
value) - never leaves it out, never hands the copied object's own default back.

Determinants are read from the source: attributes of `self` that convert_value reads outside the construction of an error value (a
name quoted in a diagnostic decides nothing).  Copies are the calls of attrs' `evolve` / dataclasses' `replace` whose first argument
can be a property of a kind that has determinants (abstract types of the argument where the interpreter has them, every kind
otherwise)."""
from __future__ import annotations

import ast
from typing import Any

from ..astutil import ERROR_CLASSES, ERROR_ONLY_HELPERS, call_name, norm, role_anon, short, where
from ..core import Report

_COPIERS = ("evolve", "replace")


def determinants(ix: Any) -> dict[str, set[str]]:
    out: dict[str, set[str]] = {}
    for c in ix.property_classes():
        m = ix.find_method(c, "convert_value")
        if m is None or m.kind != "method" or not m.params:
            continue
        me = m.params[0].arg
        in_error: set[int] = set()
        for n in ast.walk(m.node):
            if isinstance(n, ast.Call) and call_name(n).rsplit(".", 1)[-1] in (ERROR_CLASSES | set(ERROR_ONLY_HELPERS)):
                in_error |= {id(x) for x in ast.walk(n)}
        methods = {k for cls in ix.mro(c) for k in cls.methods}
        fields = {n.attr for n in ast.walk(m.node)
                  if isinstance(n, ast.Attribute) and isinstance(n.ctx, ast.Load) and isinstance(n.value, ast.Name) and n.value.id == me
                  and id(n) not in in_error and n.attr not in methods}
        fields.discard("default")
        if fields:
            out[c.name] = fields
    return out


def check(rep: Report, ctx: Any, rule: str) -> int:
    ix = ctx.py
    it, _ji = ctx.flow
    det = determinants(ix)
    rep.indexed["default_determinants"] = {k: sorted(v) for k, v in sorted(det.items())}
    n = 0
    for f in ix.all_functions:
        for c in ast.walk(f.node):
            if not isinstance(c, ast.Call) or call_name(c).rsplit(".", 1)[-1] not in _COPIERS or not c.args:
                continue
            kws = {k.arg: k.value for k in c.keywords if k.arg}
            av = it.node_av.get(id(c.args[0]))
            types = {t for t in (av.types if av is not None else ()) if t in ix.classes}
            kinds = [k for k in det if not types or k in types or any(k in {b.name for b in ix.mro(ix.classes[t])} for t in types if t in ix.classes)]
            hit = sorted({d for k in kinds for d in det[k] if d in kws})
            if not hit:
                continue
            n += 1
            src = norm(c.args[0])
            given = kws.get("default")
            same = given is not None and isinstance(given, ast.Attribute) and given.attr == "default" and norm(given.value) == src
            key = f"{short(f)}::{call_name(c).rsplit('.', 1)[-1]}({role_anon(c.args[0], f.node)}; {','.join(hit)})::default-given-anew"
            rep.check(given is not None and not same, rule, key,
                      f"a copy of a property replaces {hit} - which its convert_value reads to convert a default - and keeps the default that "
                      "was converted for the old ones: the python code of the default names another class / a value outside the new table",
                      where(f, c), lhs=f"keywords {sorted(kws)}", rhs="default= given anew (None and converted again, or a converted value)")
    return n


def control(rep: Report, rule: str) -> None:
    """positive control: a synthetic kind and a copy that narrows its table without touching the default"""
    src = ("class K:\n    def convert_value(self, value):\n        if value in self.table:\n            return Value(self.cls_name + str(value))\n"
           "        return PropertyError(detail=self.name)\n\ndef narrow(p, t):\n    return evolve(p, table=t)\n")
    tree = ast.parse(src)
    m = tree.body[0].body[0]  # type: ignore[attr-defined]
    in_error: set[int] = set()
    for n in ast.walk(m):
        if isinstance(n, ast.Call) and call_name(n).rsplit(".", 1)[-1] in ERROR_CLASSES:
            in_error |= {id(x) for x in ast.walk(n)}
    fields = {n.attr for n in ast.walk(m) if isinstance(n, ast.Attribute) and isinstance(n.value, ast.Name) and n.value.id == "self" and id(n) not in in_error}
    call = next(n for n in ast.walk(tree.body[1]) if isinstance(n, ast.Call))
    kws = {k.arg for k in call.keywords}
    rep.control(f"{rule} narrowed table keeps the old default", fields == {"table", "cls_name"} and bool(fields & kws) and "default" not in kws)
