"""C07 - nothing in the document is dropped silently."""
from __future__ import annotations

import ast
from typing import Any

from ..astutil import (ERROR_CLASSES, Locals, call_name, cfg_of, constructs_error, error_names, names_in, norm, receivers, resolved_text,
                       returns_error, role_anon, short, stmt_calls, where)
from ..cfg import CFG, walk_own
from ..core import PKG, Report
from .registries import check_module_files, check_registries

LEVEL = ("error discipline and accounting over all paths: no value whose static type includes a ParseError/PropertyError is "
         "discarded; inside every loop over a document collection each `continue` / early exit is preceded, in the same iteration, "
         "by an error record for the skipped item (or is a frozen benign case); diagnostics carry method+path / reference; keyed "
         "registries detect collisions; every operation is attached to a provably non-empty list of collections; the error lists "
         "are concatenated up to the CLI; the method list equals the Operation fields of PathItem.")

# skips that do not lose a listed item (operations, component schemas, response statuses, request media types)
# guards are written with locals replaced by their role (astutil.role_anon): the table does not depend on how locals are spelled
BENIGN_SKIPS = {
    ("parser.openapi.EndpointCollection.from_data", "<=getattr()> is None"): "the path item has no operation for this method",
    ("parser.openapi.Endpoint.add_parameters", "_.param_schema is None"):
        "a parameter with `content` instead of `schema` is skipped without a diagnostic; parameters are not among the items the "
        "property enumerates (recorded as an observation)",
    ("parser.openapi.Endpoint.add_parameters", "any((<each _[_.param_in]> for <each _[_.param_in]> in _[_.param_in] if <each _[_.param_in]>.name == _.name))"):
        "a path-item parameter overridden by an operation-level parameter of the same name and location",
    ("parser.properties.model_property.ModelProperty.build", "isinstance(<each roots>, utils.ClassName)"): "class-name roots carry no reference dependency",
    ("parser.properties.enum_property.EnumProperty.values_from_list", "isinstance(<each enumerate(values)[1]>, int)"): "the integer member has just been stored",
}
DOC_LOOPS = {  # function -> substrings of the loop's iterable *resolved through the locals it is bound from* (astutil.resolved_text)
    "parser.openapi.EndpointCollection.from_data": ("data.items()", "['get', 'put'"),
    "parser.openapi.Endpoint._add_responses": ("data.items()",),
    "parser.openapi.Endpoint.add_parameters": ("data.parameters",),
    "parser.openapi.Endpoint.from_data": ("body_from_data(",),
    "parser.bodies.body_from_data": (".content",),
    "parser.properties._create_schemas": ("components.items()",),
    "parser.properties._process_models": ("schemas.models_to_process",),
    "parser.properties.build_parameters": ("components.items()",),
}


def run(rep: Report, ctx: Any) -> str:
    ix = ctx.py
    cfgs: dict[str, CFG] = {}
    rep.rule("R07.1", "no error value is discarded: results of calls that can return ParseError/PropertyError/ParameterError are "
                      "never dropped as expression statements nor assigned to a name that is never read")
    rep.rule("R07.2", "every `continue` / loop exit inside a loop over a document collection is preceded in the same iteration by an "
                      "error record (append of an error, or return of one), or is a frozen benign skip")
    rep.rule("R07.3", "diagnostics identify the item: endpoint errors get a header with METHOD and path on both routes; schema errors "
                      "carry the reference path")
    rep.rule("R07.5", "aggregation reaches the CLI: collection errors + schema/parameter errors + project errors")
    rep.rule("R07.6", "every operation is attached to a provably non-empty list of collections; the method list is exhaustive")

    # ---- R07.1 -------------------------------------------------------------------------------------------------------
    returns_err = set()
    for f in ix.all_functions:
        ann = norm(f.node.returns) if f.node.returns is not None else ""
        if any(e in ann for e in ERROR_CLASSES):
            returns_err.add(f.name)
    rep.floor("functions_returning_errors", len(returns_err), 25)
    n_calls = 0
    for f in ix.all_functions:
        for st in ast.walk(f.node):
            if isinstance(st, ast.Expr) and isinstance(st.value, ast.Call):
                cn = call_name(st.value).rsplit(".", 1)[-1]
                if cn in returns_err and cn not in ("append", "extend"):
                    n_calls += 1
                    rep.fail("R07.1", f"{short(f)}::discarded {cn}()", f"the result of `{norm(st.value)[:60]}` (may be an error) is discarded",
                             where(f, st))
            if isinstance(st, ast.Assign) and isinstance(st.value, ast.Call):
                cn = call_name(st.value).rsplit(".", 1)[-1]
                if cn not in returns_err:
                    continue
                n_calls += 1
                names = [t.id for t in st.targets if isinstance(t, ast.Name)]
                for t in st.targets:
                    if isinstance(t, ast.Tuple):
                        names += [x.id for x in t.elts if isinstance(x, ast.Name)]
                first = names[0] if names else None
                if first is None:
                    continue
                used = any(isinstance(n, ast.Name) and n.id == first and isinstance(n.ctx, ast.Load) for n in ast.walk(f.node))
                rep.check(used, "R07.1", f"{short(f)}::{first} = {cn}()", f"`{first}` may hold an error and is never read", where(f, st),
                          lhs=norm(st)[:70], rhs="read afterwards")
    rep.floor("error_returning_call_sites", n_calls, 30)

    # ---- R07.2 -----------------------------------------------------------------------------------------------------------
    n_skips = 0
    done_skips: set[int] = set()
    for f in ix.all_functions:
        sf = short(f)
        if sf not in DOC_LOOPS:
            continue
        cfg = cfg_of(f, cfgs)
        errs = error_names(f.node)
        def is_doc_loop(n: ast.AST, f: Any = f, sf: str = sf) -> bool:
            return isinstance(n, ast.For) and any(p in resolved_text(n.iter, f.node) for p in DOC_LOOPS[sf])

        loops = [n for n in ast.walk(f.node) if is_doc_loop(n)]
        # collections an item is recorded into, one record each: a local bound to a comprehension of setdefault(...) results
        fan_out = set(Locals(f.node).bound_from(lambda v: ".setdefault(" in v and v.startswith("["), "assign"))
        rep.check(bool(loops), "R07.2", f"{sf}::loops-found", "loops over the document collection not found", where(f, f.node))
        for lp in loops:
            inner_loops = [x for x in ast.walk(lp) if isinstance(x, (ast.For, ast.While)) and x is not lp]
            for st in ast.walk(lp):
                if not isinstance(st, (ast.Continue, ast.Break)) or id(st) in done_skips:
                    continue
                done_skips.add(id(st))
                if any(any(y is st for y in ast.walk(il)) for il in inner_loops if not is_doc_loop(il)):
                    continue
                n_skips += 1
                guard = _innermost_if(lp, st)
                gtxt = role_anon(guard.test, f.node) if guard is not None else ""
                key = f"{sf}::{'continue' if isinstance(st, ast.Continue) else 'break'} under [{gtxt[:70]}]"
                if (sf, gtxt) in BENIGN_SKIPS:
                    rep.ok("R07.2", key, "frozen benign skip", BENIGN_SKIPS[(sf, gtxt)], nontrivial=False)
                    continue
                # some statement recording an error precedes the skip on every path from the loop head (same iteration)
                def records(n: object) -> bool:
                    if not isinstance(n, ast.stmt):
                        return False
                    if isinstance(n, ast.For) and n is not lp and norm(n.iter) in fan_out:
                        # one record per collection the operation belongs to (non-emptiness of that list is R07.6)
                        return any(records(s) for s in n.body)
                    for c in walk_own(n):
                        if isinstance(c, ast.Call) and isinstance(c.func, ast.Attribute) and c.func.attr in ("append", "extend") and c.args:
                            a0 = c.args[0]
                            if constructs_error(a0) or (isinstance(a0, ast.Name) and a0.id in errs) or \
                                    (isinstance(a0, ast.Tuple) and any(isinstance(x, ast.Name) and x.id in errs for x in a0.elts)):
                                return True
                    return False

                ok = cfg.every_path_passes(lp, st, records)
                rep.check(ok, "R07.2", key, "an item of the document is skipped on a path that records no diagnostic for it", where(f, st),
                          lhs=gtxt[:80], rhs="preceded by errors.append(<error>) in the same iteration")
    rep.floor("loop_skips", n_skips, 14)
    rep.observe("Endpoint.add_parameters: a parameter without `schema` (e.g. with `content`) is skipped without a diagnostic")

    # ---- R07.3 ---------------------------------------------------------------------------------------------------------------
    fd = ix.func("EndpointCollection.from_data")
    hdrs = [n for n in ast.walk(fd.node) if isinstance(n, ast.Assign) and any(norm(t).endswith(".header") for t in n.targets)]
    rep.check(len(hdrs) >= 2 and all("method" in norm(h.value) and "path" in norm(h.value) for h in hdrs), "R07.3",
              "EndpointCollection.from_data::error-headers", "endpoint diagnostics do not name METHOD and path on both routes", where(fd, fd.node),
              lhs=[norm(h.value)[:60] for h in hdrs], rhs="f'... {method.upper()} {path} ...' x2")
    us = ix.func("schemas.update_schemas_with_data")
    rep.check(any(isinstance(n, ast.Assign) and norm(n.targets[0]).endswith(".header") and "ref_path" in names_in(n.value) for n in ast.walk(us.node)),
              "R07.3", "update_schemas_with_data::error-names-reference", "schema errors do not carry the reference path", where(us, us.node))
    pm = ix.func("properties._process_models")
    mvars = {norm(lp.target) for lp in ast.walk(pm.node) if isinstance(lp, ast.For) and any(call_name(c) == "process_model" for c in ast.walk(lp) if isinstance(c, ast.Call))}
    rep.check(any(isinstance(n, ast.Assign) and norm(n.targets[0]).endswith(".header") and any(f"{m}.name" in norm(n.value) for m in mvars)
                  for n in ast.walk(pm.node)), "R07.3", "_process_models::error-names-schema",
              "model processing errors do not name the schema", where(pm, pm.node))

    # ---- R07.4 -------------------------------------------------------------------------------------------------------------------
    check_registries(rep, ctx, "R07.4")
    check_module_files(rep, ctx, "R07.4")

    # ---- R07.5 ---------------------------------------------------------------------------------------------------------------------
    ge = ix.func("Project._get_errors")
    rets_ge = [n for n in ast.walk(ge.node) if isinstance(n, ast.Return) and isinstance(n.value, ast.Name)]
    acc = {r.value.id for r in rets_ge}
    fed = [norm(c.args[0]) for r, c in receivers(ge.node, "extend") if r in acc and c.args]
    coll_ok = any(isinstance(lp, ast.For) and "endpoint_collections_by_tag" in norm(lp.iter) and
                  any(r in acc and c.args and norm(c.args[0]) == f"{norm(lp.target)}.parse_errors" for r, c in receivers(lp, "extend"))
                  for lp in ast.walk(ge.node))
    rep.check(coll_ok and "self.openapi.errors" in fed and "self.errors" in fed and bool(rets_ge), "R07.5",
              "Project._get_errors::concatenates", "an error list is missing from the aggregate", where(ge, ge.node), lhs=fed,
              rhs="every collection's parse_errors, self.openapi.errors, self.errors")
    gd = ix.func("GeneratorData.from_dict")
    # the accumulators (any spelling) are what EndpointCollection.from_data receives as schemas= / parameters= and returns
    ecalls = [n for n in ast.walk(gd.node) if isinstance(n, ast.Assign) and isinstance(n.value, ast.Call) and call_name(n.value) == "EndpointCollection.from_data"]
    rep.require(ecalls, "EndpointCollection.from_data(...) in GeneratorData.from_dict")
    kws = {k.arg: norm(k.value) for k in ecalls[0].value.keywords}
    accs = {kws.get("schemas"), kws.get("parameters")}
    tg = ecalls[0].targets[0]
    returned = {norm(e) for e in tg.elts[1:]} if isinstance(tg, ast.Tuple) else set()
    gcalls = [c for c in ast.walk(gd.node) if isinstance(c, ast.Call) and call_name(c) == "GeneratorData"]
    ev = next((k.value for c in gcalls for k in c.keywords if k.arg == "errors"), None)
    parts = set()
    if isinstance(ev, ast.BinOp) and isinstance(ev.op, ast.Add):
        parts = {norm(ev.left), norm(ev.right)}
    rep.check(None not in accs and returned == accs and parts == {f"{a}.errors" for a in accs}, "R07.5", "GeneratorData.from_dict::errors",
              "schema or parameter errors are not handed to the project", where(gd, gd.node), lhs=sorted(parts), rhs=sorted(f"{a}.errors" for a in accs if a))
    b = ix.func("Project.build")
    rets = [n for n in ast.walk(b.node) if isinstance(n, ast.Return)]
    rep.check(any(norm(r.value) == "self._get_errors()" for r in rets if r.value is not None), "R07.5", "Project.build::returns-errors",
              "build() does not return the aggregated errors", where(b, b.node))
    g = ix.func(f"{PKG}.generate")
    projs = set(Locals(g.node).bound_from(lambda v: v.startswith("_get_project_for_url_or_path("), "assign"))
    rep.check(any(isinstance(n, ast.Return) and n.value is not None and any(norm(n.value) == f"{p_}.build()" for p_ in projs) for n in ast.walk(g.node)),
              "R07.5", "generate::returns-build", "generate() does not return what build() returns", where(g, g.node))

    # ---- R07.6 -----------------------------------------------------------------------------------------------------------------------
    # the tag list (any spelling): the local handed to Endpoint.from_data as tags=
    efd_calls = [c for c in ast.walk(fd.node) if isinstance(c, ast.Call) and call_name(c) == "Endpoint.from_data"]
    rep.require(efd_calls, "Endpoint.from_data(...) call in EndpointCollection.from_data")
    tagv = next((norm(k.value) for c in efd_calls for k in c.keywords if k.arg == "tags"), "")
    tags_assign = [n for n in ast.walk(fd.node) if isinstance(n, ast.Assign) and norm(n.targets[0]) == tagv]
    rep.require(tags_assign, "tags assignment in from_data")
    first = tags_assign[0]
    ok = _nonempty(first.value)
    for a in tags_assign[1:]:
        ok = ok and _nonempty(a.value, {tagv})
    rep.check(ok, "R07.6", "EndpointCollection.from_data::tags-non-empty",
              "the list of tags of an operation can be empty (e.g. `tags: []`): the operation is attached to no collection and vanishes "
              "with its diagnostics", where(fd, first), lhs=[norm(a.value)[:70] for a in tags_assign], rhs="provably non-empty")
    colls = [n for n in ast.walk(fd.node) if isinstance(n, ast.Assign) and isinstance(n.value, ast.ListComp) and ".setdefault(" in norm(n.value.elt)]
    rep.check(bool(colls) and not colls[0].value.generators[0].ifs and norm(colls[0].value.generators[0].iter) == tagv, "R07.6",
              "EndpointCollection.from_data::one-collection-per-tag", "collections are not derived one per tag", where(fd, fd.node))
    # both outcomes reach every collection
    cname = norm(colls[0].targets[0]) if colls else ""
    fan = [lp for lp in ast.walk(fd.node) if isinstance(lp, ast.For) and norm(lp.iter) == cname]
    kinds = {r.rsplit(".", 1)[-1] for lp in fan for r, _ in receivers(lp, "append")}
    rep.check(len(fan) >= 3 and kinds == {"parse_errors", "endpoints"}, "R07.6", "EndpointCollection.from_data::all-collections-updated",
              "endpoint / errors are not attached to every collection", where(fd, fd.node), lhs=[len(fan), sorted(kinds)],
              rhs="three loops over the collections: rejected endpoint, endpoint warnings, endpoint")
    # method list exhaustive
    pi = ix.cls("PathItem")
    ops = sorted(f_ for f_, ann in ix.all_fields(pi).items() if ann is not None and "Operation" in norm(ann))
    meth = None
    dl = Locals(fd.node)
    for lp in ast.walk(fd.node):
        # the method loop: its variable is the attribute name read from the path item with getattr
        if isinstance(lp, ast.For) and isinstance(lp.target, ast.Name) and any(
                isinstance(c, ast.Call) and call_name(c) == "getattr" and len(c.args) >= 2 and norm(c.args[1]) == lp.target.id for c in ast.walk(lp)):
            for v in ([lp.iter] if not isinstance(lp.iter, ast.Name) else dl.values_of(lp.iter.id)):
                try:
                    meth = sorted(ast.literal_eval(v))
                except Exception:  # noqa: BLE001
                    meth = None
    rep.check(meth == ops, "R07.6", "EndpointCollection.from_data::methods-exhaustive",
              f"the method list {meth} differs from the Operation fields of PathItem {ops}", where(fd, fd.node), lhs=meth, rhs=ops)
    rep.not_decided.append("the census itself; response media types other than the first supported one are ignored by design")
    return LEVEL


def _innermost_if(loop: ast.AST, st: ast.AST) -> ast.If | None:
    best = None
    for n in ast.walk(loop):
        if isinstance(n, ast.If) and any(x is st for b in (n.body, n.orelse) for s in b for x in ast.walk(s)):
            best = n
    # ast.walk is breadth-first: the last match is the deepest
    if best is not None and not any(x is st for s in best.body for x in ast.walk(s)):
        return best
    return best


def _nonempty(e: ast.expr, known: set[str] | None = None) -> bool:
    known = known or set()
    if isinstance(e, (ast.List, ast.Tuple)):
        return len(e.elts) > 0
    if isinstance(e, ast.BoolOp) and isinstance(e.op, ast.Or):
        return _nonempty(e.values[-1], known)
    if isinstance(e, ast.ListComp):
        return len(e.generators) == 1 and not e.generators[0].ifs and _nonempty(e.generators[0].iter, known)
    if isinstance(e, ast.Name):
        return e.id in known
    if isinstance(e, ast.Subscript) and isinstance(e.slice, ast.Slice):
        up = e.slice.upper
        lo = e.slice.lower
        return _nonempty(e.value, known) and lo is None and isinstance(up, ast.Constant) and isinstance(up.value, int) and up.value >= 1
    return False
