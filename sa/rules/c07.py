"""C07 - nothing in the document is dropped silently."""
from __future__ import annotations

import ast
from typing import Any

from ..astutil import ERROR_CLASSES, call_name, cfg_of, constructs_error, error_names, norm, returns_error, short, stmt_calls, where
from ..cfg import CFG, walk_own
from ..core import PKG, Report
from .registries import check_module_files, check_registries

LEVEL = ("error discipline and accounting over all paths: no value whose static type includes a ParseError/PropertyError is "
         "discarded; inside every loop over a document collection each `continue` / early exit is preceded, in the same iteration, "
         "by an error record for the skipped item (or is a frozen benign case); diagnostics carry method+path / reference; keyed "
         "registries detect collisions; every operation is attached to a provably non-empty list of collections; the error lists "
         "are concatenated up to the CLI; the method list equals the Operation fields of PathItem.")

# skips that do not lose a listed item (operations, component schemas, response statuses, request media types)
BENIGN_SKIPS = {
    ("parser.openapi.EndpointCollection.from_data", "operation is None"): "the path item has no operation for this method",
    ("parser.openapi.Endpoint.add_parameters", "param.param_schema is None"):
        "a parameter with `content` instead of `schema` is skipped without a diagnostic; parameters are not among the items the "
        "property enumerates (recorded as an observation)",
    ("parser.openapi.Endpoint.add_parameters", "any((other_param for other_param in parameters_by_location[param.param_in] if other_param.name == param.name))"):
        "a path-item parameter overridden by an operation-level parameter of the same name and location",
    ("parser.properties.model_property.ModelProperty.build", "isinstance(root, utils.ClassName)"): "class-name roots carry no reference dependency",
    ("parser.properties.enum_property.EnumProperty.values_from_list", "isinstance(value, int)"): "the integer member has just been stored",
}
DOC_LOOPS = {  # function -> substrings identifying its loops over document collections
    "parser.openapi.EndpointCollection.from_data": ("data.items()", "methods"),
    "parser.openapi.Endpoint._add_responses": ("data.items()",),
    "parser.openapi.Endpoint.add_parameters": ("data.parameters",),
    "parser.openapi.Endpoint.from_data": ("bodies",),
    "parser.bodies.body_from_data": ("body_content.items()",),
    "parser.properties._create_schemas": ("to_process",),
    "parser.properties._process_models": ("to_process",),
    "parser.properties.build_parameters": ("to_process",),
}


def run(rep: Report, ctx: Any) -> str:
    ix = ctx.py
    cfgs: dict[str, CFG] = {}
    rep.rule("R07.1", "no error value is discarded: results of calls that can return ParseError/PropertyError/ParameterError are "
                      "never dropped as expression statements nor assigned to a name that is never read")
    rep.rule("R07.2", "every `continue` / loop exit inside a loop over a document collection is preceded in the same iteration by an "
                      "error record (append of an error, or return of one), or is a frozen benign skip")
    rep.rule("R07.3", "diagnostics identify the item: endpoint errors get a header with METHOD and path on both routes; schema errors "
                      "carry the reference path")
    rep.rule("R07.5", "aggregation reaches the CLI: collection errors + schema/parameter errors + project errors")
    rep.rule("R07.6", "every operation is attached to a provably non-empty list of collections; the method list is exhaustive")

    # ---- R07.1 -------------------------------------------------------------------------------------------------------
    returns_err = set()
    for f in ix.all_functions:
        ann = norm(f.node.returns) if f.node.returns is not None else ""
        if any(e in ann for e in ERROR_CLASSES):
            returns_err.add(f.name)
    rep.floor("functions_returning_errors", len(returns_err), 25)
    n_calls = 0
    for f in ix.all_functions:
        for st in ast.walk(f.node):
            if isinstance(st, ast.Expr) and isinstance(st.value, ast.Call):
                cn = call_name(st.value).rsplit(".", 1)[-1]
                if cn in returns_err and cn not in ("append", "extend"):
                    n_calls += 1
                    rep.fail("R07.1", f"{short(f)}::discarded {cn}()", f"the result of `{norm(st.value)[:60]}` (may be an error) is discarded",
                             where(f, st))
            if isinstance(st, ast.Assign) and isinstance(st.value, ast.Call):
                cn = call_name(st.value).rsplit(".", 1)[-1]
                if cn not in returns_err:
                    continue
                n_calls += 1
                names = [t.id for t in st.targets if isinstance(t, ast.Name)]
                for t in st.targets:
                    if isinstance(t, ast.Tuple):
                        names += [x.id for x in t.elts if isinstance(x, ast.Name)]
                first = names[0] if names else None
                if first is None:
                    continue
                used = any(isinstance(n, ast.Name) and n.id == first and isinstance(n.ctx, ast.Load) for n in ast.walk(f.node))
                rep.check(used, "R07.1", f"{short(f)}::{first} = {cn}()", f"`{first}` may hold an error and is never read", where(f, st),
                          lhs=norm(st)[:70], rhs="read afterwards")
    rep.floor("error_returning_call_sites", n_calls, 30)

    # ---- R07.2 -----------------------------------------------------------------------------------------------------------
    n_skips = 0
    done_skips: set[int] = set()
    for f in ix.all_functions:
        sf = short(f)
        if sf not in DOC_LOOPS:
            continue
        cfg = cfg_of(f, cfgs)
        errs = error_names(f.node)
        loops = [n for n in ast.walk(f.node) if isinstance(n, ast.For) and any(p in norm(n.iter) for p in DOC_LOOPS[sf])]
        rep.check(bool(loops), "R07.2", f"{sf}::loops-found", "loops over the document collection not found", where(f, f.node))
        for lp in loops:
            inner_loops = [x for x in ast.walk(lp) if isinstance(x, (ast.For, ast.While)) and x is not lp]
            for st in ast.walk(lp):
                if not isinstance(st, (ast.Continue, ast.Break)) or id(st) in done_skips:
                    continue
                done_skips.add(id(st))
                if any(any(y is st for y in ast.walk(il)) for il in inner_loops if not any(p in norm(getattr(il, "iter", ast.Constant(0))) for p in DOC_LOOPS[sf])):
                    continue
                n_skips += 1
                guard = _innermost_if(lp, st)
                gtxt = norm(guard.test) if guard is not None else ""
                key = f"{sf}::{'continue' if isinstance(st, ast.Continue) else 'break'} under [{gtxt[:70]}]"
                if (sf, gtxt) in BENIGN_SKIPS:
                    rep.ok("R07.2", key, "frozen benign skip", BENIGN_SKIPS[(sf, gtxt)], nontrivial=False)
                    continue
                # some statement recording an error precedes the skip on every path from the loop head (same iteration)
                def records(n: object) -> bool:
                    if not isinstance(n, ast.stmt):
                        return False
                    if isinstance(n, ast.For) and n is not lp and norm(n.iter) == "collections":
                        # one record per collection the operation belongs to (non-emptiness of that list is R07.6)
                        return any(records(s) for s in n.body)
                    for c in walk_own(n):
                        if isinstance(c, ast.Call) and isinstance(c.func, ast.Attribute) and c.func.attr in ("append", "extend") and c.args:
                            a0 = c.args[0]
                            if constructs_error(a0) or (isinstance(a0, ast.Name) and a0.id in errs) or \
                                    (isinstance(a0, ast.Tuple) and any(isinstance(x, ast.Name) and x.id in errs for x in a0.elts)):
                                return True
                    return False

                ok = cfg.every_path_passes(lp, st, records)
                rep.check(ok, "R07.2", key, "an item of the document is skipped on a path that records no diagnostic for it", where(f, st),
                          lhs=gtxt[:80], rhs="preceded by errors.append(<error>) in the same iteration")
    rep.floor("loop_skips", n_skips, 14)
    rep.observe("Endpoint.add_parameters: a parameter without `schema` (e.g. with `content`) is skipped without a diagnostic")

    # ---- R07.3 ---------------------------------------------------------------------------------------------------------------
    fd = ix.func("EndpointCollection.from_data")
    hdrs = [n for n in ast.walk(fd.node) if isinstance(n, ast.Assign) and any(norm(t).endswith(".header") for t in n.targets)]
    rep.check(len(hdrs) >= 2 and all("method" in norm(h.value) and "path" in norm(h.value) for h in hdrs), "R07.3",
              "EndpointCollection.from_data::error-headers", "endpoint diagnostics do not name METHOD and path on both routes", where(fd, fd.node),
              lhs=[norm(h.value)[:60] for h in hdrs], rhs="f'... {method.upper()} {path} ...' x2")
    us = ix.func("schemas.update_schemas_with_data")
    rep.check(any(isinstance(n, ast.Assign) and norm(n.targets[0]) == "prop.header" and "ref_path" in norm(n.value) for n in ast.walk(us.node)),
              "R07.3", "update_schemas_with_data::error-names-reference", "schema errors do not carry the reference path", where(us, us.node))
    pm = ix.func("properties._process_models")
    rep.check("model_prop.name" in norm(pm.node) and "header" in norm(pm.node), "R07.3", "_process_models::error-names-schema",
              "model processing errors do not name the schema", where(pm, pm.node))

    # ---- R07.4 -------------------------------------------------------------------------------------------------------------------
    check_registries(rep, ctx, "R07.4")
    check_module_files(rep, ctx, "R07.4")

    # ---- R07.5 ---------------------------------------------------------------------------------------------------------------------
    ge = ix.func("Project._get_errors")
    t = norm(ge.node)
    rep.check(all(x in t for x in ("collection.parse_errors", "self.openapi.errors", "self.errors")) and "return errors" in t, "R07.5",
              "Project._get_errors::concatenates", "an error list is missing from the aggregate", where(ge, ge.node))
    gd = ix.func("GeneratorData.from_dict")
    rep.check("errors=schemas.errors + parameters.errors" in norm(gd.node), "R07.5", "GeneratorData.from_dict::errors",
              "schema or parameter errors are not handed to the project", where(gd, gd.node))
    b = ix.func("Project.build")
    rets = [n for n in ast.walk(b.node) if isinstance(n, ast.Return)]
    rep.check(any(norm(r.value) == "self._get_errors()" for r in rets if r.value is not None), "R07.5", "Project.build::returns-errors",
              "build() does not return the aggregated errors", where(b, b.node))
    g = ix.func(f"{PKG}.generate")
    rep.check(any(isinstance(n, ast.Return) and n.value is not None and norm(n.value) == "project.build()" for n in ast.walk(g.node)), "R07.5",
              "generate::returns-build", "generate() does not return what build() returns", where(g, g.node))

    # ---- R07.6 -----------------------------------------------------------------------------------------------------------------------
    tags_assign = [n for n in ast.walk(fd.node) if isinstance(n, ast.Assign) and norm(n.targets[0]) == "tags"]
    rep.require(tags_assign, "tags assignment in from_data")
    first = tags_assign[0]
    ok = _nonempty(first.value)
    for a in tags_assign[1:]:
        ok = ok and _nonempty(a.value, {"tags"})
    rep.check(ok, "R07.6", "EndpointCollection.from_data::tags-non-empty",
              "the list of tags of an operation can be empty (e.g. `tags: []`): the operation is attached to no collection and vanishes "
              "with its diagnostics", where(fd, first), lhs=[norm(a.value)[:70] for a in tags_assign], rhs="provably non-empty")
    colls = [n for n in ast.walk(fd.node) if isinstance(n, ast.Assign) and norm(n.targets[0]) == "collections"]
    rep.check(bool(colls) and isinstance(colls[0].value, ast.ListComp) and not colls[0].value.generators[0].ifs and
              norm(colls[0].value.generators[0].iter) == "tags", "R07.6", "EndpointCollection.from_data::one-collection-per-tag",
              "collections are not derived one per tag", where(fd, fd.node))
    # both outcomes reach every collection
    t2 = norm(fd.node)
    rep.check(t2.count("for collection in collections") >= 3, "R07.6", "EndpointCollection.from_data::all-collections-updated",
              "endpoint / errors are not attached to every collection", where(fd, fd.node))
    # method list exhaustive
    pi = ix.cls("PathItem")
    ops = sorted(f_ for f_, ann in ix.all_fields(pi).items() if ann is not None and "Operation" in norm(ann))
    meth = None
    for n in ast.walk(fd.node):
        if isinstance(n, ast.Assign) and norm(n.targets[0]) == "methods":
            try:
                meth = sorted(ast.literal_eval(n.value))
            except Exception:  # noqa: BLE001
                meth = None
    rep.check(meth == ops, "R07.6", "EndpointCollection.from_data::methods-exhaustive",
              f"the method list {meth} differs from the Operation fields of PathItem {ops}", where(fd, fd.node), lhs=meth, rhs=ops)
    rep.not_decided.append("the census itself; response media types other than the first supported one are ignored by design")
    return LEVEL


def _innermost_if(loop: ast.AST, st: ast.AST) -> ast.If | None:
    best = None
    for n in ast.walk(loop):
        if isinstance(n, ast.If) and any(x is st for b in (n.body, n.orelse) for s in b for x in ast.walk(s)):
            best = n
    # ast.walk is breadth-first: the last match is the deepest
    if best is not None and not any(x is st for s in best.body for x in ast.walk(s)):
        return best
    return best


def _nonempty(e: ast.expr, known: set[str] | None = None) -> bool:
    known = known or set()
    if isinstance(e, (ast.List, ast.Tuple)):
        return len(e.elts) > 0
    if isinstance(e, ast.BoolOp) and isinstance(e.op, ast.Or):
        return _nonempty(e.values[-1], known)
    if isinstance(e, ast.ListComp):
        return len(e.generators) == 1 and not e.generators[0].ifs and _nonempty(e.generators[0].iter, known)
    if isinstance(e, ast.Name):
        return e.id in known
    if isinstance(e, ast.Subscript) and isinstance(e.slice, ast.Slice):
        up = e.slice.upper
        lo = e.slice.lower
        return _nonempty(e.value, known) and lo is None and isinstance(up, ast.Constant) and isinstance(up.value, int) and up.value >= 1
    return False
