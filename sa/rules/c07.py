"""C07 - nothing in the document is dropped silently."""
from __future__ import annotations

import ast
from typing import Any

from jinja2 import nodes as jnodes

from .. import tplq
from ..astutil import (ERROR_CLASSES, Locals, anon, call_name, cfg_of, constructs_error, error_names, local_names, names_in, norm,
                       region, returns_error, role_anon, short, where)
from ..jinja_interp import expr_text
from ..cfg import CFG, walk_own
from ..core import PKG, Report
from .registries import (ATTR_REGISTRIES, _bind_call, _Compat, _inline_locals, _reg_of, _registry_stores, check_module_files, check_registries,
                         membership_tests, receiver_classes, registry_scope, same_key)
from ..astutil import terminals

LEVEL = ("error discipline and accounting over all paths: no value whose static type includes a ParseError/PropertyError is "
         "discarded; every path through one iteration of a loop over items of the document (operations, component schemas, response "
         "statuses, request media types - found by what the loop iterates) records a diagnostic or stores something derived from the "
         "item, and a path on which a value is known to be an error records it; diagnostics carry method+path / reference; keyed "
         "registries detect collisions (test and store on the same registry state); removed component schemas are named; every parsed "
         "response gets a status branch in the template; every operation is attached to a provably non-empty list of collections; the "
         "error lists are concatenated up to the CLI and the collections that carry the per-operation diagnostics are handed on entire "
         "(accumulator -> result of from_data -> GeneratorData, no filtered copy, no removal); the method list equals the Operation "
         "fields of PathItem; one iteration over enumerated items reads its own item only, never another entry of the collection it "
         "goes through; the mapping handed to GeneratorData.from_dict is, entire, what the loading call returned; an object that carries "
         "diagnostics (a field declared list of errors) copied field by field or evolved keeps all of them; a function that registers "
         "under a key of a class registry and asks whether the key is taken ends in an error on every path on which it is.  Comprehensions over "
         "document items are read as the loops they abbreviate (a per-item local function / private helper as the loop body); a "
         "generator's `yield` hands a value on like `return`.")

# wrappers that hand the elements of their argument(s) on unchanged
_ELEMENTWISE = {"enumerate", "sorted", "list", "tuple", "reversed", "chain", "itertools.chain", "iter"}
_VIEWS = {"items", "values", "keys", "get", "copy"}


def run(rep: Report, ctx: Any) -> str:
    ix = ctx.py
    cfgs: dict[str, CFG] = {}
    rep.rule("R07.1", "no error value is discarded: results of calls that can return ParseError/PropertyError/ParameterError are "
                      "never dropped as expression statements nor assigned to a name that is never read")
    rep.rule("R07.2", "every path through one iteration of a loop over items of the document records a diagnostic (append / return of an "
                      "error) or stores something derived from the item where it outlives the iteration; a path on which a value is known to "
                      "be an error records it; leaving the loop early needs a diagnostic; an empty slot (field selected by the loop variable is "
                      "None) is no item.  Items the property does not enumerate (parameters) only carry the error clause")
    rep.rule("R07.3", "diagnostics identify the item: endpoint errors get a header with METHOD and path on both routes; schema errors "
                      "carry the reference path")
    rep.rule("R07.7", "a component schema removed from the registry of references (del / pop on classes_by_reference) is named in a "
                      "diagnostic: on every path to the removal the removed key is written into the text of an error (or an error built "
                      "from it is recorded); or the removing function hands the key on - every path from the removal to its end yields / "
                      "returns the key - and every caller in the package either hands it on the same way or writes what it receives "
                      "into the text of an error on every path on which it received anything")
    rep.rule("R07.8", "every response kept by the parser gets its status branch in the generated module: inside the loop over "
                      "endpoint.responses the status value is emitted under every assignment of the template conditions")
    rep.rule("R07.5", "aggregation reaches the CLI: collection errors + schema/parameter errors + project errors; the collections (which "
                      "carry the diagnostics of their operations) reach the project entire: what EndpointCollection.from_data returns is "
                      "its accumulator, what GeneratorData is given is what from_data returned - never a filtered copy, never with "
                      "entries removed")
    rep.rule("R07.6", "every operation is attached to a provably non-empty list of collections; the method list is exhaustive")
    rep.rule("R07.9", "one iteration accounts for its own item: inside a loop over a collection of items the property enumerates, the "
                      "body never takes ANOTHER entry of that collection (subscript / get / pop with a key other than the loop's own) "
                      "as a value, and never re-binds the variable holding the item from something computed from the collection - the "
                      "other entry has an iteration of its own, and what is written in this one would be visited by nobody")
    rep.rule("R07.10", "the document that is parsed is the document that was loaded: what GeneratorData.from_dict is handed is, entire, "
                       "what the loading call returned (any local name, a whole copy) - no call in between that takes the loaded mapping "
                       "and returns another, no filtered copy, no removal; from_dict does not re-bind or prune its document parameter")

    rep.rule("R07.11", "a copy keeps the diagnostics recorded so far: where an object of a class that carries diagnostics (a field declared as "
                       "a list of errors) is built from the fields of an existing object of that class - C(f=S.f, g=copy(S.g), ...) - or "
                       "derived from one with that field replaced - evolve(S, errors=...) -, the new list of diagnostics contains all of "
                       "the old one")

    rep.rule("R07.12", "a key that is taken is never silently shared: in a function that registers an artefact under key K of a registry "
                       "of classes (classes_by_name / classes_by_reference) and asks whether K is taken (K in registry, registry.get(K), "
                       "a private helper that asks), every path on which K is taken ends - from the question on - in an error return or "
                       "a raise, whatever else is found out about the entry that holds the key")

    rep.rule("R07.13", "a diagnostic outlives the rounds of a work-list loop: where a loop over items of the document runs inside a loop "
                       "whose body re-binds the work list from a list it starts afresh every round (the queue for the next round), an error "
                       "appended to a list that is likewise started afresh every round is appended for an item that is queued again on the "
                       "same path (the next round records it anew); the error of an item that is not attempted again goes to a list the "
                       "rounds do not reset")

    rep.rule("R07.14", "a diagnostic belongs to one item: callers write the label of their item (method and path, reference - R07.3) into the "
                       "error object they are returned, so an error a function returns (or yields) is an object of its own - built in the "
                       "call or returned by a callee - never one read out of a store of errors (an entry of a field / module variable that "
                       "holds errors: subscript, get, setdefault, the variable of a loop over it) nor a module-level error object: a stored "
                       "error handed out twice is re-labelled by each receiver and only the last item stays named")

    # ---- R07.1 -------------------------------------------------------------------------------------------------------
    returns_err: dict[str, list[Any]] = {}
    for f in ix.all_functions:
        ann = norm(f.node.returns) if f.node.returns is not None else ""
        if any(e in ann for e in ERROR_CLASSES):
            returns_err.setdefault(f.name, []).append(f)
    rep.floor("functions_returning_errors", len(returns_err), 20)
    n_calls = 0
    for f in ix.all_functions:
        for st in ast.walk(f.node):
            if isinstance(st, ast.Expr) and isinstance(st.value, ast.Call):
                cn = call_name(st.value).rsplit(".", 1)[-1]
                if cn not in ("append", "extend") and _may_denote(ix, f, st.value, returns_err.get(cn, [])):
                    n_calls += 1
                    rep.fail("R07.1", f"{short(f)}::discarded {cn}()", f"the result of `{norm(st.value)[:60]}` (may be an error) is discarded",
                             where(f, st))
            if isinstance(st, ast.Assign) and isinstance(st.value, ast.Call):
                cn = call_name(st.value).rsplit(".", 1)[-1]
                if not _may_denote(ix, f, st.value, returns_err.get(cn, [])):
                    continue
                n_calls += 1
                names = [t.id for t in st.targets if isinstance(t, ast.Name)]
                for t in st.targets:
                    if isinstance(t, ast.Tuple):
                        names += [x.id for x in t.elts if isinstance(x, ast.Name)]
                first = names[0] if names else None
                if first is None:
                    continue
                used = any(isinstance(n, ast.Name) and n.id == first and isinstance(n.ctx, ast.Load) for n in ast.walk(f.node))
                rep.check(used, "R07.1", f"{short(f)}::{first} = {cn}()", f"`{first}` may hold an error and is never read", where(f, st),
                          lhs=norm(st)[:70], rhs="read afterwards")
    rep.floor("error_returning_call_sites", n_calls, 29)

    # ---- R07.2 -----------------------------------------------------------------------------------------------------------
    n_ends = 0
    n_loops = 0
    n_rounds = 0
    frail_ends: list[tuple[ast.AST, str]] = []
    kinds_seen: set[str] = set()
    for f, loops in sorted(document_loops(ix).items(), key=lambda kv: kv[0].qual):
        sf = short(f)
        an = _Iteration(f, loops)
        an.helpers = _iteration_helpers(ix, f)
        for lp, kind_of_item in loops.items():
            n_loops += 1
            kinds_seen.add(kind_of_item)
            enumerated = kind_of_item in ENUMERATED
            for end, states in an.run(lp):
                n_ends += 1
                kind = {ast.Continue: "continue", ast.Break: "break", ast.Return: "return"}.get(type(end), "end of body")
                guard = _innermost_if(lp, end) if end is not lp else None
                gtxt = role_anon(guard.test, f.node) if guard is not None else ""
                key = f"{sf}::{kind} under [{gtxt[:70]}]" if end is not lp else f"{sf}::end of body [for _ in {role_anon(lp.iter, f.node)[:60]}]"
                lost = [s_ for s_ in states if s_.pend]
                # leaving the loop (break / return of a non-error) abandons the items not yet visited: only a diagnostic accounts for them
                leaves = isinstance(end, (ast.Break, ast.Return))
                silent = [s_ for s_ in states if not s_.pend and not (s_.rec or ((s_.keep or s_.absent) and not leaves))]
                if lost:
                    rep.fail("R07.2", key, "a value known to be an error on this path is neither recorded nor returned before the iteration ends",
                             where(f, end), lhs=gtxt[:80], rhs="errors.append(<error>) / return <error> on every such path")
                elif silent and not enumerated:
                    rep.ok("R07.2", key, "not an enumerated item", f"{kind_of_item}: not among the items the property enumerates "
                                                                   "(operations, component schemas, response statuses, request media types)", nontrivial=False)
                elif silent:
                    rep.fail("R07.2", key, f"an item of the document ({kind_of_item}) is skipped on a path that neither keeps anything derived "
                                           "from it nor records a diagnostic for it", where(f, end), lhs=gtxt[:80],
                             rhs="on every path of the iteration: a diagnostic is recorded, or the item's result is stored")
                elif all(s_.absent and not (s_.rec or s_.keep) for s_ in states):
                    rep.ok("R07.2", key, "empty slot", "the loop variable selects a field of the document object and that field is None: "
                                                       "there is no item", nontrivial=False)
                else:
                    rep.ok("R07.2", key, gtxt[:80], "every path records a diagnostic or keeps the item")
                if an.requeue and not isinstance(end, ast.Return):
                    for s_ in states:
                        if s_.frail and not s_.again and (end, gtxt) not in frail_ends:
                            frail_ends.append((end, gtxt))
            if an.requeue:
                n_rounds += 1
                rep.check(not frail_ends, "R07.13", f"{sf}::round-record [for _ in {role_anon(lp.iter, f.node)[:60]}]",
                          f"an error of an item ({kind_of_item}) is appended to a list that the round loop around this loop starts afresh every "
                          "round, on a path that does not queue the item for the next round: as soon as another round runs the list is "
                          "emptied, the item is not attempted again and nothing names it", where(f, frail_ends[0][0] if frail_ends else lp),
                          lhs=[f"{type(e_).__name__.lower()} under [{g_[:60]}] @ line {getattr(e_, 'lineno', 0)}" for e_, g_ in frail_ends],
                          rhs="on every path: appended to the per-round list => the item is appended to the queue for the next round; "
                              "otherwise recorded in a list bound outside the round loop")
            frail_ends = []
    rep.floor("round_loops", n_rounds, 1)
    rep.floor("document_loops", n_loops, 4)
    rep.floor("loop_skips", n_ends, 16)
    rep.require(set(ENUMERATED) <= kinds_seen, f"a loop over each kind of item the property enumerates {ENUMERATED}; found {sorted(kinds_seen)}")
    rep.observe("Endpoint.add_parameters: a parameter without `schema` (e.g. with `content`) is skipped without a diagnostic")

    # ---- R07.9 -----------------------------------------------------------------------------------------------------------
    n_own = 0
    for f, loops in sorted(document_loops(ix).items(), key=lambda kv: kv[0].qual):
        T = _DocTypes(ix, f)
        for lp, kind_of_item in loops.items():
            if kind_of_item not in ENUMERATED:
                continue
            colls = _iterated_collections(lp, T)
            if not colls:
                continue
            n_own += 1
            foreign = _foreign_entries(f.node, lp, colls)
            rep.check(not foreign, "R07.9", f"{short(f)}::own-item [for _ in {role_anon(lp.iter, f.node)[:60]}]",
                      f"the iteration over {kind_of_item} takes another entry of the collection it goes through in place of (or next to) "
                      "its own item: what the document says in this entry is then visited by no iteration and named by no diagnostic",
                      where(f, foreign[0] if foreign else lp), lhs=[norm(x)[:70] for x in foreign], rhs="only the loop's own item (its own key) is read from the collection")
    rep.floor("own_item_loops", n_own, 3)

    # ---- R07.3 ---------------------------------------------------------------------------------------------------------------
    fd = ix.func("EndpointCollection.from_data")
    bad_hdrs, n_hdrs = _unlabelled_endpoint_errors(ix, fd, cfgs)
    rep.check(n_hdrs >= 1 and not bad_hdrs, "R07.3",
              "EndpointCollection.from_data::error-headers", "endpoint diagnostics do not name METHOD and path on both routes", where(fd, fd.node),
              lhs=bad_hdrs or n_hdrs, rhs="every error attached to a collection got a header computed from the method and the path before")
    us = ix.func("schemas.update_schemas_with_data")
    # the reference is what the function is handed as such: the parameter(s) declared ReferencePath
    refs = {x.arg for x in us.params if x.annotation is not None and "ReferencePath" in norm(x.annotation)} or {"ref_path"} & {x.arg for x in us.params}
    rep.require(refs, "the reference path parameter of update_schemas_with_data")
    bad_us, n_us = _unlabelled_errors(ix, us, [refs], cfgs, returned=True)
    rep.require(n_us >= 1, "an error return of update_schemas_with_data")
    rep.check(not bad_us, "R07.3", "update_schemas_with_data::error-names-reference", "schema errors do not carry the reference path", where(us, us.node),
              lhs=bad_us or n_us, rhs="every error the function returns had its header computed from the reference path before (in place or "
                                      "by a private helper that is handed the error and the reference)")
    pm = ix.func("properties._process_models")
    # the schema is the item the pass goes through: the variable(s) of its loops over the work list of models
    mvars = {x for lp, kind in document_loops(ix).get(pm, {}).items() if kind == SCHEMAS for x in _targets(lp.target)}
    rep.require(mvars, "the loop of _process_models over the models that await processing")
    bad_pm, n_pm = _unlabelled_errors(ix, pm, [mvars], cfgs, returned=False)
    rep.require(n_pm >= 1, "an error recorded by _process_models")
    rep.check(not bad_pm, "R07.3", "_process_models::error-names-schema", "model processing errors do not name the schema", where(pm, pm.node),
              lhs=bad_pm or n_pm, rhs="every error the pass records had its header computed from the model it is about")

    # ---- R07.4 -------------------------------------------------------------------------------------------------------------------
    check_registries(rep, ctx, "R07.4")
    check_module_files(rep, ctx, "R07.4")

    # ---- R07.7 ---------------------------------------------------------------------------------------------------------------------
    n_removed = 0
    for f in ix.all_functions:
        if not f.module.name.startswith(f"{PKG}.parser"):
            continue
        removals = _removals(f.node, ACCOUNTED_REGISTRIES)
        if not removals:
            continue
        cfg = cfg_of(f, cfgs)
        errs = error_names(f.node) | {x.arg for x in [*f.node.args.posonlyargs, *f.node.args.args, *f.node.args.kwonlyargs]
                                     if x.annotation is not None and norm(x.annotation).strip("'\"").rsplit(".", 1)[-1] in ERROR_CLASSES}
        helpers = {g.name: g for g in region(ix, f) if g is not f}
        for st, reg, key in removals:
            n_removed += 1
            knames = names_in(key)

            def names_it(n: object, knames: set[str] = knames, errs: set[str] = errs) -> bool:
                if not isinstance(n, ast.stmt):
                    return False
                # <error>.<text attribute> = / += <... key ...>
                if isinstance(n, (ast.Assign, ast.AugAssign)):
                    tgts = n.targets if isinstance(n, ast.Assign) else [n.target]
                    if any(isinstance(t, ast.Attribute) and isinstance(t.value, ast.Name) and t.value.id in errs for t in tgts) and \
                            knames <= names_in(n.value):
                        return True
                for c in walk_own(n):
                    if not isinstance(c, ast.Call):
                        continue
                    args = [*c.args, *[k.value for k in c.keywords]]
                    # errors.append(<Error>(... key ...))
                    if isinstance(c.func, ast.Attribute) and c.func.attr in ("append", "extend") and c.args and constructs_error(c.args[0]) \
                            and knames <= names_in(c.args[0]):
                        return True
                    # a private helper of the same module that is handed the error and the key and writes into an error's text
                    g = helpers.get(call_name(c).rsplit(".", 1)[-1])
                    if g is not None and any(isinstance(a_, ast.Name) and a_.id in errs for a_ in args) and \
                            knames <= {x for a_ in args for x in names_in(a_)}:
                        gp = {x.arg for x in [*g.node.args.posonlyargs, *g.node.args.args, *g.node.args.kwonlyargs]}
                        if any(isinstance(m, (ast.Assign, ast.AugAssign)) and any(
                                isinstance(t, ast.Attribute) and isinstance(t.value, ast.Name) and t.value.id in gp
                                for t in (m.targets if isinstance(m, ast.Assign) else [m.target])) for m in ast.walk(g.node)):
                            return True
                return False

            ok = cfg.is_dominated_by(st, names_it) or _key_handed_to_diagnostic(ix, f, st, key, cfgs)
            rep.check(ok, "R07.7", f"{short(f)}::remove {reg}[{anon(key, local_names(f.node))}]",
                      "a component schema is removed from the registry on a path that does not write its reference into any diagnostic: "
                      "the schema disappears without being named", where(f, st), lhs=norm(st)[:80],
                      rhs="dominated by <error>.detail += f'...{key}...' (or an error record built from the key), or the key is handed to "
                          "the caller (yield / return) on every path from the removal and every caller writes what it is handed into the "
                          "text of an error")
    rep.floor("accounted_removals", n_removed, 1)

    # ---- R07.8 ---------------------------------------------------------------------------------------------------------------------
    et = ctx.jinja.templates.get("endpoint_module.py.jinja")
    rep.require(et, "endpoint_module.py.jinja")
    frs = [fr for fr in tplq.frags(et.tree.body) if fr.kind == "expr" and fr.text == "endpoint.responses[*].status_code.value"]
    rep.require(frs, "emission of the status value of each element of endpoint.responses in endpoint_module.py.jinja")
    in_loop = [fr for fr in frs if "endpoint.responses" in fr.loops]
    filtered = [n for n in et.tree.find_all(jnodes.For) if expr_text(n.iter) == "endpoint.responses" and n.test is not None and
                any(fr.node is x for fr in in_loop for x in n.find_all(type(fr.node)))]
    atoms_: list[str] = []
    for fr in in_loop:
        atoms_ += [a_ for a_ in tplq.guard_atoms(fr) if a_ not in atoms_]
    uncovered = [env for env in tplq.assignments(atoms_) if not any(tplq.guard_holds(fr, {**env}) for fr in in_loop)] if len(atoms_) <= 10 else [{}]
    rep.check(bool(in_loop) and not filtered and not uncovered, "R07.8", "endpoint_module.py.jinja::status-branch-per-response",
              "some documented (and parsed) response gets no status branch in the generated function under some template condition: its "
              "status is treated as undocumented although no warning names it", where=f"{PKG}/templates/{et.name}:{in_loop[0].line if in_loop else frs[0].line}",
              lhs=[[f"{g}={p_}" for g, p_ in fr.guards] for fr in frs], rhs="emitted for every element of endpoint.responses under every condition")

    # ---- R07.5 ---------------------------------------------------------------------------------------------------------------------
    ge = ix.func("Project._get_errors")
    fed = sorted(_returned_elements(ge.node))
    want = ["<each self.openapi.endpoint_collections_by_tag>.parse_errors", "self.errors", "self.openapi.errors"]
    rep.check(all(w in fed for w in want), "R07.5",
              "Project._get_errors::concatenates", "an error list is missing from the aggregate", where(ge, ge.node), lhs=fed,
              rhs="every collection's parse_errors, self.openapi.errors, self.errors")
    gd = ix.func("GeneratorData.from_dict")
    # the accumulators (any spelling) are what EndpointCollection.from_data receives as schemas= / parameters= and returns
    ecalls = [n for n in ast.walk(gd.node) if isinstance(n, ast.Assign) and isinstance(n.value, ast.Call) and call_name(n.value) == "EndpointCollection.from_data"]
    rep.require(ecalls, "EndpointCollection.from_data(...) in GeneratorData.from_dict")
    kws = {k.arg: norm(k.value) for k in ecalls[0].value.keywords}
    accs = {kws.get("schemas"), kws.get("parameters")}
    tg = ecalls[0].targets[0]
    returned = {norm(e) for e in tg.elts[1:]} if isinstance(tg, ast.Tuple) else set()
    gcalls = [c for c in ast.walk(gd.node) if isinstance(c, ast.Call) and call_name(c) == "GeneratorData"]
    ev = next((k.value for c in gcalls for k in c.keywords if k.arg == "errors"), None)
    # whichever way the two lists are put together (+, unpacking, chain, an accumulator): all elements of both
    parts = _elements(ev, gd.node, {}) if ev is not None else set()
    rep.check(None not in accs and returned == accs and {f"{a}.errors" for a in accs} <= parts, "R07.5", "GeneratorData.from_dict::errors",
              "schema or parameter errors are not handed to the project", where(gd, gd.node), lhs=sorted(parts), rhs=sorted(f"{a}.errors" for a in accs if a))
    # the collections themselves: every entry made while parsing reaches GeneratorData (a collection without endpoints still carries
    # the diagnostics of the operations that failed)
    handed = next((k.value for c in gcalls for k in c.keywords if k.arg == "endpoint_collections_by_tag"), None)
    src = tg.elts[0] if isinstance(tg, ast.Tuple) and tg.elts else tg
    why = _all_entries(gd.node, handed, lambda st, v: st is ecalls[0]) if handed is not None and isinstance(src, ast.Name) else "not handed over"
    rep.check(why is None, "R07.5", "GeneratorData.from_dict::collections", "the collections handed to the project are not all the collections "
              "EndpointCollection.from_data returned: the diagnostics stored on a dropped collection are lost with it",
              where(gd, gd.node), lhs=why, rhs="endpoint_collections_by_tag=<first result of EndpointCollection.from_data>, entire")
    acc_ok: list[str] = []
    n_ret = 0
    for r in _own_walk(fd.node):
        if isinstance(r, ast.Return):
            n_ret += 1
            first_ = r.value.elts[0] if isinstance(r.value, ast.Tuple) and r.value.elts else r.value
            w = _all_entries(fd.node, first_, lambda st, v: v is not None and norm(v) in ("{}", "dict()")) if first_ is not None else "returns nothing"
            if w is not None:
                acc_ok.append(w)
    rep.check(n_ret >= 1 and not acc_ok, "R07.5", "EndpointCollection.from_data::returns-all-collections",
              "what from_data returns as its collections is not the accumulator it filled, entire", where(fd, fd.node), lhs=acc_ok or n_ret,
              rhs="the local that starts as an empty dict, or a copy with every entry of it")
    # ---- R07.10 (the other end of the chain: what is parsed is what was loaded) ----------------------------------------------------
    doc_param = next((x.arg for x in gd.params if x.arg not in ("self", "cls")), None)
    rep.require(doc_param, "the document parameter of GeneratorData.from_dict")
    sites = [(h, c) for h in ix.all_functions if h.module.name.startswith(PKG) and h is not gd for c in _own_walk(h.node)
             if isinstance(c, ast.Call) and call_name(c).rsplit(".", 2)[-2:] == ["GeneratorData", "from_dict"]]
    rep.require(sites, "a call of GeneratorData.from_dict in the package")
    for h, c in sites:
        handed = _bind_call(gd, c).get(doc_param)
        why = _document_entire(ix, h, handed) if handed is not None else "no document handed over"
        rep.check(why is None, "R07.10", f"{short(h)}::document-entire", "the mapping handed to GeneratorData.from_dict is not, entire, the "
                  "document that was loaded: whatever the step in between leaves out is in the document, in no artefact and in no diagnostic",
                  where(h, c), lhs=why, rhs="the result of the loading call itself, or a whole copy of it")
    why_in = _pruned(gd.node, doc_param)
    rep.check(why_in is None, "R07.10", "GeneratorData.from_dict::document-untouched", "from_dict re-binds or prunes the document it was handed "
              "before validating it", where(gd, gd.node), lhs=why_in, rhs=f"`{doc_param}` is read, never re-bound, nothing removed from it")

    # ---- R07.12 -----------------------------------------------------------------------------------------------------------------------
    n_present = 0
    # keyed by who registers (the class of the builder, or the module of a plain function) and where: moving the registration into
    # a private helper of the same class / module, or spelling the key another way, leaves the key of the finding alone
    verdicts: dict[str, list[tuple[Any, ast.AST, list[ast.AST]]]] = {}
    for f in registry_scope(ix):
        seen_keys: list[tuple[str, ast.AST]] = []
        for st, reg, key, kind, value in _registry_stores(f, ATTR_REGISTRIES):
            if any(r == reg and same_key(k, key, f.node) for r, k in seen_keys):
                continue
            seen_keys.append((reg, key))
            asked = [t for t, k in membership_tests(f, reg, ix) if same_key(k, key, f.node)]
            if not asked:
                continue  # whether the key is present is not asked here: R07.4 looks for the question where the function is called from
            n_present += 1
            owner = f.module.name[len(PKG) + 1:] + (f".{f.cls.name}" if f.cls is not None else "")
            verdicts.setdefault(f"{owner}::taken-key-diagnosed {reg}", []).append((f, st, _silent_when_present(ix, f, reg, key, asked)))
    for ckey, vs in sorted(verdicts.items()):
        f, st, bad = next((v for v in vs if v[2]), vs[0])
        rep.check(not bad, "R07.12", ckey,
                  f"{short(f)} registers an artefact under a key of the registry and asks whether the key is taken, yet with the key taken "
                  "it can still return something other than an error: a second document item that derives the same key is merged "
                  "into (or replaces) the first one and no diagnostic names either", where(f, bad[0] if bad else st),
                  lhs=[f"{norm(b)[:60]} @ line {getattr(b, 'lineno', 0)}" for b in bad], rhs="with the key present, every path from the question on ends in an error return / raise")
    rep.floor("registering_functions_that_ask", n_present, 1)

    # ---- R07.14 -----------------------------------------------------------------------------------------------------------------------
    stores = _error_stores(ix)
    rep.floor("error_stores", len(stores), 2)
    n_handed = 0
    for f in ix.all_functions:
        if not f.module.name.startswith(f"{PKG}.parser"):
            continue
        n_out, shared = _stored_errors_handed_out(f, stores)
        n_handed += n_out
        for store, leaves in sorted(shared.items()):
            rep.fail("R07.14", f"{short(f)}::hands out stored error [{store}]",
                     f"{short(f)} returns an error object it read out of `{store}`, which holds errors beyond the call: every receiver labels "
                     "the object in place with its own item, so all of them end up sharing the label of the last one and the other items "
                     "are named by no diagnostic", where(f, leaves[0]), lhs=[f"{norm(x)[:60]} @ line {getattr(x, 'lineno', 0)}" for x in leaves],
                     rhs="a new error per call (built from the stored one's text if need be), or a copy")
    rep.ok("R07.14", "parser::errors handed out are fresh", f"{n_handed} result values of functions that read error stores {sorted(stores)[:8]}",
           "no function returns an entry of a store of errors or a module-level error object", nontrivial=bool(stores))

    # ---- R07.11 -----------------------------------------------------------------------------------------------------------------------
    n_copies = 0
    carriers = _diagnostic_carriers(ix)
    rep.require(carriers, "a class of the parser with a field declared as a list of errors")
    for f in ix.all_functions:
        if not (f.module.name.startswith(f"{PKG}.parser") or f.module.name == PKG):
            continue
        for c, cname, src, given in _copies(ix, f, carriers):
            for acc in carriers[cname]:
                if src is None or (acc not in given and given.get("<whole>") is not None):
                    continue  # evolve(S, ...) that leaves the accumulator alone keeps it
                n_copies += 1
                v = given.get(acc)
                have = _elements(_through_copies(v), f.node, _loop_env(f.node, c)) if v is not None else set()
                rep.check(f"{src}.{acc}" in have, "R07.11", f"{short(f)}::copy of {cname} keeps {acc} [{anon(ast.parse(src, mode='eval').body, local_names(f.node))}]",
                          f"a {cname} is built from the fields of an existing one and its list of diagnostics `{acc}` is not handed over entire: "
                          "what was recorded on the original so far is lost with it", where(f, c),
                          lhs=norm(v)[:70] if v is not None else f"no `{acc}=`", rhs=f"{acc}=<all of {src}.{acc}> (the list, a copy, or a list that contains it)")
    rep.floor("diagnostic_carrier_copies", n_copies, 0)  # such copies may legitimately not exist: nothing to guard against

    b = ix.func("Project.build")
    rets = [n for n in ast.walk(b.node) if isinstance(n, ast.Return)]
    rep.check(any(norm(_inline_locals(r.value, b.node)) == "self._get_errors()" for r in rets if r.value is not None), "R07.5", "Project.build::returns-errors",
              "build() does not return the aggregated errors", where(b, b.node))
    g = ix.func(f"{PKG}.generate")
    # everything generate() can return (its own returns and those of the private helpers whose result it returns) is either what
    # build() returned on a Project - however the project was obtained - or nothing but errors; and the former occurs
    n_build, other = 0, []
    for h, r, raw in _return_leaves(ix, g):
        v = _strip_views(_inline_locals(raw, h.node)) if raw is not None else None
        if isinstance(v, ast.Call) and isinstance(v.func, ast.Attribute) and v.func.attr == "build" and \
                "Project" in receiver_classes(ix, h, v.func.value, depth=4):
            n_build += 1
        elif v is None or not (_only_errors(raw, error_names(h.node)) or _only_errors(v, error_names(h.node))):
            other.append(f"{norm(r)[:60]} @ line {r.lineno}")
    rep.check(n_build >= 1 and not other, "R07.5", "generate::returns-build", "generate() does not return what build() returns",
              where(g, g.node), lhs=other or n_build, rhs="every return hands on the result of <Project>.build(), or errors only")

    # ---- R07.6 -----------------------------------------------------------------------------------------------------------------------
    # the tag list (any spelling): the local handed to Endpoint.from_data as tags=
    # (the call may sit in a private helper from_data delegates the parsing of one operation to: what the helper is handed for the
    # parameter it passes on is the tag list)
    efd_tags = _handed_on(ix, fd, "Endpoint.from_data", "tags")
    rep.require(efd_tags is not None, "Endpoint.from_data(...) call in EndpointCollection.from_data (or a private helper of it)")
    tagv = next((norm(v) for v in efd_tags or []), "")
    tags_assign = [n for n in ast.walk(fd.node) if isinstance(n, ast.Assign) and norm(n.targets[0]) == tagv]
    rep.require(tags_assign, "tags assignment in from_data")
    first = tags_assign[0]
    ok = _nonempty(first.value, None, ix, fd)
    for a in tags_assign[1:]:
        ok = ok and _nonempty(a.value, {tagv}, ix, fd)
    rep.check(ok, "R07.6", "EndpointCollection.from_data::tags-non-empty",
              "the list of tags of an operation can be empty (e.g. `tags: []`): the operation is attached to no collection and vanishes "
              "with its diagnostics", where(fd, first), lhs=[norm(a.value)[:70] for a in tags_assign], rhs="provably non-empty")
    colls = [n for n in ast.walk(fd.node) if isinstance(n, ast.Assign) and isinstance(n.value, ast.ListComp) and ".setdefault(" in norm(n.value.elt)]
    rep.check(bool(colls) and not colls[0].value.generators[0].ifs and norm(colls[0].value.generators[0].iter) == tagv, "R07.6",
              "EndpointCollection.from_data::one-collection-per-tag", "collections are not derived one per tag", where(fd, fd.node))
    # both outcomes reach every collection
    cname = norm(colls[0].targets[0]) if colls else ""
    attached: dict[str, list[bool]] = {}
    # the list of collections as each function spells it: the local of from_data, or the parameter of a private helper that receives it
    spelled: list[tuple[Any, set[str]]] = [(fd, {cname} if cname else set())]
    for g in region(ix, fd, depth=1):
        if g is not fd:
            spelled.append((g, {p_ for c in ast.walk(fd.node) if isinstance(c, ast.Call) and call_name(c).rsplit(".", 1)[-1] == g.name
                                for p_, a in _bind_call(g, c).items() if cname and norm(a) == cname}))
    for g, lists in spelled:
        for st in _own_walk(g.node):
            if not isinstance(st, ast.Expr):
                continue
            for c in walk_own(st):
                if isinstance(c, ast.Call) and isinstance(c.func, ast.Attribute) and c.func.attr in ("append", "extend") and \
                        isinstance(c.func.value, ast.Attribute) and c.func.value.attr in ("parse_errors", "endpoints"):
                    # attached to every collection of the operation: the receiver is the variable of a loop over the whole list and
                    # the statement is executed on every iteration of it (directly in the loop body, which is never cut short)
                    recv = c.func.value.value
                    lp = next((lp for lp in _own_walk(g.node) if isinstance(lp, ast.For) and any(s_ is st for s_ in lp.body)), None)
                    attached.setdefault(c.func.value.attr, []).append(
                        lp is not None and norm(lp.iter) in lists and isinstance(recv, ast.Name) and recv.id in _targets(lp.target)
                        and not any(isinstance(x, (ast.Break, ast.Continue, ast.Return)) for s_ in lp.body for x in ast.walk(s_)))
    rep.check(set(attached) == {"parse_errors", "endpoints"} and all(all(v) for v in attached.values()), "R07.6",
              "EndpointCollection.from_data::all-collections-updated",
              "endpoint / errors are not attached to every collection", where(fd, fd.node), lhs={k: v for k, v in sorted(attached.items())},
              rhs="every append to a collection's parse_errors / endpoints happens once per element of the list of collections; both kinds occur")
    # method list exhaustive
    pi = ix.cls("PathItem")
    ops = sorted(f_ for f_, ann in ix.all_fields(pi).items() if ann is not None and "Operation" in norm(ann))
    # the method loop (in from_data or in a private helper it delegates the enumeration to): its variable is the attribute name read
    # from the path item with getattr; what it goes through is a literal, a local or a constant of the module bound to one
    meths: list["list[str] | None"] = []
    for g in region(ix, fd):
        gl = Locals(g.node)
        for lp in _method_loops(g):
            vals = [lp.iter] if not isinstance(lp.iter, ast.Name) else (gl.values_of(lp.iter.id) or [g.module.variables.get(lp.iter.id)])
            for v in vals:
                try:
                    meths.append(sorted(ast.literal_eval(v)))
                except Exception:  # noqa: BLE001
                    meths.append(None)
    meth = next((m for m in meths if m != ops), ops) if meths else None
    rep.check(meth == ops, "R07.6", "EndpointCollection.from_data::methods-exhaustive",
              f"the method list {meth} differs from the Operation fields of PathItem {ops}", where(fd, fd.node), lhs=meth, rhs=ops)
    rep.not_decided.append("the census itself; response media types other than the first supported one are ignored by design")
    return LEVEL


# ---- a key that is taken ---------------------------------------------------------------------------------------------------------------
class _Asks(_Compat):
    """registries._Compat (evaluation of a function's tests with the registered entry present), where a private helper takes part
    in the decision as soon as it asks the registry anything (membership, a lookup) - not only when it asks for the entry's kind"""

    def asks(self) -> bool:
        if super().asks():
            return True
        for n in _own_walk(self.fn):
            if isinstance(n, ast.Compare) and len(n.ops) == 1 and isinstance(n.ops[0], (ast.In, ast.NotIn)) and \
                    _reg_of(n.comparators[0], ATTR_REGISTRIES, self.aliases):
                return True
            if self.is_existing(n):
                return True
        return False

    def helper(self, e: ast.AST) -> "_Compat | None":
        hops = 0
        while isinstance(e, ast.Name) and e.id in self.once and hops < 3:
            e, hops = self.once[e.id], hops + 1
        h = self.helpers.get(call_name(e).rsplit(".", 1)[-1]) if isinstance(e, ast.Call) else None
        if h is None:
            return None
        if h.name not in self._sub:
            self._sub[h.name] = _Asks(self.ix, h, self.cname, self.depth - 1)
        sub = self._sub[h.name]
        return sub if sub.asks() else None


class _Taken(_Asks):
    """_Asks with the membership tests of the function itself read by registry and key: `K in reg` holds for the key at hand, a
    test about another key or another registry is not decided"""

    def __init__(self, ix: Any, g: Any, reg: str, key: ast.AST) -> None:
        super().__init__(ix, g, g.cls.name if g.cls is not None else "")
        self.reg, self.key = reg, key

    def ev(self, t: ast.expr, own: bool, differ: bool, depth: int = 3) -> "bool | None":
        if isinstance(t, ast.Compare) and len(t.ops) == 1 and isinstance(t.ops[0], (ast.In, ast.NotIn)):
            r = _reg_of(t.comparators[0], ATTR_REGISTRIES, self.aliases)
            if r:
                return isinstance(t.ops[0], ast.In) if r == self.reg and same_key(t.left, self.key, self.fn) else None
        return super().ev(t, own, differ, depth)


def _silent_when_present(ix: Any, f: Any, reg: str, key: ast.AST, asked: list[ast.stmt]) -> list[ast.AST]:
    """the statements that end f with something other than an error although `key` is present in `reg`: reachable from where the
    question is asked, under every assumption about what else is true of the entry (its kind, its content)"""
    cp = _Taken(ix, f, reg, key)
    cfg = CFG(f.node)
    after: set[object] = set()
    for st in asked:
        after |= cfg.reachable_from(st)
    bad: list[ast.AST] = []
    for own in (False, True):
        for differ in (False, True):
            errs = error_names(f.node) | {name for name, v in cp.once.items() if isinstance(v, ast.Call) and cp.helper(v) is not None
                                          and cp.helper(v).results(own, differ) <= {"E"}}
            terms, falls = terminals(f.node.body, lambda t, own=own, differ=differ: cp.ev(t, own, differ))
            for t in sorted(terms, key=lambda n: n.lineno):
                if t in after and not (isinstance(t, ast.Raise) or returns_error(t, errs)) and t not in bad:
                    bad.append(t)
            if falls and f.node not in bad:
                bad.append(f.node)
    return bad


# ---- errors handed out are fresh ------------------------------------------------------------------------------------------------------
_STORE_HEADS = {"dict", "Dict", "list", "List", "set", "Set", "Mapping", "MutableMapping", "Sequence", "MutableSequence", "defaultdict", "OrderedDict",
                "deque", "frozenset", "FrozenSet", "tuple", "Tuple"}


def _holds_errors(ann: "ast.AST | None") -> bool:
    """the annotation declares a container with an error class among its element types"""
    if isinstance(ann, ast.Constant) and isinstance(ann.value, str):
        try:
            ann = ast.parse(ann.value, mode="eval").body
        except SyntaxError:
            return False
    if isinstance(ann, ast.BinOp) and isinstance(ann.op, ast.BitOr):
        return _holds_errors(ann.left) or _holds_errors(ann.right)
    if not isinstance(ann, ast.Subscript):
        return False
    head = norm(ann.value).rsplit(".", 1)[-1]
    parts = ann.slice.elts if isinstance(ann.slice, ast.Tuple) else [ann.slice]
    if head in ("Optional", "Union", "Final", "ClassVar", "Annotated"):
        return any(_holds_errors(p_) for p_ in parts)
    if head not in _STORE_HEADS:
        return False
    return any((dotted_name(n) or "").rsplit(".", 1)[-1] in ERROR_CLASSES for p_ in parts for n in ast.walk(p_) if isinstance(n, (ast.Name, ast.Attribute))) or \
        any(isinstance(n, ast.Constant) and isinstance(n.value, str) and n.value.rsplit(".", 1)[-1] in ERROR_CLASSES for p_ in parts for n in ast.walk(p_))


def _error_stores(ix: Any) -> set[str]:
    """names of the places that hold errors beyond one call: fields of the package's classes and module variables declared as
    containers of errors, and attributes into which some function of the package stores an error (`X.a[k] = <error>`,
    `X.a.append / add / setdefault(.., <error>)`).  Fields read `.name`, module variables `name`."""
    if hasattr(ix, "_c07_stores"):
        return ix._c07_stores
    out: set[str] = set()
    for c in ix.classes.values():
        if c.module.name.startswith(PKG):
            out |= {f".{fld}" for fld, ann in ix.all_fields(c).items() if _holds_errors(ann)}
    for name, m in ix.modules.items():
        if name.startswith(PKG):
            out |= {v for v, ann in m.var_ann.items() if _holds_errors(ann)}
    for f in ix.all_functions:
        if not f.module.name.startswith(PKG):
            continue
        errs = error_names(f.node)

        def is_err(v: ast.AST, errs: set[str] = errs) -> bool:
            return constructs_error(v) or (isinstance(v, ast.Name) and v.id in errs)

        for n in _own_walk(f.node):
            if isinstance(n, ast.Assign) and is_err(n.value):
                out |= {f".{t.value.attr}" for t in n.targets if isinstance(t, ast.Subscript) and isinstance(t.value, ast.Attribute)}
            if isinstance(n, ast.Call) and isinstance(n.func, ast.Attribute) and n.func.attr in ("append", "add", "setdefault", "insert") and \
                    isinstance(n.func.value, ast.Attribute) and n.args and is_err(n.args[-1]):
                out.add(f".{n.func.value.attr}")
    ix._c07_stores = out
    return out


def _stored_errors_handed_out(f: Any, stores: set[str]) -> tuple[int, dict[str, list[ast.AST]]]:
    """(number of result values looked at, store -> the result values of f that are an object read out of that store).  Read out:
    `S[k]`, `S.get(k)`, `S.setdefault(k, ..)`, the variable of a loop / comprehension over S (its values, its items), with S a field
    `<obj>.<store>` or a module variable; through the locals (and their aliases) bound to such an expression.  A result value is
    what `return` / `yield` hands on: the value, an element of a returned tuple, an arm of a conditional / `or` expression - except
    that a generator which yields the variable of its loop over a store hands on the store, entire (aggregation: R07.5).  A copy
    (copy / deepcopy / evolve / a constructor handed parts of the stored error) is an object of its own."""
    mod_errors = {v for v, val in f.module.variables.items() if constructs_error(val)}
    lc = Locals(f.node)

    def store_of(e: ast.AST) -> "str | None":
        if isinstance(e, ast.Attribute) and f".{e.attr}" in stores:
            return f".{e.attr}"
        if isinstance(e, ast.Name) and e.id in stores and e.id not in lc.defs:
            return e.id
        return None

    def read_out(e: "ast.AST | None") -> "str | None":
        if isinstance(e, ast.Subscript) and not isinstance(e.slice, ast.Slice):
            return store_of(e.value)
        if isinstance(e, ast.Call) and isinstance(e.func, ast.Attribute) and e.func.attr in ("get", "setdefault") and e.args:
            return store_of(e.func.value)
        if isinstance(e, ast.Call) and call_name(e) == "next" and e.args:
            return elements_of(e.args[0])
        return None

    def elements_of(it: "ast.AST | None") -> "str | None":
        """the store whose entries `it` goes through"""
        while isinstance(it, ast.Call):
            if isinstance(it.func, ast.Attribute) and it.func.attr in ("values", "items", "copy") and not it.args:
                it = it.func.value
            elif call_name(it) in _ELEMENTWISE and it.args:
                it = it.args[0]
            else:
                break
        if isinstance(it, (ast.GeneratorExp, ast.ListComp)) and len(it.generators) == 1:
            own = _targets(it.generators[0].target)
            return elements_of(it.generators[0].iter) if isinstance(it.elt, ast.Name) and it.elt.id in own else None
        return store_of(it) if it is not None else None

    def leaves(v: "ast.AST | None") -> list[ast.AST]:
        if isinstance(v, ast.Tuple):
            return [x for el in v.elts for x in leaves(el)]
        if isinstance(v, ast.IfExp):
            return leaves(v.body) + leaves(v.orelse)
        if isinstance(v, ast.BoolOp):
            return [x for el in v.values for x in leaves(el)]
        if isinstance(v, ast.NamedExpr):
            return leaves(v.value)
        return [v] if v is not None else []

    taken: dict[str, str] = {}
    looped: set[str] = set()
    for name, ds in lc.defs.items():
        for kind, st, v in ds:
            if kind.startswith("for"):
                src = elements_of(v)
                if src:
                    looped |= _same_object(f.node, name)
            elif kind.startswith("assign"):
                src = next((r for r in (read_out(x) for x in leaves(v)) if r), None) if "[" not in kind else None
            else:
                src = None
            if src:
                for alias in _same_object(f.node, name):
                    taken.setdefault(alias, src)
    n = 0
    shared: dict[str, list[ast.AST]] = {}
    for st in _own_walk(f.node):
        v = st.value if isinstance(st, (ast.Return, ast.Yield)) else None
        for x in leaves(v):
            n += 1
            src = read_out(x) or (taken.get(x.id) if isinstance(x, ast.Name) and not (isinstance(st, ast.Yield) and x.id in looped) else None)
            if src is None and isinstance(x, ast.Name) and x.id in mod_errors and x.id not in lc.defs:
                src = f"module variable {x.id}"
            if src:
                shared.setdefault(src, []).append(x)
    return n, shared


# ---- copies of objects that carry diagnostics --------------------------------------------------------------------------------------------
_COPYING = {"deepcopy", "copy", "set", "list", "dict", "tuple", "sorted", "frozenset"}


def _through_copies(e: "ast.AST | None") -> "ast.AST | None":
    """the value behind copy(x) / deepcopy(x) / list(x) / x.copy(): the same elements"""
    while isinstance(e, ast.Call):
        if call_name(e).rsplit(".", 1)[-1] in _COPYING and len(e.args) == 1 and not e.keywords:
            e = e.args[0]
        elif isinstance(e.func, ast.Attribute) and e.func.attr == "copy" and not e.args:
            e = e.func.value
        else:
            break
    return e


def _diagnostic_carriers(ix: Any) -> dict[str, list[str]]:
    """class name -> its fields declared as a list of errors (the diagnostics recorded on the object)"""
    out: dict[str, list[str]] = {}
    for c in ix.classes.values():
        if not (c.module.name.startswith(f"{PKG}.parser") or c.module.name == PKG):
            continue
        for fld, ann in ix.all_fields(c).items():
            if isinstance(ann, ast.Constant) and isinstance(ann.value, str):
                try:
                    ann = ast.parse(ann.value, mode="eval").body
                except SyntaxError:
                    continue
            if isinstance(ann, ast.Subscript) and norm(ann.value).rsplit(".", 1)[-1] in ("list", "List") and \
                    (dotted_name(ann.slice) or "").rsplit(".", 1)[-1] in ERROR_CLASSES:
                out.setdefault(c.name, []).append(fld)
    return out


def _copies(ix: Any, f: Any, carriers: dict[str, list[str]]) -> list[tuple[ast.Call, str, "str | None", dict[str, Any]]]:
    """(call, class, source, keyword -> value) for the calls in f that make an object of a diagnostics-carrying class out of an
    existing one: C(k=S.k, ...) with at least two fields read (possibly through copy / deepcopy / list ...) from the same-named fields
    of one object S of class C; evolve(S, k=...) / replace(S, k=...) on an S of class C (marked by the key `<whole>`)"""
    out: list[tuple[ast.Call, str, str | None, dict[str, Any]]] = []
    for c in _own_walk(f.node):
        if not isinstance(c, ast.Call):
            continue
        last = call_name(c).rsplit(".", 1)[-1]
        kws = {k.arg: k.value for k in c.keywords if k.arg}
        whole = _through_copies(c.args[0]) if last in ("evolve", "replace") and c.args else None
        if whole is not None and dotted_name(whole):
            for cname in sorted(receiver_classes(ix, f, whole) & set(carriers)):
                out.append((c, cname, dotted_name(whole), {**kws, "<whole>": whole}))
            continue
        cname = f.cls.name if last == "cls" and f.cls is not None else last
        if cname not in carriers:
            continue
        by_src: dict[str, list[str]] = {}
        for k, v in kws.items():
            v = _through_copies(v)
            if isinstance(v, ast.Attribute) and v.attr == k and dotted_name(v.value):
                by_src.setdefault(dotted_name(v.value), []).append(k)
        for src, ks in sorted(by_src.items()):
            root = ast.parse(src, mode="eval").body
            if len(ks) >= 2 and cname in receiver_classes(ix, f, root):
                out.append((c, cname, src, kws))
    return out


# ---- which function a call denotes ------------------------------------------------------------------------------------------------------
_BUILTIN_CONTAINERS = {"set", "frozenset", "dict", "list", "tuple", "str", "bytes", "Set", "FrozenSet", "Dict", "List", "Tuple", "Sequence",
                       "Mapping", "MutableMapping", "MutableSet", "MutableSequence", "Iterable", "Iterator", "defaultdict", "OrderedDict",
                       "Counter", "deque"}


def _builtin_annotation(ann: "ast.AST | None") -> bool:
    """the annotation names nothing but built-in containers / strings (Optional[...] and unions of such alike): whatever the value
    is, it is not an instance of a class of the repository"""
    if ann is None:
        return False
    if isinstance(ann, ast.Constant) and isinstance(ann.value, str):
        try:
            ann = ast.parse(ann.value, mode="eval").body
        except SyntaxError:
            return False
    if isinstance(ann, ast.Constant) and ann.value is None:
        return True
    if isinstance(ann, ast.BinOp) and isinstance(ann.op, ast.BitOr):
        return _builtin_annotation(ann.left) and _builtin_annotation(ann.right)
    if isinstance(ann, ast.Subscript):
        head = norm(ann.value).rsplit(".", 1)[-1]
        if head in ("Optional", "Union"):
            parts = ann.slice.elts if isinstance(ann.slice, ast.Tuple) else [ann.slice]
            return all(_builtin_annotation(p_) for p_ in parts)
        return head in _BUILTIN_CONTAINERS
    return isinstance(ann, (ast.Name, ast.Attribute)) and norm(ann).rsplit(".", 1)[-1] in _BUILTIN_CONTAINERS


def _builtin_value(ix: Any, f: Any, e: ast.AST, depth: int = 3) -> bool:
    """the value of e is known to be a built-in container: a display, a comprehension, the result of a built-in constructor or of a
    function of the repository declared to return one, a parameter / local declared as one, a local bound to nothing but such values"""
    if depth <= 0:
        return False
    if isinstance(e, (ast.Set, ast.Dict, ast.List, ast.Tuple, ast.ListComp, ast.SetComp, ast.DictComp, ast.JoinedStr)):
        return True
    if isinstance(e, ast.Call):
        if isinstance(e.func, ast.Name) and e.func.id in _BUILTIN_CONTAINERS:
            return True
        last = call_name(e).rsplit(".", 1)[-1]
        called = [g for g in ix.all_functions if g.name == last]
        return bool(called) and all(_builtin_annotation(g.node.returns) for g in called)
    if isinstance(e, ast.BoolOp):
        return all(_builtin_value(ix, f, v, depth) for v in e.values)
    if isinstance(e, ast.IfExp):
        return _builtin_value(ix, f, e.body, depth) and _builtin_value(ix, f, e.orelse, depth)
    if isinstance(e, ast.Name):
        for x in f.params:
            if x.arg == e.id:
                return _builtin_annotation(x.annotation)
        anns = [n.annotation for n in _own_walk(f.node) if isinstance(n, ast.AnnAssign) and isinstance(n.target, ast.Name) and n.target.id == e.id]
        if anns:
            return all(_builtin_annotation(a_) for a_ in anns)
        ds = Locals(f.node).defs.get(e.id, [])
        return bool(ds) and all(k == "assign" and v is not None and _builtin_value(ix, f, v, depth - 1) for k, _, v in ds)
    return False


def _may_denote(ix: Any, f: Any, call: ast.Call, cands: list[Any]) -> bool:
    """the call can be a call of one of `cands` (functions of one name).  A function or a closure is called by its name; a method is
    called on a receiver, and the call is one of C.m only if the receiver can be an instance of C: `K.m(...)` on another class K of
    the repository, or `seen.m(x)` on a receiver known to be a built-in container (declared so, bound to a display / a built-in
    constructor / the result of a function declared to return one), calls something else.  A receiver about which nothing, or not
    everything, is known counts as a call."""
    if not cands:
        return False
    if not isinstance(call.func, ast.Attribute) or any(g.cls is None for g in cands):
        return True  # by name; module.function(...)
    recv = call.func.value
    classes = {k.name: k for k in ix.classes.values()}
    head = dotted_name(recv)
    if head in classes:
        return any(g.cls in ix.mro(classes[head]) for g in cands)
    return not _builtin_value(ix, f, recv)


# ---- what a function returns, through the private helpers whose result it returns ----------------------------------------------------
def _return_leaves(ix: Any, f: Any, depth: int = 2, _seen: "set[str] | None" = None) -> list[tuple[Any, ast.Return, "ast.AST | None"]]:
    """(function, return statement, value) for everything f can return: its own returns; a return of the result of a private helper
    of f (astutil.region, possibly through a once-bound local) stands for the helper's returns"""
    seen = _seen if _seen is not None else {f.qual}
    helpers = {g.name: g for g in region(ix, f, depth=1) if g is not f} if depth > 0 else {}
    out: list[tuple[Any, ast.Return, ast.AST | None]] = []
    for r in _own_walk(f.node):
        if not isinstance(r, ast.Return):
            continue
        v = _inline_locals(r.value, f.node) if r.value is not None else None
        g = helpers.get(call_name(v).rsplit(".", 1)[-1]) if isinstance(v, ast.Call) else None
        if g is not None and g.qual not in seen and not any(isinstance(y, (ast.Yield, ast.YieldFrom)) for y in _own_walk(g.node)):
            out += _return_leaves(ix, g, depth - 1, seen | {g.qual})
        else:
            out.append((f, r, r.value))
    return out


def _only_errors(v: ast.AST, errs: set[str]) -> bool:
    """v is an error or a display of errors: built in place or held by a local known to hold one"""
    if isinstance(v, (ast.List, ast.Tuple, ast.Set)):
        return bool(v.elts) and all(_only_errors(x.value if isinstance(x, ast.Starred) else x, errs) for x in v.elts)
    if isinstance(v, ast.Name):
        return v.id in errs
    return isinstance(v, ast.Call) and constructs_error(v)


# ---- what a function returns as a list: the collections all of whose elements end up in it ---------------------------------------------
def _strip_views(e: ast.AST) -> ast.AST:
    """the collection behind a view or an element-wise wrapper: X.values() / list(X) / sorted(X) -> X"""
    while isinstance(e, ast.Call):
        if isinstance(e.func, ast.Attribute) and e.func.attr in ("values", "copy") and not e.args:
            e = e.func.value
        elif call_name(e) in _ELEMENTWISE - {"enumerate"} and len(e.args) == 1:
            e = e.args[0]
        else:
            break
    return e


def _canon(e: ast.AST, env: dict[str, str]) -> str:
    """text of e with the variables of enclosing loops / generators replaced by `<each ITER>`"""
    import copy

    class R(ast.NodeTransformer):
        def visit_Name(self, n: ast.Name) -> ast.AST:
            return ast.copy_location(ast.Name(id=env[n.id], ctx=n.ctx), n) if n.id in env else n

    return norm(R().visit(copy.deepcopy(_strip_views(e))))


def _bind_each(target: ast.AST, it: ast.AST, env: dict[str, str]) -> dict[str, str]:
    """env extended by the loop / generator variable(s): for x in IT -> x is <each IT>; for k, v in IT.items() -> v is <each IT>;
    for i, x in enumerate(IT) -> x is <each IT>; sorted() / list() / reversed() around IT go through the same elements"""
    out = dict(env)
    while isinstance(it, ast.Call) and call_name(it) in _ELEMENTWISE - {"enumerate"} and len(it.args) >= 1:
        it = it.args[0]
    pair = isinstance(target, ast.Tuple) and len(target.elts) == 2
    if isinstance(target, ast.Name):
        out[target.id] = f"<each {_canon(it, env)}>"
    elif pair and isinstance(it, ast.Call) and call_name(it) == "enumerate" and it.args:
        return _bind_each(target.elts[1], it.args[0], env)
    elif pair and isinstance(it, ast.Call) and isinstance(it.func, ast.Attribute) and it.func.attr == "items" and isinstance(target.elts[1], ast.Name):
        out[target.elts[1].id] = f"<each {_canon(it.func.value, env)}>"
    return out


def _elements(e: ast.AST, fn: ast.AST, env: dict[str, str], depth: int = 4) -> set[str]:
    """canonical texts of the collections ALL of whose elements are elements of the list denoted by e (nothing filtered, nothing
    conditional): concatenation, unpacking, extend / += on an accumulator, (nested) comprehensions and chain() alike"""
    if depth <= 0:
        return set()
    e = _strip_views(e)
    if isinstance(e, (ast.List, ast.Tuple)):
        return {x for el in e.elts if isinstance(el, ast.Starred) for x in _elements(el.value, fn, env, depth)}
    if isinstance(e, ast.BinOp) and isinstance(e.op, ast.Add):
        return _elements(e.left, fn, env, depth) | _elements(e.right, fn, env, depth)
    if isinstance(e, (ast.ListComp, ast.GeneratorExp)):
        if any(g.ifs for g in e.generators):
            return set()
        env2 = env
        for g in e.generators:
            env2 = _bind_each(g.target, g.iter, env2)
        # [x for a in A for x in a.part]: the elements of every a.part; [y for y in Y]: the elements of Y
        last = e.generators[-1]
        if isinstance(e.elt, ast.Name) and isinstance(last.target, ast.Name) and e.elt.id == last.target.id:
            env1 = env
            for g in e.generators[:-1]:
                env1 = _bind_each(g.target, g.iter, env1)
            return _elements(last.iter, fn, env1, depth - 1)
        return set()
    if isinstance(e, ast.Call):
        cn = call_name(e)
        if cn in ("chain", "itertools.chain"):
            return {x for a in e.args for x in _elements(a, fn, env, depth - 1)}
        if cn in ("chain.from_iterable", "itertools.chain.from_iterable") and len(e.args) == 1 and \
                isinstance(e.args[0], (ast.ListComp, ast.GeneratorExp)) and not any(g.ifs for g in e.args[0].generators):
            env2 = env
            for g in e.args[0].generators:
                env2 = _bind_each(g.target, g.iter, env2)
            return {_canon(e.args[0].elt, env2)}
        if cn == "sum" and len(e.args) == 2 and isinstance(e.args[0], (ast.ListComp, ast.GeneratorExp)) and not any(g.ifs for g in e.args[0].generators):
            env2 = env
            for g in e.args[0].generators:
                env2 = _bind_each(g.target, g.iter, env2)
            return {_canon(e.args[0].elt, env2)} | _elements(e.args[1], fn, env, depth - 1)
        return {_canon(e, env)}
    if isinstance(e, ast.Name) and e.id not in env and e.id in Locals(fn).defs:
        lc = Locals(fn)
        # what the name is bound to (whichever binding is in force: only what all of them contain), plus everything added to it
        bound = [_elements(v, fn, _loop_env(fn, st), depth - 1) for kind, st, v in lc.defs[e.id] if kind == "assign" and v is not None]
        out: set[str] = set.intersection(*bound) if bound else set()
        for kind, st, v in lc.defs[e.id]:
            if kind == "aug" and isinstance(st, ast.AugAssign) and isinstance(st.op, ast.Add) and _unconditional(fn, st):
                out |= _elements(v, fn, _loop_env(fn, st), depth - 1)
        for st in _own_walk(fn):
            if isinstance(st, ast.Expr) and isinstance(st.value, ast.Call) and isinstance(st.value.func, ast.Attribute) and \
                    st.value.func.attr == "extend" and isinstance(st.value.func.value, ast.Name) and st.value.func.value.id == e.id and \
                    len(st.value.args) == 1 and _unconditional(fn, st):
                out |= _elements(st.value.args[0], fn, _loop_env(fn, st), depth - 1)
        return out
    # anything else stands for itself: an attribute, a parameter, the result of a call
    return {_canon(e, env)}


def _ancestors(fn: ast.AST, node: ast.AST) -> list[ast.AST]:
    """statements of fn that enclose node, outermost first"""
    out: list[ast.AST] = []

    def find(cur: ast.AST, path: list[ast.AST]) -> bool:
        for c in ast.iter_child_nodes(cur):
            if c is node:
                out.extend(path)
                return True
            if find(c, path + [c] if isinstance(c, ast.stmt) else path):
                return True
        return False

    find(fn, [])
    return out


def _unconditional(fn: ast.AST, st: ast.AST) -> bool:
    """st is executed whenever fn runs to its end, once per iteration of the `for` loops around it: nothing but `for` statements
    encloses it, and none of them is left early"""
    anc = _ancestors(fn, st)
    return all(isinstance(a, ast.For) and not a.orelse and not any(isinstance(x, (ast.Break, ast.Continue, ast.Return)) for x in ast.walk(a))
               for a in anc)


def _loop_env(fn: ast.AST, st: ast.AST) -> dict[str, str]:
    env: dict[str, str] = {}
    for a in _ancestors(fn, st):
        if isinstance(a, ast.For):
            env = _bind_each(a.target, a.iter, env)
    return env


def _returned_elements(fn: ast.AST) -> set[str]:
    """collections all of whose elements are in the list fn returns (on every return)"""
    rets = [n for n in _own_walk(fn) if isinstance(n, ast.Return)]
    if not rets or any(r.value is None for r in rets):
        return set()
    sets = [_elements(r.value, fn, {}) for r in rets]
    return set.intersection(*sets)


# ---- a mapping handed on entire --------------------------------------------------------------------------------------------------------
_WHOLE = {"dict", "copy", "deepcopy", "copy.copy", "copy.deepcopy", "OrderedDict", "collections.OrderedDict", "sorted", "list", "reversed"}


def _all_entries(fn: ast.AST, e: ast.AST, is_source: Any, busy: frozenset = frozenset(), depth: int = 4) -> "str | None":
    """None when the mapping denoted by e holds every entry of the source (the binding for which is_source(statement, value) holds):
    the source itself under any local name, a whole copy (dict(x), x.copy(), {**x}, sorted items, a comprehension over all items that
    keeps key and value), and nothing removed from it (del / pop / popitem / clear) anywhere in fn.  Otherwise the reason."""
    if depth <= 0:
        return "too deep"
    if isinstance(e, ast.Name):
        if e.id in busy:
            return None
        ds = Locals(fn).defs.get(e.id, [])
        if not ds:
            return f"`{e.id}` is not bound here"
        for st in _own_walk(fn):
            if isinstance(st, ast.Delete) and any(isinstance(t, ast.Subscript) and isinstance(t.value, ast.Name) and t.value.id == e.id for t in st.targets):
                return f"entries are deleted from it (line {st.lineno})"
            if isinstance(st, ast.Call) and isinstance(st.func, ast.Attribute) and st.func.attr in ("pop", "popitem", "clear") and \
                    isinstance(st.func.value, ast.Name) and st.func.value.id == e.id:
                return f"entries are removed from it (line {st.lineno})"
        for kind, st, v in ds:
            if is_source(st, v):
                continue
            if kind != "assign" or v is None:
                return f"rebound at line {getattr(st, 'lineno', 0)}"
            w = _all_entries(fn, v, is_source, busy | {e.id}, depth - 1)
            if w is not None:
                return w
        return None
    if isinstance(e, ast.Call):
        if isinstance(e.func, ast.Attribute) and e.func.attr in ("copy", "items") and not e.args:
            return _all_entries(fn, e.func.value, is_source, busy, depth)
        if call_name(e) in _WHOLE and len(e.args) == 1:
            return _all_entries(fn, e.args[0], is_source, busy, depth)
        return f"`{norm(e)[:50]}`"
    if isinstance(e, ast.Dict):
        spreads = [v for k, v in zip(e.keys, e.values) if k is None]
        return _all_entries(fn, spreads[0], is_source, busy, depth) if spreads else "a new dict"
    if isinstance(e, ast.DictComp):
        g = e.generators
        if len(g) != 1 or g[0].ifs:
            return f"filtered at line {e.lineno}: `{norm(e)[:70]}`"
        tg = g[0].target
        if isinstance(tg, ast.Tuple) and len(tg.elts) == 2 and norm(e.key) == norm(tg.elts[0]) and norm(e.value) == norm(tg.elts[1]):
            return _all_entries(fn, g[0].iter, is_source, busy, depth)
        return f"rebuilt at line {e.lineno}: `{norm(e)[:70]}`"
    if isinstance(e, ast.IfExp):
        return _all_entries(fn, e.body, is_source, busy, depth) or _all_entries(fn, e.orelse, is_source, busy, depth)
    return f"`{norm(e)[:50]}`"


def _pruned(fn: ast.AST, name: str) -> "str | None":
    """why the mapping held by parameter `name` is not what fn was handed any more: re-bound, or entries removed"""
    for st in _own_walk(fn):
        if isinstance(st, ast.Name) and st.id == name and isinstance(st.ctx, (ast.Store, ast.Del)):
            return f"`{name}` is re-bound (line {st.lineno})"
        if isinstance(st, ast.Delete) and any(isinstance(t, ast.Subscript) and names_in(t.value) & {name} for t in st.targets):
            return f"entries are deleted from it (line {st.lineno})"
        if isinstance(st, ast.Call) and isinstance(st.func, ast.Attribute) and st.func.attr in ("pop", "popitem", "clear") and \
                names_in(st.func.value) & {name}:
            return f"entries are removed from it (line {st.lineno})"
    return None


def _returns_mapping(ix: Any, call: ast.Call) -> bool:
    """the function called is one of the repository's and is declared to return a mapping (possibly or an error)"""
    last = call_name(call).rsplit(".", 1)[-1]
    for g in ix.all_functions:
        if g.name == last and g.node.returns is not None:
            ann = norm(g.node.returns)
            if any(w in ann for w in ("dict", "Dict", "Mapping")):
                return True
    return False


def _takes_document(ix: Any, h: Any, call: ast.Call) -> "str | None":
    """the argument of `call` that already is the loaded document - a local of h bound to the result of a function declared to return
    a mapping, such a call written in place, or a parameter of h declared a mapping: the call then stands between loading and parsing"""
    lc = Locals(h.node)
    for a in [*call.args, *[k.value for k in call.keywords]]:
        if isinstance(a, ast.Starred):
            a = a.value
        if isinstance(a, ast.Call) and (_returns_mapping(ix, a) or _takes_document(ix, h, a)):
            return norm(a)[:40]
        if isinstance(a, ast.Name):
            if any(k.startswith("assign") and isinstance(v, ast.Call) and (_returns_mapping(ix, v) or (v is not call and _takes_document(ix, h, v)))
                   for k, _, v in lc.defs.get(a.id, [])):
                return a.id
            ann = next((x.annotation for x in h.params if x.arg == a.id), None)
            if ann is not None and any(w in norm(ann) for w in ("dict", "Dict", "Mapping")):
                return a.id
    return None


def _document_entire(ix: Any, h: Any, e: ast.AST) -> "str | None":
    """None when the mapping e that h hands to the parser is, entire, what a loading call returned; otherwise the reason.  A loading
    call is any call that is not itself handed the loaded document (see _takes_document): it makes the document, it cannot prune it."""
    def loads(v: "ast.AST | None") -> bool:
        return isinstance(v, ast.Call) and not (call_name(v) in _WHOLE and len(v.args) == 1) and \
            not (isinstance(v.func, ast.Attribute) and v.func.attr in ("copy", "items") and not v.args) and _takes_document(ix, h, v) is None

    if loads(e):
        return None
    if isinstance(e, ast.Call) and _takes_document(ix, h, e) is not None and not (call_name(e) in _WHOLE or (isinstance(e.func, ast.Attribute) and e.func.attr == "copy")):
        return f"`{norm(e)[:60]}` takes the loaded document `{_takes_document(ix, h, e)}` and returns another mapping"
    if isinstance(e, ast.Name) and e.id in {x.arg for x in h.params} and e.id not in Locals(h.node).defs:
        return _pruned(h.node, e.id)  # handed in by the caller of h, passed on as it is
    return _all_entries(h.node, e, lambda st, v: loads(v))


# ---- one iteration, one item -----------------------------------------------------------------------------------------------------------
def _iterated_collections(lp: ast.For, T: "_DocTypes") -> list[tuple[str, set[str]]]:
    """(text of the collection the loop goes through, the loop's own key variables) - the collection behind views, element-wise
    wrappers and the locals it was bound to.  The own key is the first variable of `for k, v in C.items()`, the variable of
    `for k in C` / `for k in C.keys()`."""
    keys: set[str] = set()
    it = lp.iter
    while isinstance(it, ast.Call) and call_name(it) in _ELEMENTWISE - {"enumerate"} and len(it.args) == 1:
        it = it.args[0]
    if isinstance(lp.target, ast.Tuple) and len(lp.target.elts) == 2 and isinstance(it, ast.Call) and isinstance(it.func, ast.Attribute) and it.func.attr == "items":
        keys = _targets(lp.target.elts[0])
    elif isinstance(lp.target, ast.Name) and not (isinstance(it, ast.Call) and isinstance(it.func, ast.Attribute) and it.func.attr in ("values", "items")):
        keys = {lp.target.id}
    out = []
    for src, _ in T.sources(lp.iter):
        if isinstance(src, (ast.Name, ast.Attribute)) and dotted_name(src):
            out.append((dotted_name(src), keys))
    return out


def _foreign_entries(fn: ast.AST, lp: ast.For, colls: list[tuple[str, set[str]]]) -> list[ast.AST]:
    """expressions in the body of lp that take another entry of the iterated collection as a value, and re-bindings of the item
    variable from something computed from the collection.  Tests (`if K in C`, `if C.get(K) is None`) decide something about this
    item and take nothing in its place."""
    names = {c for c, _ in colls}
    item_vars = {x for t in _targets(lp.target) for x in _same_object(fn, t)}

    def is_coll(e: ast.AST) -> bool:
        return isinstance(e, (ast.Name, ast.Attribute)) and dotted_name(e) in names

    def own(k: ast.AST, e: ast.AST) -> bool:
        return isinstance(k, ast.Name) and any(k.id in keys for c, keys in colls if c == dotted_name(e))

    out: list[ast.AST] = []
    tests = {id(x) for s_ in lp.body for n in _own_walk(s_) if isinstance(n, (ast.If, ast.While, ast.Assert, ast.IfExp)) for x in ast.walk(n.test)}
    for s_ in lp.body:
        for n in _own_walk(s_):
            if id(n) in tests:
                continue
            if isinstance(n, ast.Subscript) and isinstance(n.ctx, ast.Load) and is_coll(n.value) and not own(n.slice, n.value):
                out.append(n)
            if isinstance(n, ast.Call) and isinstance(n.func, ast.Attribute) and n.func.attr in ("get", "pop") and n.args and is_coll(n.func.value) \
                    and not own(n.args[0], n.func.value):
                out.append(n)
            if isinstance(n, (ast.Assign, ast.AnnAssign, ast.NamedExpr)) and n.value is not None:
                tgts = n.targets if isinstance(n, ast.Assign) else [n.target]
                if any(isinstance(t, ast.Name) and t.id in item_vars for t in tgts) and any(is_coll(x) for x in ast.walk(n.value)) and \
                        not any(n.value is o or any(x is o for x in ast.walk(n.value)) for o in out):
                    out.append(n)
    return out


# ---- endpoint diagnostics carry METHOD and path ------------------------------------------------------------------------------------
def _text_sources(e: ast.AST | None, fn: ast.AST, depth: int = 4, _seen: "set[str] | None" = None) -> set[str]:
    """the names whose text goes into the string e: through f-strings, + and %, conditional expressions, string methods
    (x.upper(), sep.join(xs), fmt.format(..)), str(), and the locals bound to such expressions.  A name that only decides something
    (a test) or that is an argument of some other call contributes no text."""
    seen = _seen if _seen is not None else set()
    if e is None or depth < 0:
        return set()
    if isinstance(e, ast.JoinedStr):
        return {x for v in e.values if isinstance(v, ast.FormattedValue) for x in _text_sources(v.value, fn, depth, seen)}
    if isinstance(e, ast.BinOp) and isinstance(e.op, (ast.Add, ast.Mod)):
        return _text_sources(e.left, fn, depth, seen) | _text_sources(e.right, fn, depth, seen)
    if isinstance(e, ast.IfExp):
        return _text_sources(e.body, fn, depth, seen) | _text_sources(e.orelse, fn, depth, seen)
    if isinstance(e, (ast.Tuple, ast.List)):
        return {x for el in e.elts for x in _text_sources(el, fn, depth, seen)}
    if isinstance(e, ast.Call):
        args = [*e.args, *[k.value for k in e.keywords]]
        if isinstance(e.func, ast.Attribute):
            return _text_sources(e.func.value, fn, depth, seen) | {x for a in args for x in _text_sources(a, fn, depth, seen)}
        if call_name(e) in ("str", "repr", "format"):
            return {x for a in args for x in _text_sources(a, fn, depth, seen)}
        return set()
    if isinstance(e, ast.Attribute):
        root = e
        while isinstance(root, ast.Attribute):
            root = root.value
        return {root.id} if isinstance(root, ast.Name) else set()
    if isinstance(e, ast.Name):
        out = {e.id}
        if e.id not in seen:
            seen.add(e.id)
            for kind, _, v in Locals(fn).defs.get(e.id, []):
                if kind in ("assign", "aug"):
                    out |= _text_sources(v, fn, depth - 1, seen)
        return out
    return set()


def _writes_label(fn: ast.AST, helpers: dict[str, Any], n: object, who: str, need: list[set[str]], attrs: tuple[str, ...] = ("header",),
                  via: "set[str] | None" = None) -> bool:
    """statement n of fn writes into a text attribute of the error held by local `who` a string computed from (a name of each set
    of) `need`: in place (`who.header = ..`, or `rec.<field>.header = ..` through a record `rec` of `via` that was built from the
    error), or by calling a private helper that is handed the error and writes, into the text of the parameter that receives it, a
    string computed from parameters that receive such names"""
    def holder(t: ast.AST) -> bool:
        if isinstance(t, ast.Name):
            return t.id == who
        return bool(via) and isinstance(t, ast.Attribute) and isinstance(t.value, ast.Name) and t.value.id in (via or set())

    if isinstance(n, (ast.Assign, ast.AugAssign)):
        tgts = n.targets if isinstance(n, ast.Assign) else [n.target]
        if any(isinstance(t, ast.Attribute) and t.attr in attrs and holder(t.value) for t in tgts):
            behind = _text_sources(n.value, fn)
            if all(behind & grp for grp in need):
                return True
    if isinstance(n, ast.stmt):
        for c in walk_own(n):
            g = helpers.get(call_name(c).rsplit(".", 1)[-1]) if isinstance(c, ast.Call) else None
            if g is None:
                continue
            env = _bind_call(g, c)
            mine = {p_ for p_, a in env.items() if isinstance(a, ast.Name) and a.id == who}
            for m in ast.walk(g.node):
                if isinstance(m, (ast.Assign, ast.AugAssign)) and any(
                        isinstance(t, ast.Attribute) and t.attr in attrs and isinstance(t.value, ast.Name) and t.value.id in mine
                        for t in (m.targets if isinstance(m, ast.Assign) else [m.target])):
                    used = _text_sources(m.value, g.node) & set(env)
                    behind = {x for p_ in used for x in _text_sources(env[p_], fn)}
                    if all(behind & grp for grp in need):
                        return True
    return False


def _same_object(fn: ast.AST, name: str) -> set[str]:
    """the locals of fn that are names for the object `name` holds: connected to it by plain `a = b` bindings (either direction)"""
    pairs = [(n, v.id) for n, ds in Locals(fn).defs.items() for k, _, v in ds if k == "assign" and isinstance(v, ast.Name)]
    out = {name}
    changed = True
    while changed:
        changed = False
        for a, b in pairs:
            if (a in out) != (b in out):
                out |= {a, b}
                changed = True
    return out


def _unlabelled_errors(ix: Any, f: Any, need: list[set[str]], cfgs: dict[str, CFG], returned: bool) -> tuple[list[str], int]:
    """(errors that leave f without a header computed from `need`, number of errors that leave f).  An error leaves f by being
    returned (`returned`) or by being recorded in a list (alone, in a tuple, or as a field of a record built from it: a local bound
    to a constructor call / display that is handed the error).  Held by a local, it must have been labelled (_writes_label) on every
    path to that point - or by the very statement, when a helper labels it and hands it back; built in place, its header / detail
    arguments must be computed from `need`."""
    cfg = cfg_of(f, cfgs)
    errs = {x for e in error_names(f.node) for x in _same_object(f.node, e)}
    helpers = {g.name: g for g in region(ix, f, depth=1) if g is not f}
    bad: list[str] = []
    n = 0
    # records that carry an error: local -> the errors it was built from
    carried: dict[str, set[str]] = {}
    for name, ds in Locals(f.node).defs.items():
        if name in errs:
            continue
        for kind, _, v in ds:
            parts = [*v.args, *[k.value for k in v.keywords]] if isinstance(v, ast.Call) and not constructs_error(v) else \
                list(v.elts) if isinstance(v, (ast.Tuple, ast.List)) else []
            if kind == "assign":
                carried.setdefault(name, set()).update(a.id for a in parts if isinstance(a, ast.Name) and a.id in errs)
    carried = {k: v for k, v in carried.items() if v}
    for k in list(carried):
        for alias in _same_object(f.node, k):
            carried.setdefault(alias, set()).update(carried[k])

    def labels(x: object, who: str) -> bool:
        same = _same_object(f.node, who)
        via = {r for r, es in carried.items() if es & same}
        return any(_writes_label(f.node, helpers, x, w, need, via=via) for w in same)

    for st in cfg.stmts():
        leaving: list[ast.AST] = []
        if returned and isinstance(st, ast.Return) and st.value is not None:
            for v in ([st.value] + (list(st.value.elts) if isinstance(st.value, ast.Tuple) else [])):
                if isinstance(v, ast.Name) and v.id in errs:
                    leaving.append(v)
                elif isinstance(v, ast.Call) and (constructs_error(v) or (
                        call_name(v).rsplit(".", 1)[-1] in helpers and any(isinstance(a, ast.Name) and a.id in errs for a in [*v.args, *[k.value for k in v.keywords]]))):
                    leaving.append(v)
        if not returned:
            for c in walk_own(st):
                if isinstance(c, ast.Call) and isinstance(c.func, ast.Attribute) and c.func.attr in ("append", "extend") and c.args:
                    a0 = c.args[0]
                    for v in ([a0] + (list(a0.elts) if isinstance(a0, (ast.Tuple, ast.List)) else [])):
                        if (isinstance(v, ast.Name) and v.id in errs) or (isinstance(v, ast.Call) and constructs_error(v)):
                            leaving.append(v)
                        elif isinstance(v, ast.Name) and v.id in carried:
                            leaving += [ast.copy_location(ast.Name(id=e_, ctx=ast.Load()), v) for e_ in sorted(carried[v.id])]
        for v in leaving:
            n += 1
            if isinstance(v, ast.Name):
                ok = labels(st, v.id) or cfg.is_dominated_by(st, lambda x, who=v.id: labels(x, who))
            elif call_name(v).rsplit(".", 1)[-1] in helpers:
                ok = any(labels(st, a.id) for a in [*v.args, *[k.value for k in v.keywords]] if isinstance(a, ast.Name) and a.id in errs)
            else:
                behind = {x for k in v.keywords if k.arg in ("header", "detail") for x in _text_sources(k.value, f.node)}
                ok = all(behind & grp for grp in need)
            if not ok:
                bad.append(f"{norm(st)[:60]} @ line {getattr(st, 'lineno', 0)}")
    return bad, n


def _handed_on(ix: Any, f: Any, callee: str, kw: str, depth: int = 2) -> "list[ast.AST] | None":
    """what `callee` is handed as `kw=` wherever the region of f calls it, in the terms of f: the argument itself when f makes the
    call; when a private helper of f makes it and passes on one of its own parameters, what f hands the helper for that parameter.
    None when the region holds no such call."""
    calls = [c for c in _own_walk(f.node) if isinstance(c, ast.Call) and call_name(c) == callee]
    if calls:
        return [k.value for c in calls for k in c.keywords if k.arg == kw]
    if depth <= 0:
        return None
    found: "list[ast.AST] | None" = None
    for g in region(ix, f, depth=1):
        if g is f:
            continue
        inner = _handed_on(ix, g, callee, kw, depth - 1)
        if inner is None:
            continue
        found = found or []
        gp = {x.arg for x in g.params}
        for c in _own_walk(f.node):
            if isinstance(c, ast.Call) and call_name(c).rsplit(".", 1)[-1] == g.name:
                env = _bind_call(g, c)
                found += [env[v.id] for v in inner if isinstance(v, ast.Name) and v.id in gp and v.id in env and v.id not in Locals(g.node).defs]
    return found


def _method_loops(f: Any) -> list[ast.For]:
    """the loops of f whose variable selects the operation from the path item: the attribute name handed to getattr"""
    return [lp for lp in _own_walk(f.node) if isinstance(lp, ast.For) and isinstance(lp.target, ast.Name) and any(
        isinstance(c, ast.Call) and call_name(c) == "getattr" and len(c.args) >= 2 and norm(c.args[1]) == lp.target.id for c in ast.walk(lp))]


def _operation_roles(ix: Any, f: Any, depth: int = 2) -> tuple[set[str], set[str]]:
    """(names of f that hold the path, names of f that hold the method) of the operation an iteration is about.  The path is the key
    the loop over the path items yields, the method is the loop variable that selects the operation from the path item (getattr).
    A loop over what a private generator helper yields goes through the same operations: the position at which every `yield` of the
    helper hands on its own path / method is where the loop receives them."""
    T = _DocTypes(ix, f)
    path_names: set[str] = set()
    method_names: set[str] = {lp.target.id for lp in _method_loops(f)}
    helpers = {g.name: g for g in region(ix, f, depth=1) if g is not f} if depth > 0 else {}
    for lp in _own_walk(f.node):
        if not isinstance(lp, ast.For):
            continue
        if "PathItem" in T.of(lp.iter):
            if isinstance(lp.target, ast.Tuple) and lp.target.elts and isinstance(lp.iter, ast.Call) and isinstance(lp.iter.func, ast.Attribute) \
                    and lp.iter.func.attr == "items":
                path_names |= _targets(lp.target.elts[0])
            elif isinstance(lp.target, ast.Name) and not (isinstance(lp.iter, ast.Call) and isinstance(lp.iter.func, ast.Attribute) and lp.iter.func.attr == "values"):
                path_names.add(lp.target.id)
        it = lp.iter
        while isinstance(it, ast.Call) and call_name(it) in _ELEMENTWISE - {"enumerate"} and len(it.args) == 1:
            it = it.args[0]
        g = helpers.get(call_name(it).rsplit(".", 1)[-1]) if isinstance(it, ast.Call) else None
        if g is None:
            continue
        yields = [y.value for y in _own_walk(g.node) if isinstance(y, ast.Yield)]
        if not yields or any(isinstance(y, ast.YieldFrom) for y in _own_walk(g.node)):
            continue
        gp, gm = _operation_roles(ix, g, depth - 1)
        if isinstance(lp.target, ast.Tuple) and all(isinstance(y, ast.Tuple) and len(y.elts) == len(lp.target.elts) for y in yields):
            for i, t in enumerate(lp.target.elts):
                if isinstance(t, ast.Name):
                    if all(isinstance(y.elts[i], ast.Name) and y.elts[i].id in gp for y in yields):
                        path_names.add(t.id)
                    if all(isinstance(y.elts[i], ast.Name) and y.elts[i].id in gm for y in yields):
                        method_names.add(t.id)
        elif isinstance(lp.target, ast.Name):
            if all(isinstance(y, ast.Name) and y.id in gp for y in yields):
                path_names.add(lp.target.id)
            if all(isinstance(y, ast.Name) and y.id in gm for y in yields):
                method_names.add(lp.target.id)
    return path_names, method_names


def _unlabelled_endpoint_errors(ix: Any, fd: Any, cfgs: dict[str, CFG]) -> tuple[list[str], int]:
    """(errors attached to a collection's parse_errors whose header was not computed from the method and the path, number of attachments).
    Method and path are found by role: the path is the key the loop over the path items yields, the method is the loop variable that
    selects the operation from the path item (getattr)."""
    path_names, method_names = _operation_roles(ix, fd)

    def labelled(v: ast.AST) -> bool:
        behind = _text_sources(v, fd.node)
        return bool(behind & path_names) and bool(behind & method_names)

    cfg = cfg_of(fd, cfgs)
    helpers = {g.name: g for g in region(ix, fd, depth=1) if g is not fd}

    def sets_header(n: object, who: str) -> bool:
        """statement n gives the error held by local `who` its header, computed from method and path"""
        return _writes_label(fd.node, helpers, n, who, [path_names, method_names])

    bad: list[str] = []
    n = 0
    for st in cfg.stmts():
        attached: list[ast.AST] = []
        for c in walk_own(st):
            if not isinstance(c, ast.Call):
                continue
            if isinstance(c.func, ast.Attribute) and c.func.attr in ("append", "extend") and isinstance(c.func.value, ast.Attribute) and \
                    c.func.value.attr == "parse_errors" and c.args:
                attached.append(c.args[0])
            g = helpers.get(call_name(c).rsplit(".", 1)[-1])
            if g is not None:
                gp = {x.arg for x in g.params}
                for m in ast.walk(g.node):
                    if isinstance(m, ast.Call) and isinstance(m.func, ast.Attribute) and m.func.attr in ("append", "extend") and \
                            isinstance(m.func.value, ast.Attribute) and m.func.value.attr == "parse_errors" and m.args and \
                            isinstance(m.args[0], ast.Name) and m.args[0].id in gp and m.args[0].id in _bind_call(g, c):
                        attached.append(_bind_call(g, c)[m.args[0].id])
        for e in attached:
            n += 1
            if isinstance(e, ast.Name):
                ok = sets_header(st, e.id) or cfg.is_dominated_by(st, lambda x, who=e.id: sets_header(x, who))
            else:
                ok = labelled(e)
            if not ok:
                bad.append(f"{norm(st)[:60]} @ line {getattr(st, 'lineno', 0)}")
    return bad, n


# ---- loops over document collections, found by what they iterate -------------------------------------------------------------------
def _own_walk(node: ast.AST) -> Any:
    """ast.walk that does not enter nested function definitions (they are analysed as functions of their own)"""
    stack = [node]
    while stack:
        n = stack.pop()
        yield n
        for c in ast.iter_child_nodes(n):
            if isinstance(c, (ast.FunctionDef, ast.AsyncFunctionDef, ast.Lambda, ast.ClassDef)):
                continue
            stack.append(c)


def _targets(t: ast.AST) -> set[str]:
    return {n.id for n in ast.walk(t) if isinstance(n, ast.Name)}


class _DocTypes:
    """Which classes of the document model (the `schema` package) an expression of f can hold or contain, from annotations only:
    parameters, annotated locals, return annotations of the functions called, declared fields of the document classes.  Containers
    are flattened (`dict[str, PathItem]` and its items both read {PathItem}): enough to tell *what* a loop goes through."""

    def __init__(self, ix: Any, f: Any) -> None:
        self.ix, self.f = ix, f
        if not hasattr(ix, "_c07_doc"):
            names: set[str] = set()
            classes: dict[str, Any] = {}
            for name, m in ix.modules.items():
                if name == f"{PKG}.schema" or name.startswith(f"{PKG}.schema."):
                    names |= set(m.classes) | set(m.variables) | set(m.var_ann)
                    classes.update(m.classes)
            ix._c07_doc = (names, classes)
        self.names, self.classes = ix._c07_doc
        a = f.node.args
        self.params = {x.arg: x.annotation for x in [*a.posonlyargs, *a.args, *a.kwonlyargs]}
        self.annotated = {n.target.id: n.annotation for n in _own_walk(f.node) if isinstance(n, ast.AnnAssign) and isinstance(n.target, ast.Name)}
        self.lc = Locals(f.node)

    def mentions(self, ann: ast.AST | None, module: Any = None) -> frozenset[str]:
        if ann is None:
            return frozenset()
        module = module or self.f.module
        if isinstance(ann, ast.Constant) and isinstance(ann.value, str):
            try:
                ann = ast.parse(ann.value, mode="eval").body
            except SyntaxError:
                return frozenset()
        out = set()
        in_schema = module.name == f"{PKG}.schema" or module.name.startswith(f"{PKG}.schema.")
        for n in ast.walk(ann):
            if isinstance(n, ast.Attribute) and n.attr in self.names and isinstance(n.value, ast.Name) and \
                    module.imports.get(n.value.id, "").startswith(f"{PKG}.schema"):
                out.add(n.attr)
            elif isinstance(n, ast.Name) and n.id in self.names and (in_schema or module.imports.get(n.id, "").startswith(f"{PKG}.schema")):
                out.add(n.id)
            elif isinstance(n, ast.Constant) and isinstance(n.value, str) and n is not ann:
                out |= self.mentions(n, module)
        return frozenset(out)

    def _field(self, cname: str, attr: str) -> frozenset[str]:
        c = self.classes.get(cname)
        if c is None:
            return frozenset()
        ann = self.ix.all_fields(c).get(attr)
        return self.mentions(ann, c.module)

    def _returned(self, call: ast.Call, idx: int | None) -> frozenset[str]:
        last = call_name(call).rsplit(".", 1)[-1]
        out: set[str] = set()
        for g in self.ix.all_functions:
            if g.name != last or g.node.returns is None:
                continue
            r = g.node.returns
            if isinstance(r, ast.Constant) and isinstance(r.value, str):
                try:
                    r = ast.parse(r.value, mode="eval").body
                except SyntaxError:
                    continue
            if idx is not None and isinstance(r, ast.Subscript) and norm(r.value) in ("tuple", "Tuple") and isinstance(r.slice, ast.Tuple) \
                    and idx < len(r.slice.elts):
                r = r.slice.elts[idx]
            out |= self.mentions(r, g.module)
        return frozenset(out)

    def of(self, e: ast.AST | None, depth: int = 5) -> frozenset[str]:
        if e is None or depth <= 0:
            return frozenset()
        if isinstance(e, ast.Name):
            if e.id in self.params:
                return self.mentions(self.params[e.id])
            if e.id in self.annotated and self.mentions(self.annotated[e.id]):
                return self.mentions(self.annotated[e.id])
            out: set[str] = set()
            for kind, _, v in self.lc.defs.get(e.id, []):
                idx = int(kind[kind.index("[") + 1:kind.index("]")]) if "[" in kind else None
                if kind.startswith("assign") and isinstance(v, ast.Call) and not self._transparent(v):
                    out |= self._returned(v, idx)
                elif kind.startswith(("assign", "for")):
                    out |= self.of(v, depth - 1)
            return frozenset(out)
        if isinstance(e, ast.Attribute):
            return frozenset(x for c in self.of(e.value, depth) for x in self._field(c, e.attr))
        if isinstance(e, (ast.Subscript, ast.Starred)):
            return self.of(e.value, depth)
        if isinstance(e, ast.BoolOp):
            return frozenset(x for v in e.values for x in self.of(v, depth))
        if isinstance(e, ast.IfExp):
            return self.of(e.body, depth) | self.of(e.orelse, depth)
        if isinstance(e, ast.Call):
            if isinstance(e.func, ast.Attribute) and e.func.attr in _VIEWS:
                return self.of(e.func.value, depth)
            if call_name(e) in _ELEMENTWISE:
                return frozenset(x for a_ in e.args for x in self.of(a_, depth))
            if call_name(e) == "getattr" and e.args:
                return frozenset(x for c in self.of(e.args[0], depth) if c in self.classes
                                 for ann in self.ix.all_fields(self.classes[c]).values() for x in self.mentions(ann, self.classes[c].module))
            return self._returned(e, None)
        return frozenset()

    @staticmethod
    def _transparent(c: ast.Call) -> bool:
        return (isinstance(c.func, ast.Attribute) and c.func.attr in _VIEWS) or call_name(c) in _ELEMENTWISE or call_name(c) == "getattr"

    def sources(self, e: ast.AST, depth: int = 4, idx: int | None = None) -> list[tuple[ast.AST, int | None]]:
        """what the iterable is, behind views (.items()), element-wise wrappers (enumerate) and the locals it was bound to:
        (expression, position in the tuple it was unpacked from)"""
        if isinstance(e, ast.Call) and self._transparent(e) and call_name(e) != "getattr":
            inner = [e.func.value] if isinstance(e.func, ast.Attribute) and e.func.attr in _VIEWS else list(e.args)
            return [x for i in inner for x in self.sources(i, depth, idx)]
        if isinstance(e, ast.BoolOp):
            return [x for v in e.values for x in self.sources(v, depth, idx)]
        if isinstance(e, ast.Name) and e.id not in self.params and depth > 0:
            out = []
            for kind, _, v in self.lc.defs.get(e.id, []):
                if kind.startswith("assign") and v is not None:
                    i = int(kind[kind.index("[") + 1:kind.index("]")]) if "[" in kind else None
                    out += self.sources(v, depth - 1, i)
            return out or [(e, idx)]
        return [(e, idx)]


_CONTAINERS = ("dict", "Dict", "list", "List", "Mapping", "Sequence", "Iterable", "Optional", "Union", "set", "Set", "tuple", "Tuple")


def _is_collection_annotation(ann: ast.AST | None) -> bool:
    """dict[...] / list[...] / Iterable[...] (possibly Optional): the parameter *is* a collection, not an object that has one"""
    if isinstance(ann, ast.Subscript):
        head = norm(ann.value).rsplit(".", 1)[-1]
        if head in ("Optional", "Union"):
            parts = ann.slice.elts if isinstance(ann.slice, ast.Tuple) else [ann.slice]
            return any(_is_collection_annotation(p_) for p_ in parts)
        return head in _CONTAINERS
    if isinstance(ann, ast.BinOp) and isinstance(ann.op, ast.BitOr):
        return _is_collection_annotation(ann.left) or _is_collection_annotation(ann.right)
    return False


# The items the property enumerates, each recognised by what the loop goes through (classes / aliases / attributes of the document
# model, never the function the loop happens to live in).
# registries whose entries are items the property enumerates (component schemas, keyed by their reference in the document)
ACCOUNTED_REGISTRIES = {"classes_by_reference"}


def _removals(fn: ast.AST, regs: set[str]) -> list[tuple[ast.stmt, str, ast.expr]]:
    """(statement, registry, key) of every `del <...>.reg[K]` / `<...>.reg.pop(K)` in fn"""
    out = []
    for st in _own_walk(fn):
        if isinstance(st, ast.Delete):
            for t in st.targets:
                if isinstance(t, ast.Subscript) and isinstance(t.value, ast.Attribute) and t.value.attr in regs:
                    out.append((st, t.value.attr, t.slice))
        elif isinstance(st, ast.stmt):
            for c in walk_own(st):
                if isinstance(c, ast.Call) and isinstance(c.func, ast.Attribute) and c.func.attr in ("pop", "popitem") and \
                        isinstance(c.func.value, ast.Attribute) and c.func.value.attr in regs and c.args:
                    out.append((st, c.func.value.attr, c.args[0]))
    return out


def _text_calls(e: "ast.AST | None", fn: ast.AST, depth: int = 4, _seen: "set[str] | None" = None) -> list[ast.Call]:
    """the calls whose result (its elements, when it is gone through by a loop or a comprehension) goes, as text, into the string e:
    through f-strings, + and %, `x or ""`, conditional expressions, string methods (sep.join(...)), str(), comprehensions (their
    variable stands for what they go through), `for` variables, and the locals bound to such expressions"""
    seen = _seen if _seen is not None else set()
    if e is None or depth < 0:
        return []
    if isinstance(e, ast.JoinedStr):
        return [x for v in e.values if isinstance(v, ast.FormattedValue) for x in _text_calls(v.value, fn, depth, seen)]
    if isinstance(e, ast.BinOp) and isinstance(e.op, (ast.Add, ast.Mod)):
        return _text_calls(e.left, fn, depth, seen) + _text_calls(e.right, fn, depth, seen)
    if isinstance(e, ast.BoolOp):
        return [x for v in e.values for x in _text_calls(v, fn, depth, seen)]
    if isinstance(e, ast.IfExp):
        return _text_calls(e.body, fn, depth, seen) + _text_calls(e.orelse, fn, depth, seen)
    if isinstance(e, (ast.Tuple, ast.List, ast.Starred)):
        return [x for el in (e.elts if not isinstance(e, ast.Starred) else [e.value]) for x in _text_calls(el, fn, depth, seen)]
    if isinstance(e, (ast.ListComp, ast.GeneratorExp, ast.SetComp)):
        own = {n for g in e.generators for n in _targets(g.target)}
        out = [x for x in _text_calls(e.elt, fn, depth, seen)]
        if names_in(e.elt) & own:
            out += [x for g in e.generators for x in _text_calls(g.iter, fn, depth, seen)]
        return out
    if isinstance(e, ast.Call):
        args = [*e.args, *[k.value for k in e.keywords]]
        if isinstance(e.func, ast.Attribute) and e.func.attr in ("join", "format", "upper", "lower", "strip", "title", "replace"):
            return _text_calls(e.func.value, fn, depth, seen) + [x for a in args for x in _text_calls(a, fn, depth, seen)]
        if call_name(e) in {"str", "repr", "format"} | (_ELEMENTWISE - {"enumerate"}):
            return [x for a in args for x in _text_calls(a, fn, depth, seen)]
        return [e]
    if isinstance(e, ast.Name) and e.id not in seen:
        seen.add(e.id)
        out = []
        for kind, st, v in Locals(fn).defs.get(e.id, []):
            if kind in ("assign", "aug") or kind.startswith("for"):
                out += _text_calls(v, fn, depth - 1, seen)
        return out
    return []


def _calls_of(ix: Any, f: Any) -> list[tuple[Any, ast.Call]]:
    """(function, call) for every call in the package that can be a call of f: by its name, on a receiver that can be an instance
    of its class (see _may_denote)"""
    out = []
    for h in ix.all_functions:
        if not h.module.name.startswith(PKG):
            continue
        for c in _own_walk(h.node):
            if isinstance(c, ast.Call) and call_name(c).rsplit(".", 1)[-1] == f.name and _may_denote(ix, h, c, [f]):
                if f.cls is not None and isinstance(c.func, ast.Attribute):
                    known = receiver_classes(ix, h, c.func.value)
                    if known and not any(k.name in known and f.cls in ix.mro(k) for k in ix.classes.values()):
                        continue
                out.append((h, c))
    return out


def _hands_on(n: object, what: Any) -> bool:
    """statement n yields / returns a value for which what(value) holds"""
    if isinstance(n, ast.Return):
        return n.value is not None and what(n.value)
    return isinstance(n, ast.stmt) and any(isinstance(y, (ast.Yield, ast.YieldFrom)) and y.value is not None and what(y.value) for y in walk_own(n))


def _received_is_named(ix: Any, h: Any, c: ast.Call, cfgs: dict[str, CFG], depth: int = 2) -> bool:
    """whatever call c (in h) returns / yields ends up in the text of an error: h hands it on as it is (`return c` / `yield from c`,
    and the callers of h are asked in turn), or - on every path from the call to the end of h on which the call delivered anything -
    h writes a string computed from it into a text attribute of an error"""
    st = next((s_ for s_ in cfg_of(h, cfgs).stmts() if any(x is c for x in walk_own(s_))), None)
    if st is None:
        return False
    if _hands_on(st, lambda v: _through_copies(v) is c):
        sites = [(g, c2) for g, c2 in _calls_of(ix, h) if g is not h]
        return depth > 0 and bool(sites) and all(_received_is_named(ix, g, c2, cfgs, depth - 1) for g, c2 in sites)
    cfg = cfg_of(h, cfgs)
    errs = error_names(h.node) | {x.arg for x in h.params if x.annotation is not None and norm(x.annotation).strip("'\"").rsplit(".", 1)[-1] in ERROR_CLASSES}

    def writes(n: object) -> bool:
        if not isinstance(n, (ast.Assign, ast.AugAssign)):
            return False
        tgts = n.targets if isinstance(n, ast.Assign) else [n.target]
        return any(isinstance(t, ast.Attribute) and isinstance(t.value, ast.Name) and t.value.id in errs for t in tgts) and \
            any(x is c for x in _text_calls(n.value, h.node))

    # locals that hold (text made of) what the call delivered: empty when it delivered nothing
    lc = Locals(h.node)
    derived = {name for name in lc.defs if any(x is c for x in _text_calls(ast.Name(id=name, ctx=ast.Load()), h.node))}

    def only_when_delivered(n: object) -> "list[object] | None":
        """the successors of n that are taken when the call delivered something (None: all of them)"""
        if isinstance(n, ast.If):
            t, pos = n.test, True
            while isinstance(t, ast.UnaryOp) and isinstance(t.op, ast.Not):
                t, pos = t.operand, not pos
            if isinstance(t, ast.Name) and t.id in derived:
                return [n.body[0]] if pos else ([n.orelse[0]] if n.orelse else [x for x in cfg.succ.get(n, ()) if x is not n.body[0]])
        return None

    # every path from the call to the end passes the write; a loop over what was delivered is entered at least once
    first_for = {id(n) for n in cfg.stmts() if isinstance(n, ast.For) and any(x is c for x in _text_calls(n.iter, h.node))}
    seen: set[tuple[int, bool]] = set()
    stack: list[tuple[object, bool]] = [(st, False)]
    while stack:
        n, again = stack.pop()
        if (id(n), again) in seen:
            continue
        seen.add((id(n), again))
        if n == "EXIT":
            return False
        if writes(n):
            continue
        succ = list(cfg.succ.get(n, ()))
        if id(n) in first_for and not again and n.body:  # type: ignore[attr-defined]
            succ = [n.body[0]]  # type: ignore[attr-defined]
        else:
            succ = only_when_delivered(n) or succ
        for x in succ:
            stack.append((x, id(x) in first_for and id(x) in {i for i, _ in seen}))
    return True


def _key_handed_to_diagnostic(ix: Any, f: Any, st: ast.stmt, key: ast.expr, cfgs: dict[str, CFG]) -> bool:
    """the removal `st` of `key` in f is accounted for by f's callers: every path from the removal to the end of f yields / returns
    the key, and every caller of f in the package names what it receives (_received_is_named); a call of f inside f (the cascade)
    whose result f hands on as it is goes to the same callers"""
    cfg = cfg_of(f, cfgs)
    k = norm(key)
    if not cfg.every_path_passes(st, "EXIT", lambda n: _hands_on(n, lambda v: norm(v) == k)):
        return False
    sites = _calls_of(ix, f)
    outside = [(h, c) for h, c in sites if h is not f]
    for h, c in sites:
        if h is f:
            own = next((s_ for s_ in cfg.stmts() if any(x is c for x in walk_own(s_))), None)
            if own is None or not _hands_on(own, lambda v, c=c: _through_copies(v) is c):
                return False
    return bool(outside) and all(_received_is_named(ix, h, c, cfgs) for h, c in outside)


OPERATIONS, SCHEMAS, STATUSES, MEDIA = "operations", "component schemas", "response statuses", "request media types"
ENUMERATED = (OPERATIONS, SCHEMAS, STATUSES, MEDIA)
WORK_LISTS = {"models_to_process": SCHEMAS}  # attribute holding items that await a further pass


def _classify(lp: ast.For, T: _DocTypes, accumulators: dict[str, dict[int | None, str]]) -> str | None:
    held = T.of(lp.iter)
    tg = _targets(lp.target)
    if "PathItem" in held:
        return OPERATIONS
    for s in lp.body:
        for c in _own_walk(s):
            if isinstance(c, ast.Call) and call_name(c) == "getattr" and len(c.args) >= 2 and isinstance(c.args[1], ast.Name) and \
                    c.args[1].id in tg and "PathItem" in T.of(c.args[0]):
                return OPERATIONS
    if "Responses" in held:
        return STATUSES
    for src, idx in T.sources(lp.iter):
        if isinstance(src, ast.Attribute) and src.attr == "content" and "RequestBody" in T.of(src.value):
            return MEDIA
        if isinstance(src, ast.Attribute) and src.attr in WORK_LISTS:
            return WORK_LISTS[src.attr]
        if isinstance(src, ast.Name) and src.id in T.params and _is_collection_annotation(T.params[src.id]):
            m = T.mentions(T.params[src.id])
            if "Schema" in m:
                return SCHEMAS
            if m:
                return "components: " + "/".join(sorted(m - {"Reference", "ReferenceOr"}))
        if isinstance(src, ast.Call):
            acc = accumulators.get(call_name(src).rsplit(".", 1)[-1], {})
            if idx in acc:
                return acc[idx]
            if None in acc and idx is None:
                return acc[None]
    if "Parameter" in held:
        return "parameters"
    return None


# ---- comprehensions are loops ---------------------------------------------------------------------------------------------------------
_COMPS = (ast.ListComp, ast.SetComp, ast.GeneratorExp, ast.DictComp)
_ACC = "<collected>"  # the name of the result of a comprehension that is not bound to a local of its own (cannot clash: not an identifier)


def _blocks(fn: ast.AST) -> Any:
    """every statement list of fn (nested function definitions excluded)"""
    for n in _own_walk(fn):
        for fld in ("body", "orelse", "finalbody"):
            b = getattr(n, fld, None)
            if isinstance(b, list) and b and isinstance(b[0], ast.stmt):
                yield b
        for h in getattr(n, "handlers", []) or []:
            yield h.body
        for c in getattr(n, "cases", []) or []:
            yield c.body


def _inlinable(g: ast.AST) -> bool:
    """the body of g can stand where g is called once per item: it is not a generator, does not call itself, and never returns
    from inside a loop of its own (a `return` becomes "this is the item's outcome; next item")"""
    if not isinstance(g, (ast.FunctionDef,)) or g.args.vararg or g.args.kwarg:
        return False
    for n in _own_walk(g):
        if isinstance(n, (ast.Yield, ast.YieldFrom, ast.Await)):
            return False
        if isinstance(n, ast.Call) and call_name(n).rsplit(".", 1)[-1] == g.name:
            return False
        if isinstance(n, (ast.For, ast.While, ast.AsyncFor)) and any(isinstance(r, ast.Return) for s_ in n.body + n.orelse for r in _own_walk(s_)):
            return False
    return True


def _as_loop(comp: ast.AST, acc: str, callee: "tuple[Any, dict[str, ast.AST]] | None") -> ast.For:
    """`[E for T in IT if C]` as the loop it abbreviates: `for T in IT: if not C: continue; acc.append(E)`.  When E is the result
    of a local function / private helper called once per item (callee = its definition and the binding of its parameters), the body
    of that function stands for the call: its parameters are bound, each `return X` reads `acc.append(X); continue`."""
    import copy

    def at(n: ast.AST) -> ast.AST:
        return ast.fix_missing_locations(ast.copy_location(n, comp))

    def collect(v: "ast.AST | None", like: ast.AST) -> ast.stmt:
        call = ast.Call(func=ast.Attribute(value=ast.Name(id=acc, ctx=ast.Load()), attr="append", ctx=ast.Load()),
                        args=[v if v is not None else ast.Constant(value=None)], keywords=[])
        return ast.fix_missing_locations(ast.copy_location(ast.Expr(value=call), like))

    elt = ast.Tuple(elts=[comp.key, comp.value], ctx=ast.Load()) if isinstance(comp, ast.DictComp) else comp.elt
    if callee is None:
        body: list[ast.stmt] = [collect(copy.deepcopy(elt), comp)]
    else:
        g, env = callee
        body = []
        a = g.args
        params = [*a.posonlyargs, *a.args, *a.kwonlyargs]
        defaults = dict(zip([x.arg for x in [*a.posonlyargs, *a.args]][::-1], a.defaults[::-1]))
        defaults.update({x.arg: d for x, d in zip(a.kwonlyargs, a.kw_defaults) if d is not None})
        for x in params:
            v = env.get(x.arg, defaults.get(x.arg))
            if v is not None and not (isinstance(v, ast.Name) and v.id == x.arg):
                body.append(at(ast.Assign(targets=[ast.Name(id=x.arg, ctx=ast.Store())], value=copy.deepcopy(v))))

        class R(ast.NodeTransformer):
            def visit_FunctionDef(self, n: ast.FunctionDef) -> ast.AST:
                return n

            visit_AsyncFunctionDef = visit_Lambda = visit_ClassDef = visit_FunctionDef  # type: ignore[assignment]

            def visit_Return(self, n: ast.Return) -> Any:
                return [collect(n.value, n), ast.copy_location(ast.Continue(), n)]

            def visit_Nonlocal(self, n: ast.Nonlocal) -> Any:
                return None  # once the body stands in the enclosing function, its variables are that function's own

            visit_Global = visit_Nonlocal  # type: ignore[assignment]

        for st in g.body:
            if isinstance(st, ast.Expr) and isinstance(st.value, ast.Constant) and isinstance(st.value.value, str):
                continue  # docstring
            r = R().visit(copy.deepcopy(st))
            body += r if isinstance(r, list) else ([r] if r is not None else [])
    loop: "ast.For | None" = None
    for gen in reversed(comp.generators):
        inner: list[ast.stmt] = [loop] if loop is not None else body
        for c in reversed(gen.ifs):
            inner.insert(0, at(ast.If(test=ast.UnaryOp(op=ast.Not(), operand=copy.deepcopy(c)), body=[at(ast.Continue())], orelse=[])))
        loop = at(ast.For(target=copy.deepcopy(gen.target), iter=copy.deepcopy(gen.iter), body=inner, orelse=[]))
        for n in ast.walk(loop.target):
            if isinstance(n, ast.Name):
                n.ctx = ast.Store()
    assert loop is not None
    return loop


def _comprehensions_as_loops(ix: Any, f: Any, classify: Any) -> Any:
    """f with every comprehension that goes through items of the document (classify(probe loop) is not None) written as the loop it
    abbreviates - the function itself when there is none.  `xs = [E for ...]` becomes `xs = []; for ...: xs.append(E)`; a
    comprehension inside a larger expression is collected, just before the statement it occurs in, into a list of its own."""
    import copy
    import dataclasses

    def outermost(fn: ast.AST) -> list[ast.AST]:
        out, stack = [], [fn]
        while stack:
            n = stack.pop()
            for c in ast.iter_child_nodes(n):
                if isinstance(c, (ast.FunctionDef, ast.AsyncFunctionDef, ast.Lambda, ast.ClassDef)):
                    continue
                if isinstance(c, _COMPS):
                    out.append(c)
                else:
                    stack.append(c)
        return out

    def probe(c: ast.AST) -> ast.For:
        elt = c.value if isinstance(c, ast.DictComp) else c.elt
        return ast.For(target=c.generators[0].target, iter=c.generators[0].iter, body=[ast.Expr(value=elt)], orelse=[])

    if not any(classify(probe(c)) is not None for c in outermost(f.node)):
        return f
    node = copy.deepcopy(f.node)
    g2 = dataclasses.replace(f, node=node)
    helpers = {h.name: h.node for h in region(ix, f, depth=1) if h is not f}
    closures = {n.name: n for n in ast.walk(node) if isinstance(n, ast.FunctionDef) and n is not node}
    inlined: set[str] = set()
    for c in outermost(node):
        if classify(probe(c)) is None:
            continue
        st = next((s_ for b in _blocks(node) for s_ in b if any(x is c for x in walk_own(s_))), None)
        blk = next((b for b in _blocks(node) if any(s_ is st for s_ in b)), None)
        if st is None or blk is None:
            continue
        elt = c.value if isinstance(c, ast.DictComp) else c.elt
        callee = None
        if isinstance(elt, ast.Call) and not any(isinstance(a_, ast.Starred) for a_ in elt.args) and not any(k.arg is None for k in elt.keywords):
            last = call_name(elt).rsplit(".", 1)[-1]
            gdef = closures.get(last) if isinstance(elt.func, ast.Name) else None
            gdef = gdef or helpers.get(last)
            if gdef is not None and _inlinable(gdef):
                a = gdef.args
                pos = [x.arg for x in [*a.posonlyargs, *a.args]]
                if pos and pos[0] in ("self", "cls") and not isinstance(elt.func, ast.Name):
                    pos = pos[1:]
                env: dict[str, ast.AST] = dict(zip(pos, elt.args))
                env.update({k.arg: k.value for k in elt.keywords if k.arg})
                callee = (gdef, env)
                if last in closures and gdef is closures[last]:
                    inlined.add(last)
        whole = isinstance(st, (ast.Assign, ast.AnnAssign)) and st.value is c and isinstance(c, ast.ListComp) and \
            isinstance(st.targets[0] if isinstance(st, ast.Assign) else st.target, ast.Name)
        acc = (st.targets[0] if isinstance(st, ast.Assign) else st.target).id if whole else _ACC
        init = ast.fix_missing_locations(ast.copy_location(ast.Assign(targets=[ast.Name(id=acc, ctx=ast.Store())], value=ast.List(elts=[], ctx=ast.Load())), st))
        loop = _as_loop(c, acc, callee)
        i = next(i for i, s_ in enumerate(blk) if s_ is st)
        blk[i:i + (1 if whole else 0)] = [init, loop]
    # a local function whose body now stands where it was called is not defined a second time
    for b in _blocks(node):
        b[:] = [s_ for s_ in b if not (isinstance(s_, ast.FunctionDef) and s_.name in inlined and not any(
            isinstance(x, ast.Name) and x.id == s_.name for x in ast.walk(node) if x is not s_))] or [ast.copy_location(ast.Pass(), node)]
    return g2


def document_loops(ix: Any) -> dict[Any, dict[ast.For, str]]:
    """function -> its `for` statements that go through items of the document, each with the kind of item.  A loop is recognised by what
    it iterates: a value whose declared type is a collection of the document model (path items and the operation fields selected from
    them, `Responses`, the `content` of a request body, a collection parameter of schemas / parameters), a work list of such items,
    or the list of outcomes that another function accumulated while going through one of these (one outcome per item)."""
    if hasattr(ix, "_c07_loops"):
        return ix._c07_loops
    funcs = [f for f in ix.all_functions if f.module.name.startswith(f"{PKG}.parser") or f.module.name == PKG]
    out: dict[Any, dict[ast.For, str]] = {}
    accumulators: dict[str, dict[int | None, str]] = {}
    for _ in range(3):  # outcomes of outcomes: a short chain, until nothing new is found
        before = (sum(len(v) for v in out.values()), sum(len(v) for v in accumulators.values()))
        for i_f, f in enumerate(funcs):
            T = _DocTypes(ix, f)
            f2 = _comprehensions_as_loops(ix, f, lambda lp, T=T: _classify(lp, T, accumulators))
            if f2 is not f:
                # the function is read in its loop form from here on (same qualified name, another tree)
                out.pop(f, None)
                funcs[i_f] = f = f2
                T = _DocTypes(ix, f)
            for lp in [n for n in _own_walk(f.node) if isinstance(n, ast.For)]:
                if lp in out.get(f, {}):
                    continue
                kind = _classify(lp, T, accumulators)
                if kind is not None:
                    out.setdefault(f, {})[lp] = kind
            # lists this function fills inside such a loop and returns
            for lp, kind in out.get(f, {}).items():
                filled = {norm(c.func.value) for s in lp.body for c in _own_walk(s) if isinstance(c, ast.Call) and
                          isinstance(c.func, ast.Attribute) and c.func.attr in ("append", "extend") and isinstance(c.func.value, ast.Name)}
                for r in _own_walk(f.node):
                    if isinstance(r, ast.Return) and r.value is not None:
                        if isinstance(r.value, ast.Name) and r.value.id in filled:
                            accumulators.setdefault(f.name, {})[None] = kind
                        if isinstance(r.value, ast.Tuple):
                            for i, el in enumerate(r.value.elts):
                                if isinstance(el, ast.Name) and el.id in filled:
                                    accumulators.setdefault(f.name, {})[i] = kind
        if before == (sum(len(v) for v in out.values()), sum(len(v) for v in accumulators.values())):
            break
    ix._c07_loops = out
    return out


def _error_class_names(f: Any) -> set[str]:
    """parameters of f that hold an error class: declared `type[E]` / `Type[E]` with E one of the error classes, or a type variable
    of the module whose bound is one"""
    out: set[str] = set()
    for x in f.params:
        ann = x.annotation
        if isinstance(ann, ast.Constant) and isinstance(ann.value, str):
            try:
                ann = ast.parse(ann.value, mode="eval").body
            except SyntaxError:
                continue
        if not (isinstance(ann, ast.Subscript) and norm(ann.value).rsplit(".", 1)[-1] in ("type", "Type")):
            continue
        e = ann.slice
        if isinstance(e, ast.Name) and e.id in f.module.variables:
            tv = f.module.variables[e.id]
            if isinstance(tv, ast.Call) and call_name(tv).rsplit(".", 1)[-1] == "TypeVar":
                e = next((k.value for k in tv.keywords if k.arg == "bound"), e)
                if isinstance(e, ast.Constant) and isinstance(e.value, str):
                    e = ast.Name(id=e.value.rsplit(".", 1)[-1], ctx=ast.Load())
        if (dotted_name(e) or "").rsplit(".", 1)[-1] in ERROR_CLASSES:
            out.add(x.arg)
    return out


def _is_error_type(t: ast.AST) -> bool:
    parts = t.elts if isinstance(t, ast.Tuple) else [t]
    return bool(parts) and all((dotted_name(x) or "").rsplit(".", 1)[-1] in ERROR_CLASSES for x in parts)


def dotted_name(e: ast.AST) -> str:
    if isinstance(e, ast.Name):
        return e.id
    if isinstance(e, ast.Attribute):
        return f"{dotted_name(e.value)}.{e.attr}"
    return ""


def _iter_attrs(e: ast.AST, fn: ast.AST, depth: int = 3) -> set[str]:
    """attribute names on the access path of the iterable, through the locals it is bound from"""
    lc = Locals(fn)
    out: set[str] = set()
    seen: set[str] = set()
    frontier = [e]
    for _ in range(depth):
        nxt: list[ast.AST] = []
        for x in frontier:
            for n in ast.walk(x):
                if isinstance(n, ast.Attribute):
                    out.add(n.attr)
                if isinstance(n, ast.Name) and n.id not in seen:
                    seen.add(n.id)
                    nxt += [v for k, _, v in lc.defs.get(n.id, []) if k == "assign" and v is not None]
        frontier = nxt
    return out


def _iteration_helpers(ix: Any, f: Any) -> dict[str, Any]:
    """the private helpers whose effects happen where f calls them: the functions of astutil.region (called by plain name / self. /
    cls. / ClassName.), and the private methods f calls on some other object - a local copy of the object under construction, say -
    resolved by the declared class of the receiver when annotations tell it, else by name when only one private method of the module
    is called so"""
    out = {g.name: g for g in region(ix, f, depth=1) if g is not f}
    for c in _own_walk(f.node):
        if not (isinstance(c, ast.Call) and isinstance(c.func, ast.Attribute)):
            continue
        last = c.func.attr
        if not last.startswith("_") or last.startswith("__") or last in out:
            continue
        cands = [g for g in ix.all_functions if g.name == last and g.cls is not None and g.parent is None and g.module is f.module and g is not f]
        known = receiver_classes(ix, f, c.func.value)
        if known:
            cands = [g for g in cands if any(k.name in known and g.cls in ix.mro(k) for k in ix.classes.values())]
        if len(cands) == 1:
            out[last] = cands[0]
    return out


# ---- what happens to the item on each path through one iteration -------------------------------------------------------------------
class _S:
    """facts that hold on the paths reaching a program point inside one iteration"""
    __slots__ = ("rec", "keep", "pend", "absent", "err", "ok", "none", "errl", "frail", "again")

    def __init__(self, rec: bool = False, keep: bool = False, pend: bool = False, absent: bool = False,
                 err: frozenset = frozenset(), ok: frozenset = frozenset(), none: frozenset = frozenset(), errl: frozenset = frozenset(),
                 frail: bool = False, again: bool = False) -> None:
        self.rec, self.keep, self.pend, self.absent, self.err, self.ok, self.none, self.errl = rec, keep, pend, absent, err, ok, none, errl
        # frail: an error was appended to a list that the enclosing round loop starts afresh; again: the item was queued for the next round
        self.frail, self.again = frail, again

    def key(self) -> tuple:
        return (self.rec, self.keep, self.pend, self.absent, self.err, self.ok, self.none, self.errl, self.frail, self.again)

    def __hash__(self) -> int:
        return hash(self.key())

    def __eq__(self, o: object) -> bool:
        return isinstance(o, _S) and self.key() == o.key()

    def but(self, **kw: Any) -> "_S":
        d = {k: getattr(self, k) for k in self.__slots__}
        d.update(kw)
        return _S(**d)


class _Iteration:
    """Path-sensitive walk over the body of a document loop.  Tracked per path: whether a diagnostic has been recorded (`rec`), whether
    something derived from the item has been stored where it outlives the iteration (`keep`), whether a value is known to be an error
    and has not been recorded since (`pend`), whether the item is known to be an empty slot (`absent`), and which names are known (not)
    to hold an error / None / a non-empty list display with an error in it - so that a test repeated later on the path is decided the
    same way (infeasible branches are not walked) and a loop over `[<the error>]` is known to run, with the error as its element.
    The shape of the code (early continue or nested if/else, which branch comes first) does not matter: only the paths do."""

    def __init__(self, f: Any, loops: dict[ast.For, str]) -> None:
        self.f = f
        self.fn = f.node
        self.loops = loops
        self.errs = error_names(f.node)
        self.lc = Locals(f.node)
        # names that denote an error class: parameters declared `type[E]`, E an error class or a type variable bound to one -
        # calling such a name constructs an error, isinstance(x, <such a name>) asks whether x is one
        self.err_classes = _error_class_names(f)
        self.errs |= {n.args[0].id for n in _own_walk(f.node) if isinstance(n, ast.Call) and call_name(n) == "isinstance" and len(n.args) == 2
                      and isinstance(n.args[0], ast.Name) and isinstance(n.args[1], ast.Name) and n.args[1].id in self.err_classes}
        # collections an item is recorded into, one record each: a local bound to a comprehension of setdefault(...) results
        self.fan_out = set(self.lc.bound_from(lambda v: ".setdefault(" in v and v.startswith("["), "assign"))
        self.ends: dict[int, tuple[ast.AST, set[_S]]] = {}
        self.helpers: dict[str, Any] = {}

    # -- the loop under analysis
    def run(self, lp: ast.For) -> list[tuple[ast.AST, set[_S]]]:
        self.lp = lp
        self.ends = {}
        tg = _targets(lp.target)
        inside = {id(n) for s in lp.body for n in _own_walk(s)}
        # names that carry something of the current item: the loop variables and every local bound, inside the body, from such a name
        dep = set(tg)
        changed = True
        while changed:
            changed = False
            for name, ds in self.lc.defs.items():
                if name in dep:
                    continue
                if any(id(st) in inside and v is not None and names_in(v) & dep for _, st, v in ds):
                    dep.add(name)
                    changed = True
        self.dep = dep
        # names that exist beyond one iteration: parameters and locals with a binding outside the body
        a = self.fn.args
        self.outer = {x.arg for x in [*a.posonlyargs, *a.args, *a.kwonlyargs]} | \
            {name for name, ds in self.lc.defs.items() if any(id(st) not in inside and st is not lp for _, st, _v in ds)}
        # slots: locals only ever bound by selecting, with the loop variable, a field / key of some object
        self.slots = {name for name, ds in self.lc.defs.items() if ds and all(self._selects(v, tg) for _, _, v in ds)}
        self.requeue, self.per_round = _round_structure(self.fn, lp)
        out = self._seq(lp.body, {_S()})
        self._end(lp, out)
        return sorted(self.ends.values(), key=lambda e: (getattr(e[0], "lineno", 0) if e[0] is not lp else 10 ** 9))

    @staticmethod
    def _selects(v: ast.AST | None, tg: set[str]) -> bool:
        if isinstance(v, ast.Call) and call_name(v) == "getattr" and len(v.args) >= 2:
            return isinstance(v.args[1], ast.Name) and v.args[1].id in tg
        if isinstance(v, ast.Call) and isinstance(v.func, ast.Attribute) and v.func.attr == "get" and v.args:
            return isinstance(v.args[0], ast.Name) and v.args[0].id in tg
        if isinstance(v, ast.Subscript):
            return isinstance(v.slice, ast.Name) and v.slice.id in tg
        return False

    def _end(self, at: ast.AST, states: set[_S]) -> None:
        if states:
            self.ends.setdefault(id(at), (at, set()))[1].update(states)

    # -- statements
    def _seq(self, body: list[ast.stmt], states: set[_S]) -> set[_S]:
        for st in body:
            if not states:
                break
            states = self._stmt(st, states)
        return states

    def _stmt(self, st: ast.stmt, states: set[_S]) -> set[_S]:
        if isinstance(st, ast.If):
            t: set[_S] = set()
            e: set[_S] = set()
            for s in states:
                t |= self._refine(st.test, s, True)
                e |= self._refine(st.test, s, False)
            return self._seq(st.body, t) | (self._seq(st.orelse, e) if st.orelse else e)
        if isinstance(st, (ast.Assign, ast.AnnAssign, ast.Return)) and isinstance(st.value, ast.IfExp):
            # `x = A if T else B` is `if T: x = A` / `else: x = B`: the same decision, refined the same way
            import copy

            out_: set[_S] = set()
            for want, arm in ((True, st.value.body), (False, st.value.orelse)):
                half = copy.copy(st)
                half.value = arm
                sub = {x for s in states for x in self._refine(st.value.test, s, want)}
                out_ |= self._stmt(half, sub) if sub else set()
            return out_
        if isinstance(st, (ast.For, ast.AsyncFor, ast.While)):
            return self._inner_loop(st, states)
        if isinstance(st, ast.Try):
            out = self._seq(st.body, states)
            if st.orelse:
                out = self._seq(st.orelse, out)
            for h in st.handlers:
                # the exception may have been raised anywhere in the body: what held before it is all that is known
                out |= self._seq(h.body, {self._kill(s, {h.name} if h.name else set()) for s in states})
            return self._seq(st.finalbody, out) if st.finalbody else out
        if isinstance(st, (ast.With, ast.AsyncWith)):
            return self._seq(st.body, {self._simple(st, s) for s in states})
        if isinstance(st, ast.Match):
            out2: set[_S] = set(states)
            for c in st.cases:
                out2 |= self._seq(c.body, states)
            return out2
        if isinstance(st, ast.Continue):
            self._end(st, states)
            return set()
        if isinstance(st, ast.Break):
            self._end(st, states)
            return set()
        if isinstance(st, ast.Return):
            if returns_error(st, self.errs) or (isinstance(st.value, ast.Name) and any(st.value.id in s.err for s in states)):
                self._end(st, {s.but(rec=True, pend=False) for s in states})
            else:
                self._end(st, states)
            return set()
        if isinstance(st, ast.Raise):
            return set()  # loud: the run stops with an exception
        if isinstance(st, (ast.FunctionDef, ast.AsyncFunctionDef, ast.ClassDef)):
            return states
        return {self._simple(st, s) for s in states}

    def _inner_loop(self, st: ast.stmt, states: set[_S]) -> set[_S]:
        if isinstance(st, ast.For) and st in self.loops:
            # its items are accounted for on their own: for the enclosing iteration the nested document loop is where the item goes
            return {self._kill(s, _targets(st.target)).but(keep=True) for s in states}
        saved_ends = self.ends
        fan = isinstance(st, ast.For) and norm(st.iter) in self.fan_out

        def of_errors(s: _S) -> bool:
            """the loop goes through a list display known (on this path) to hold an error: it runs, and its variable is that error"""
            return isinstance(st, ast.For) and isinstance(st.iter, ast.Name) and st.iter.id in s.errl and isinstance(st.target, ast.Name)

        reached: set[_S] = {s for s in states if not (fan or of_errors(s))}
        exits: set[_S] = set()
        frontier = set(states)
        seen: set[_S] = set()
        while frontier:
            frontier -= seen
            seen |= frontier
            self.ends = {}
            entry: set[_S] = set()
            for s in frontier:
                e_ = self._kill(s, _targets(st.target)) if isinstance(st, ast.For) else s
                if of_errors(s):
                    e_ = e_.but(err=e_.err | {st.target.id})
                entry.add(e_)
            if isinstance(st, ast.While):
                entry = {x for s in entry for x in self._refine(st.test, s, True)}
            out = self._seq(st.body, entry)
            nxt: set[_S] = set(out)
            for node, ss in self.ends.values():
                if isinstance(node, ast.Continue):
                    nxt |= ss
                elif isinstance(node, ast.Break):
                    exits |= ss
                else:  # return: ends the iteration of the loop under analysis as well
                    saved_ends.setdefault(id(node), (node, set()))[1].update(ss)
            reached |= nxt
            frontier = nxt - seen
        self.ends = saved_ends
        after = reached | exits
        if getattr(st, "orelse", None):
            after = self._seq(st.orelse, reached) | exits
        return after

    # -- facts
    def _kill(self, s: _S, names: set[str]) -> _S:
        if not names or not ((s.err | s.ok | s.none | s.errl) & names):
            return s
        return s.but(err=s.err - names, ok=s.ok - names, none=s.none - names, errl=s.errl - names)

    def _is_error_value(self, e: ast.AST, s: _S, _depth: int = 2) -> bool:
        if constructs_error(e):
            return True
        if isinstance(e, ast.Call) and isinstance(e.func, ast.Name) and e.func.id in self.err_classes:
            return True
        if isinstance(e, ast.Call):
            # the result of a private helper that returns nothing but errors it builds, whether or not its signature says so
            g = self.helpers.get(call_name(e).rsplit(".", 1)[-1])
            rets = [r for r in _own_walk(g.node) if isinstance(r, ast.Return)] if g is not None else []
            if rets and all(r.value is not None and constructs_error(r.value) for r in rets):
                return True
        if isinstance(e, ast.Name):
            # known to hold an error on this path, or somewhere in the function and not known otherwise here
            if e.id in s.err or (e.id in self.errs and e.id not in s.ok):
                return True
            # a record built from such an error (a tuple, the result of a constructor that is handed it): recording it records the error
            ds = [d for d in self.lc.defs.get(e.id, []) if not isinstance(d[1], ast.comprehension)]  # a comprehension's variable is its own
            return _depth > 0 and bool(ds) and all(
                k == "assign" and isinstance(v, (ast.Call, ast.Tuple)) and any(
                    isinstance(x, ast.Name) and x.id != e.id and self._is_error_value(x, s, _depth - 1)
                    for x in (v.elts if isinstance(v, ast.Tuple) else [*v.args, *[kw.value for kw in v.keywords]])) for k, _, v in ds)
        if isinstance(e, ast.Tuple):
            return any(isinstance(x, ast.Name) and self._is_error_value(x, s, _depth) for x in e.elts)
        return False

    def _outlives(self, recv: ast.AST) -> bool:
        """the container lives beyond the iteration: a field of some object, or a local that exists outside the loop body"""
        if isinstance(recv, ast.Name):
            return recv.id in self.outer
        return isinstance(recv, (ast.Attribute, ast.Subscript))

    def _helper_effects(self, c: ast.Call, s: _S) -> tuple[bool, bool]:
        """(records, keeps) for a call to a private helper of the same module / class (astutil.region): the call is the place where the
        helper's effects happen - a helper that appends an error to a list records, one that appends something of its parameters keeps"""
        g = self.helpers.get(call_name(c).rsplit(".", 1)[-1])
        if g is None:
            return False, False
        args = [*c.args, *[k.value for k in c.keywords]]
        gerrs = error_names(g.node) | {x.arg for x in [*g.node.args.posonlyargs, *g.node.args.args, *g.node.args.kwonlyargs]
                                      if x.annotation is not None and norm(x.annotation).strip("'\"").rsplit(".", 1)[-1] in ERROR_CLASSES}
        gparams = {x.arg for x in [*g.node.args.posonlyargs, *g.node.args.args, *g.node.args.kwonlyargs]}
        rec = keep = False
        for m in _own_walk(g.node):
            if isinstance(m, ast.Call) and isinstance(m.func, ast.Attribute) and m.func.attr in ("append", "extend") and m.args:
                a0 = m.args[0]
                if constructs_error(a0) or (isinstance(a0, ast.Name) and a0.id in gerrs):
                    rec = True
                elif names_in(a0) & gparams:
                    keep = True
        passes_item = any(names_in(a_) & self.dep for a_ in args)
        # the diagnostic is the known error itself or is built from it (the helper is handed the error, or something read from it)
        passes_error = any(self._is_error_value(a_, s) or names_in(a_) & s.err for a_ in args) or not s.pend
        return rec and passes_item and passes_error, keep and passes_item

    def _simple(self, st: ast.stmt, s: _S) -> _S:
        rec, keep = False, False
        frail = again = False
        for c in walk_own(st):
            if isinstance(c, (ast.Yield, ast.YieldFrom)) and c.value is not None:
                # a generator hands the value to whoever iterates it, exactly as `return` hands it to the caller: an error that is
                # yielded is passed on as a diagnostic, anything else derived from the item is the item's result
                if self._is_error_value(c.value, s):
                    rec = True
                elif names_in(c.value) & self.dep:
                    keep = True
            if isinstance(c, ast.Call) and self.helpers:
                r_, k_ = self._helper_effects(c, s)
                rec, keep = rec or r_, keep or k_
            if isinstance(c, ast.Call) and isinstance(c.func, ast.Attribute) and c.func.attr in ("append", "extend", "insert") and c.args:
                arg = c.args[-1] if c.func.attr == "insert" else c.args[0]
                if c.func.attr != "insert" and self._is_error_value(arg, s):
                    rec = True
                    if isinstance(c.func.value, ast.Name) and c.func.value.id in self.per_round:
                        frail = True
                elif names_in(arg) & self.dep and self._outlives(c.func.value):
                    keep = True
                if isinstance(c.func.value, ast.Name) and c.func.value.id in self.requeue and names_in(arg) & self.dep:
                    again = True
        if isinstance(st, ast.Assign):
            for t in st.targets:
                if isinstance(t, ast.Subscript) and names_in(st.value) & self.dep and self._outlives(t.value):
                    keep = True  # <collection>[key] = <something of the item>
                if isinstance(t, ast.Name) and t.id in self.outer and isinstance(st.value, ast.Name) and st.value.id in s.ok \
                        and st.value.id in self.dep:
                    keep = True  # the item's outcome, verified not to be an error on this path, becomes the state carried on
        bound = {n.id for n in walk_own(st) if isinstance(n, ast.Name) and isinstance(n.ctx, ast.Store)}
        out = self._kill(s, bound)
        if isinstance(st, (ast.Assign, ast.AnnAssign)) and isinstance(st.value, (ast.List, ast.Tuple)) and \
                any(constructs_error(x) or (isinstance(x, ast.Name) and x.id in s.err) for x in st.value.elts):
            tgts = st.targets if isinstance(st, ast.Assign) else [st.target]
            out = out.but(errl=out.errl | {t.id for t in tgts if isinstance(t, ast.Name)})
        if rec:
            out = out.but(rec=True, pend=False)
        if keep:
            out = out.but(keep=True)
        if frail or again:
            out = out.but(frail=out.frail or frail, again=out.again or again)
        return out

    def _refine(self, test: ast.expr, s: _S, want: bool) -> set[_S]:
        """states in which `test` evaluates to `want` (empty: infeasible on this path)"""
        if isinstance(test, ast.UnaryOp) and isinstance(test.op, ast.Not):
            return self._refine(test.operand, s, not want)
        if isinstance(test, ast.BoolOp):
            conj = isinstance(test.op, ast.And)
            if conj == want:  # all operands have the value `want`
                cur = {s}
                for v in test.values:
                    cur = {y for x in cur for y in self._refine(v, x, want)}
                return cur
            # some operand has the value `want`: the first one that does, the ones before it do not
            out: set[_S] = set()
            cur = {s}
            for v in test.values:
                out |= {y for x in cur for y in self._refine(v, x, want)}
                cur = {y for x in cur for y in self._refine(v, x, not want)}
            return out
        if isinstance(test, ast.Call) and call_name(test) == "isinstance" and len(test.args) == 2 and isinstance(test.args[0], ast.Name):
            n = test.args[0].id
            parts = test.args[1].elts if isinstance(test.args[1], ast.Tuple) else [test.args[1]]
            is_err = [(dotted_name(x) or "").rsplit(".", 1)[-1] in ERROR_CLASSES or (isinstance(x, ast.Name) and x.id in self.err_classes) for x in parts]
            if all(is_err):
                if want:
                    if n in s.ok or n in s.none:
                        return set()
                    return {s if n in s.err else s.but(err=s.err | {n}, pend=True)}
                if n in s.err:
                    return set()
                return {s.but(ok=s.ok | {n})}
            if not any(is_err) and want:
                # an instance of a class that is not an error class (error classes have no subclasses among the document's artefacts)
                return set() if n in s.err else {s}
            return {s}
        if isinstance(test, ast.Compare) and len(test.ops) == 1 and isinstance(test.left, ast.Name) and \
                isinstance(test.comparators[0], ast.Constant) and test.comparators[0].value is None and \
                isinstance(test.ops[0], (ast.Is, ast.IsNot)):
            n = test.left.id
            is_none = want == isinstance(test.ops[0], ast.Is)
            if is_none:
                if n in s.err:
                    return set()
                return {s.but(none=s.none | {n}, absent=s.absent or n in self.slots)}
            return set() if n in s.none else {s}
        return {s}


def _round_structure(fn: ast.AST, lp: ast.For) -> tuple[set[str], set[str]]:
    """(queues for the next round, other lists started afresh every round) of the round loop(s) around document loop lp: a loop
    around lp is a round loop when its body, outside lp, binds a local to an empty list and re-binds what lp goes through from that
    local; every other local its body binds to an empty list outside lp lives one round only.  Both empty: no round structure."""
    def fresh(v: "ast.AST | None") -> bool:
        return (isinstance(v, (ast.List, ast.Tuple)) and not v.elts) or (isinstance(v, ast.Call) and call_name(v) in ("list", "deque", "collections.deque")
                                                                         and not v.args and not v.keywords)

    inside = {id(n) for n in ast.walk(lp)}
    work = names_in(lp.iter)
    requeue: set[str] = set()
    per_round: set[str] = set()
    for a in _ancestors(fn, lp):
        if not isinstance(a, (ast.While, ast.For)):
            continue
        started: set[str] = set()
        moved: set[str] = set()
        for st in _own_walk(a):
            if id(st) in inside or st is a or not isinstance(st, (ast.Assign, ast.AnnAssign)) or st.value is None:
                continue
            tgts = st.targets if isinstance(st, ast.Assign) else [st.target]
            for t in tgts:
                if isinstance(t, ast.Name) and fresh(st.value):
                    started.add(t.id)
                if isinstance(t, ast.Name) and t.id in work:
                    moved |= names_in(_through_copies(st.value)) if isinstance(_through_copies(st.value), ast.Name) else set()
        if moved & started:
            requeue |= moved & started
            per_round |= started - moved
    return requeue, per_round


def _innermost_if(loop: ast.AST, st: ast.AST) -> ast.If | None:
    best = None
    for n in ast.walk(loop):
        if isinstance(n, ast.If) and any(x is st for b in (n.body, n.orelse) for s in b for x in ast.walk(s)):
            best = n
    # ast.walk is breadth-first: the last match is the deepest
    if best is not None and not any(x is st for s in best.body for x in ast.walk(s)):
        return best
    return best


def _nonempty(e: ast.expr, known: set[str] | None = None, ix: Any = None, f: Any = None, depth: int = 3) -> bool:
    """the list e is provably non-empty: a non-empty display, `X or <non-empty>`, an unfiltered comprehension over a non-empty list,
    a prefix `X[:n]` (n >= 1) of a non-empty list, either arm of a conditional expression, a name in `known`; and - inside a private
    helper f delegates to (ix, f given) - a local all of whose bindings are non-empty, and the result of such a helper when every
    `return` of it is"""
    known = known or set()
    if isinstance(e, (ast.List, ast.Tuple)):
        return len(e.elts) > 0
    if isinstance(e, ast.BoolOp) and isinstance(e.op, ast.Or):
        return _nonempty(e.values[-1], known, ix, f, depth)
    if isinstance(e, ast.IfExp):
        return _nonempty(e.body, known, ix, f, depth) and _nonempty(e.orelse, known, ix, f, depth)
    if isinstance(e, ast.ListComp):
        return len(e.generators) == 1 and not e.generators[0].ifs and _nonempty(e.generators[0].iter, known, ix, f, depth)
    if isinstance(e, ast.Name):
        return e.id in known
    if isinstance(e, ast.Subscript) and isinstance(e.slice, ast.Slice):
        up = e.slice.upper
        lo = e.slice.lower
        return _nonempty(e.value, known, ix, f, depth) and lo is None and isinstance(up, ast.Constant) and isinstance(up.value, int) and up.value >= 1
    if isinstance(e, ast.Call) and ix is not None and f is not None and depth > 0:
        g = {h.name: h for h in region(ix, f, depth=1) if h is not f}.get(call_name(e).rsplit(".", 1)[-1])
        if g is None or any(isinstance(y, (ast.Yield, ast.YieldFrom)) for y in _own_walk(g.node)):
            return False
        rets = [r for r in _own_walk(g.node) if isinstance(r, ast.Return)]
        return bool(rets) and all(r.value is not None and _nonempty(r.value, _nonempty_locals(ix, g, depth - 1), ix, g, depth - 1) for r in rets)
    return False


def _nonempty_locals(ix: Any, g: Any, depth: int) -> set[str]:
    """the locals of g that hold a non-empty list whenever they are bound: every binding is an assignment of a non-empty list, at
    least one of them not computed from the name itself (`xs = xs[:1]` keeps what `xs = [..]` established)"""
    lc = Locals(g.node)
    out: set[str] = set()
    for name, ds in lc.defs.items():
        if not ds or any(k != "assign" or v is None for k, _, v in ds):
            continue
        base = [v for _, _, v in ds if name not in names_in(v)]
        rest = [v for _, _, v in ds if name in names_in(v)]
        if base and all(_nonempty(v, set(), ix, g, depth) for v in base) and all(_nonempty(v, {name}, ix, g, depth) for v in rest):
            out.add(name)
    return out
