"""C03 - requests put every argument where the document says it goes (structural clauses)."""
from __future__ import annotations

import ast
import re
from typing import Any

from jinja2 import nodes

from .. import tplq
from ..astutil import Locals, call_name, constructs_error, names_in, norm, short, where
from ..core import PKG, Report
from ..jinja_interp import expr_text
from ..skeleton import SkelWalker, to_lines
from ..skelscan import HOLE, OPQ

LEVEL = ("structural clauses (the bytes httpx sends are not decided): wire names as keys in string context and python names as "
         "values for header/cookie/query; path placeholders rewritten and formatted over the same collection; generated locals "
         "defined under guards implied by every use (truth tables); body-type table exhaustive and consistent with httpx keyword "
         "names, Content-Type from the document's own key; optional arguments guarded; header values converted to str for every "
         "non-str kind allowed in headers; sync/async variants equal as token streams; security; parameter identity is (name, "
         "location).")


def _len_key(atom: str) -> tuple[str, str, int] | None:
    """`X|length gt 1` -> (X, 'gt', 1);  `X` (truthiness of a collection) -> (X, 'gt', 0)"""
    m = re.fullmatch(r"\(?(.+?)\|length (gt|ge|eq|ne|lt|le) (\d+)\)?", atom)
    if m:
        return m.group(1), m.group(2), int(m.group(3))
    return None


def _implication_counterexample(use: Any, definition: Any) -> dict | None:
    """an assignment under which `use` is emitted but `definition` is not; collection lengths are modelled as integers 0..2
    so that `|length > 1`, `|length == 1`, `|length > 0` and plain truthiness of the same collection stay consistent"""
    import itertools

    atoms_u, atoms_d = tplq.guard_atoms(use), tplq.guard_atoms(definition)
    atoms = sorted(set(atoms_u) | set(atoms_d))
    colls = sorted({_len_key(a)[0] for a in atoms if _len_key(a)} | {a for a in atoms if a.startswith("endpoint.") and a.endswith(("_parameters", "bodies"))})
    free = [a for a in atoms if not _len_key(a) and a not in colls]
    ops = {"gt": lambda x, k: x > k, "ge": lambda x, k: x >= k, "eq": lambda x, k: x == k, "ne": lambda x, k: x != k,
           "lt": lambda x, k: x < k, "le": lambda x, k: x <= k}
    for lens in itertools.product(range(3), repeat=len(colls)):
        ln = dict(zip(colls, lens))
        for vals in itertools.product([False, True], repeat=len(free)):
            env = dict(zip(free, vals))
            for a in atoms:
                lk = _len_key(a)
                if lk:
                    env[a] = ops[lk[1]](ln[lk[0]], lk[2])
                elif a in colls:
                    env[a] = ln[a] > 0
            if tplq.guard_holds(use, {k: env[k] for k in atoms_u}) and not tplq.guard_holds(definition, {k: env[k] for k in atoms_d}):
                return {**{f"len({k})": v for k, v in ln.items()}, **{k: env[k] for k in free}}
    return None


def run(rep: Report, ctx: Any) -> str:
    ix = ctx.py
    jx = ctx.jinja
    it, ji = ctx.flow
    em = jx.templates.get("endpoint_macros.py.jinja")
    et = jx.templates.get("endpoint_module.py.jinja")
    rep.require(em and et, "endpoint templates")
    rep.rule("R03.1", "header, cookie and query stores use the wire name as key inside a \"...\" literal and the python name as value; path "
                      "placeholders are rewritten ({name}->{python_name}) and formatted over the same collection with python_name")
    rep.rule("R03.2", "definite assignment: the guard of every use of headers / cookies / params implies the guard of its definition")
    rep.rule("R03.3", "BodyType members = branches of body_to_kwarg = httpx keyword names; every media-type branch assigns a member; "
                      "Content-Type is set from body.content_type, which is the document's own key")
    rep.rule("R03.4", "optional arguments are not sent: query filter, guarded header statements, guarded cookies")
    rep.rule("R03.5", "every property class that allows the header location and whose Python type is not str defines transform_header")
    rep.rule("R03.6", "sync_detailed/asyncio_detailed and sync/asyncio are equal as token streams modulo async/await and the client getter")
    rep.rule("R03.7", "requires_security comes from the operation's security, selects AuthenticatedClient, and the credential header is "
                      "injected in both httpx client constructors")
    rep.rule("R03.9", "parameter identity is (name, location) in every de-duplication / override decision")

    # ---- R03.1 -------------------------------------------------------------------------------------------------------
    sites = {}
    for e in ji.emissions.values():
        # wire names of parameters: `<x>.name` where x is a macro parameter named property / parameter or the (canonical) variable of
        # a loop over one of the endpoint's parameter collections
        if e.template in ("endpoint_macros.py.jinja", "property_templates/helpers.jinja") and e.hole.endswith(".name") and \
                re.fullmatch(r"(property|parameter|endpoint\.\w*parameters(\(\))?\[\*\]|\(endpoint\.list_all_parameters\(\)\)\[\*\])\.name", e.hole):
            sites.setdefault((e.template, e.macro, e.hole), set()).add(e.kind)
    rep.floor("wire_name_sites", len(sites), 3)
    for (tn, mn, hole), kinds in sorted(sites.items()):
        rep.check(all(k.endswith('STR1"') for k in kinds), "R03.1", f"{tn}::{mn}::{hole}", "a wire name is not emitted inside a \"...\" literal",
                  where=f"{PKG}/templates/{tn}", lhs=sorted(kinds), rhs='STR1"')
    macro_has = {mn for (tn, mn, hole) in sites}
    for mn in ("cookie_params", "query_params"):
        rep.check(mn in macro_has, "R03.1", f"endpoint_macros.py.jinja::{mn}::keyed-by-wire-name", "the store is not keyed by the wire name",
                  where=f"{PKG}/templates/{em.name}")
    hp = em.macros.get("header_params")
    rep.require(hp, "header_params")
    # the statement handed to guarded_statement (third argument), whatever the template calls it: the text of its definition
    gcalls = [c for c in hp.find_all(nodes.Call) if expr_text(c.node) == "guarded_statement" and len(c.args) >= 3]
    stm_txt = " ".join(expr_text(c.args[2]) for c in gcalls)
    rep.check(bool(gcalls) and "endpoint.header_parameters[*].name" in stm_txt and "'headers[\"'" in stm_txt, "R03.1",
              "endpoint_macros.py.jinja::header_params::keyed-by-wire-name", "headers are not keyed by the wire name", where=f"{PKG}/templates/{em.name}")
    sp = ix.func("Endpoint.sort_parameters")
    # the loop variable may have any name: the rewrite is `endpoint.path.replace("{<p>.name}", "{<p>.python_name}")` inside a loop
    # `for <p> in endpoint.path_parameters`
    rewrites = []
    for lp in [n for n in ast.walk(sp.node) if isinstance(n, ast.For) and norm(n.iter) == "endpoint.path_parameters"]:
        pv = norm(lp.target)
        want = f"endpoint.path.replace(f'{{{{{{{pv}.name}}}}}}', f'{{{{{{{pv}.python_name}}}}}}')"
        rewrites += [c for c in ast.walk(lp) if isinstance(c, ast.Call) and norm(c) == want]
    rep.check(bool(rewrites), "R03.1", "Endpoint.sort_parameters::placeholder-rewrite",
              "path placeholders are not rewritten from name to python_name over path_parameters", where(sp, sp.node))
    fmt_loops = [f for f in et.tree.find_all(nodes.For) if expr_text(f.iter) == "endpoint.path_parameters"]
    ok = any("endpoint.path_parameters[*].python_name" in " ".join(expr_text(c) for o in f.find_all(nodes.Output) for c in o.nodes if not isinstance(c, nodes.TemplateData))
             for f in fmt_loops)
    rep.check(ok, "R03.1", "endpoint_module.py.jinja::format-over-path-parameters", ".format(...) keywords are not python_name over endpoint.path_parameters",
              where=f"{PKG}/templates/{et.name}")
    lc = Locals(sp.node)
    from_path = set(lc.bound_from(lambda v: v.startswith("re.findall(") and v.endswith("endpoint.path)"), "assign"))

    def _names_list(e: ast.AST) -> bool:
        return (isinstance(e, ast.ListComp) and len(e.generators) == 1 and norm(e.generators[0].iter) == "endpoint.path_parameters"
                and not e.generators[0].ifs and norm(e.elt) == f"{norm(e.generators[0].target)}.name")

    diag = [n for n in ast.walk(sp.node) if isinstance(n, ast.If) and isinstance(n.test, ast.Compare) and len(n.test.ops) == 1
            and isinstance(n.test.ops[0], ast.NotEq)
            and any(isinstance(a, ast.Name) and a.id in from_path and _names_list(b)
                    for a, b in ((n.test.left, n.test.comparators[0]), (n.test.comparators[0], n.test.left)))
            and any(isinstance(r, ast.Return) and constructs_error(r.value) for r in n.body)]
    rep.check(bool(diag), "R03.1", "Endpoint.sort_parameters::path-template-check",
              "a mismatch between the path template and the path parameters is not diagnosed", where(sp, sp.node))

    # ---- R03.2 ---------------------------------------------------------------------------------------------------------
    defs = {"headers": ("header_params", "headers: dict[str, Any] = {}"), "cookies": ("cookie_params", "cookies = {}"),
            "params": ("query_params", "params: dict[str, Any] = {}")}
    top = list(tplq.frags(et.tree.body))
    gk_start = next((f.line for f in top if f.kind == "data" and "def _get_kwargs(" in f.text), None)
    gk_end = next((f.line for f in top if f.kind == "data" and "def _parse_response(" in f.text), None)
    rep.require(gk_start is not None and gk_end is not None, "_get_kwargs region")
    n_uses = 0
    for var, (mn, deftext) in defs.items():
        m = em.macros.get(mn)
        rep.require(m, mn)
        dfr = next((f for f in tplq.frags(m.body) if f.kind == "data" and deftext in f.text), None)
        rep.check(dfr is not None, "R03.2", f"{var}::defined", f"`{var}` is not defined by {mn}", where=f"{PKG}/templates/{em.name}")
        if dfr is None:
            continue
        pat = re.compile(rf'(?<![\w."]){var}\b(?!\s*=[^=])(?!")')
        uses = [f for f in top if f.kind == "data" and gk_start <= f.line < gk_end and pat.search(f.text)]
        uses += [f for f in tplq.frags(m.body) if f.kind == "data" and f is not dfr and re.search(rf"(?<![\w.\"]){var}[\[\.]", f.text)]
        for u in uses:
            n_uses += 1
            bad = _implication_counterexample(u, dfr)
            rep.check(bad is None, "R03.2", f"{var}::use[{u.text.strip().splitlines()[0][:40] if u.text.strip() else ''}]",
                      f"`{var}` can be used where it was never defined (e.g. {bad})",
                      where=f"{PKG}/templates/{et.name}:{u.line}", lhs=[g for g, _ in u.guards], rhs=[g for g, _ in dfr.guards])
    rep.floor("guarded_local_uses", n_uses, 5)

    # ---- R03.3 -----------------------------------------------------------------------------------------------------------
    bt = ix.cls("BodyType")
    members = {}
    for k, v in bt.classvars.items():
        if isinstance(v, ast.Constant) and isinstance(v.value, str):
            members[k] = v.value
    rep.check(set(members.values()) == {"json", "data", "files", "content"}, "R03.3", "BodyType::httpx-keywords",
              f"BodyType values {sorted(members.values())} are not httpx's request keywords", where=f"{bt.module.rel}:{bt.node.lineno}",
              lhs=sorted(members.values()), rhs=["content", "data", "files", "json"])
    btk = em.macros.get("body_to_kwarg")
    rep.require(btk, "body_to_kwarg")
    branches = set()
    for n in btk.find_all(nodes.Compare):
        if expr_text(n.expr) == "body.body_type" and n.ops and isinstance(n.ops[0].expr, nodes.Const):
            branches.add(n.ops[0].expr.value)
    rep.check(branches == set(members.values()), "R03.3", "body_to_kwarg::branches", f"body_to_kwarg handles {sorted(branches)}, BodyType has "
              f"{sorted(members.values())}", where=f"{PKG}/templates/{em.name}:{btk.lineno}", lhs=sorted(branches), rhs=sorted(members.values()))
    bfd = ix.func("bodies.body_from_data")
    body_calls = [c for c in ast.walk(bfd.node) if isinstance(c, ast.Call) and call_name(c) == "Body"]
    rep.require(body_calls, "Body(...) construction in body_from_data")
    bl = Locals(bfd.node)
    assigned = set()
    for c in body_calls:
        v = next((k.value for k in c.keywords if k.arg == "body_type"), None)
        # the member is either written in place or held in a local: collect everything that local is assigned
        assigned |= {norm(x) for x in bl.values_of(v.id)} if isinstance(v, ast.Name) else {norm(v)}
    rep.check(assigned == {f"BodyType.{k}" for k in members}, "R03.3", "body_from_data::assigns-every-member",
              f"media type branches assign {sorted(assigned)}", where(bfd, bfd.node), lhs=sorted(assigned), rhs=sorted(f"BodyType.{k}" for k in members))
    # `body` is either the variable of the loop over endpoint.bodies or a local bound to endpoint.bodies[0] (canonical spellings)
    BODY = ("endpoint.bodies[*]", "(endpoint.bodies[0])", "endpoint.bodies[0]")
    kw = [f for f in tplq.frags(et.tree.body) if f.kind == "expr" and f.text in {b + ".body_type.value" for b in BODY}]
    rep.check(len(kw) >= 2, "R03.3", "endpoint_module.py.jinja::kwargs-key-is-body-type", "_kwargs is not keyed by body.body_type.value",
              where=f"{PKG}/templates/{et.name}")
    cts = [f for f in tplq.frags(et.tree.body) if f.kind == "expr" and f.text in {b + ".content_type" for b in BODY}]
    rep.check(len(cts) >= 2, "R03.3", "endpoint_module.py.jinja::content-type-from-body", "Content-Type is not taken from body.content_type",
              where=f"{PKG}/templates/{et.name}")
    single = [f for f in cts if any(("eq 1" in g or "== 1" in g) for g, p in f.guards if p)]
    rep.check(bool(single) and any("multipart/form-data" in g for g, p in single[0].guards), "R03.3", "endpoint_module.py.jinja::multipart-boundary",
              "a single multipart body gets an explicit Content-Type (httpx must set the boundary)", where=f"{PKG}/templates/{et.name}")
    for c in body_calls:
        loop = next((n for n in ast.walk(bfd.node) if isinstance(n, ast.For) and norm(n.iter).endswith(".items()") and any(x is c for x in ast.walk(n))), None)
        keyvar = norm(loop.target.elts[0]) if loop is not None and isinstance(loop.target, ast.Tuple) else None
        src = norm(loop.iter)[:-len(".items()")] if loop is not None else ""
        from_doc = src.endswith(".content") or any(norm(v).endswith(".content") for v in bl.values_of(src))
        ct = {k.arg: norm(k.value) for k in c.keywords}.get("content_type")
        rep.check(ct is not None and ct == keyvar and from_doc, "R03.3", "body_from_data::content-type-is-the-documents-key",
                  "Body.content_type is not the document's own media type key", where(bfd, c), lhs=ct, rhs=keyvar)

    # ---- R03.4 (shared shapes with C10) ------------------------------------------------------------------------------------
    gs = jx.templates["property_templates/helpers.jinja"].macros.get("guarded_statement")
    rep.require(gs, "guarded_statement")
    for n in gs.find_all(nodes.If):
        rep.check(expr_text(n.test) == "property.required", "R03.4", "guarded_statement::guard-skipped-only-when-required",
                  f"the Unset guard of header / dict-valued query statements is skipped under `{expr_text(n.test)}`",
                  where=f"{PKG}/templates/property_templates/helpers.jinja:{n.lineno}", lhs=expr_text(n.test), rhs="property.required")
    calls = [c for c in hp.find_all(nodes.Call) if expr_text(c.node) == "guarded_statement"]
    rep.check(len(calls) == 1, "R03.4", "header_params::through-guarded_statement", "header stores do not go through guarded_statement",
              where=f"{PKG}/templates/{em.name}")

    # ---- R03.5 -------------------------------------------------------------------------------------------------------------
    n_h = 0
    for c in ix.property_classes():
        al = ix.find_classvar(c, "_allowed_locations")
        if al is None or "HEADER" not in norm(al[1]):
            continue
        ts = ix.find_classvar(c, "_type_string")
        tstr = ix.const_str(ts[0].module, ts[1]) if ts else ""
        tname = ix.const_str(*[(x[0].module, x[1]) for x in [ix.find_classvar(c, "template")]][0])
        n_h += 1
        if tstr in ("str", "None") and c.name not in ("EnumProperty", "LiteralEnumProperty"):
            rep.ok("R03.5", f"{c.name}::header-value-is-str", tstr, "already a string / never sent", nontrivial=False)
            continue
        ti = jx.templates.get("property_templates/" + (tname or ""))
        rep.check(ti is not None and "transform_header" in ti.macros, "R03.5", f"{c.name}::transform_header",
                  f"{c.name} is allowed in headers, its Python type is `{tstr or 'computed'}`, but {tname} defines no transform_header: httpx "
                  "rejects non-str header values", where=f"{PKG}/templates/property_templates/{tname}", lhs=tstr, rhs="transform_header macro")
    rep.floor("header_capable_kinds", n_h, 7)

    # ---- R03.6 ---------------------------------------------------------------------------------------------------------------
    w = SkelWalker(jx, frozenset())
    lines = to_lines(w.walk_template("endpoint_module.py.jinja"))[0]
    text = "\n".join(lines)
    funcs = {}
    for m in re.finditer(r"^(async )?def (\w+)\(", text, re.M):
        funcs[m.group(2)] = m.start()
    order = sorted(funcs.items(), key=lambda kv: kv[1])
    bodies = {}
    for i, (nm, st) in enumerate(order):
        en = order[i + 1][1] if i + 1 < len(order) else len(text)
        bodies[nm] = text[st:en]

    def toks(s: str) -> list[str]:
        s = re.sub(HOLE + r"\d+" + HOLE, "H", s)
        s = re.sub(OPQ + r"\d+" + OPQ, "O", s)
        return re.findall(r"\w+|[^\w\s]", s)

    for a, b in (("sync_detailed", "asyncio_detailed"), ("sync", "asyncio")):
        rep.require(a in bodies and b in bodies, f"{a}/{b} in the skeleton")
        ta = toks(bodies[a])
        tb = [x for x in toks(bodies[b]) if x not in ("async", "await")]
        tb = ["get_httpx_client" if x == "get_async_httpx_client" else x for x in tb]
        tb = [a if x == b else ("sync_detailed" if x == "asyncio_detailed" else x) for x in tb]
        ta2 = [x for x in ta]
        # `(await f(...)).parsed` adds one pair of parentheses
        def strip_parens(ts: list[str]) -> list[str]:
            return [x for x in ts if x not in ("(", ")", ",")]
        rep.check(strip_parens(ta2) == strip_parens(tb), "R03.6", f"endpoint_module.py.jinja::{a}=={b}",
                  "the blocking and asyncio variants differ beyond async/await", where=f"{PKG}/templates/{et.name}",
                  lhs=len(ta2), rhs=len(tb))

    # ---- R03.7 ------------------------------------------------------------------------------------------------------------------
    efd = ix.func("Endpoint.from_data")
    rep.check("requires_security=bool(data.security)" in norm(efd.node), "R03.7", "Endpoint.from_data::requires_security", "requires_security is not "
              "derived from the operation's security", where(efd, efd.node))
    arg = em.macros.get("arguments")
    fr = [f for f in tplq.frags(arg.body) if f.kind == "data" and "client: AuthenticatedClient," in f.text]
    rep.check(bool(fr) and tplq.implies(fr[0], "endpoint.requires_security", True), "R03.7", "arguments::authenticated-client-when-secured",
              "a secured operation does not demand an AuthenticatedClient", where=f"{PKG}/templates/{em.name}")
    ct = jx.templates.get("client.py.jinja")
    hs = ct.macros.get("httpx_stuff")
    inj = [f for f in tplq.frags(hs.body) if f.kind == "expr" and f.text.startswith("custom_constructor")]
    rep.check(len(inj) == 2, "R03.7", "client.py.jinja::credential-injected-in-both-constructors", "the credential header is not injected into both the "
              "blocking and the async httpx client", where=f"{PKG}/templates/client.py.jinja", lhs=len(inj), rhs=2)
    top_calls = [expr_text(c) for o in ct.tree.find_all(nodes.Output) for c in o.nodes if isinstance(c, nodes.Call) and expr_text(c.node) == "httpx_stuff"]
    rep.check(any("AuthenticatedClient" in c and "auth_header_name" in c for c in top_calls), "R03.7", "client.py.jinja::authenticated-client-passes-injection",
              "AuthenticatedClient no longer passes the header injection to httpx_stuff", where=f"{PKG}/templates/client.py.jinja")

    # ---- R03.9 ------------------------------------------------------------------------------------------------------------------
    ap = ix.func("Endpoint.add_parameters")
    n_id = 0
    ploops = [n for n in ast.walk(ap.node) if isinstance(n, ast.For) and norm(n.iter) == "data.parameters"]
    rep.require(ploops, "loop over data.parameters")
    pv = norm(ploops[0].target)
    al = Locals(ap.node)
    # identity keys: locals bound to a tuple that contains <p>.name
    keys = {nm: v for nm in al.defs for v in al.values_of(nm) if isinstance(v, ast.Tuple) and f"{pv}.name" in [norm(e) for e in v.elts]}
    for nm, v in keys.items():
        rep.check({norm(e) for e in v.elts} == {f"{pv}.name", f"{pv}.param_in"}, "R03.9", "Endpoint.add_parameters::unique_param",
                  "the de-duplication key is not (name, location)", where(ap, v), lhs=norm(v), rhs=f"({pv}.name, {pv}.param_in)")
    rep.check(bool(keys), "R03.9", "Endpoint.add_parameters::unique_param", "no (name, location) key is built", where(ap, ap.node))
    for n in ast.walk(ploops[0]):
        if isinstance(n, ast.If) and any(isinstance(s, (ast.Continue, ast.Return)) for s in n.body):
            tt = norm(n.test)
            used = names_in(n.test)
            if f"{pv}.name" in tt or used & set(keys):
                n_id += 1
                both = (f"{pv}.param_in" in tt and f"{pv}.name" in tt) or any(
                    k in used and {norm(e) for e in keys[k].elts} == {f"{pv}.name", f"{pv}.param_in"} for k in keys)
                rep.check(both, "R03.9", f"Endpoint.add_parameters::identity[{n_id}]",
                          "a parameter is skipped / rejected by name alone: a path-item parameter with the same name in another location is lost",
                          where(ap, n), lhs=tt[:100], rhs="test involves the name and the location")
    rep.floor("parameter_identity_tests", n_id, 2)
    rep.not_decided += ["the bytes httpx actually sends"]
    return LEVEL
