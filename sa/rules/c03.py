"""C03 - requests put every argument where the document says it goes (structural clauses)."""
from __future__ import annotations

import ast
import re
import textwrap
from typing import Any, Iterator

from jinja2 import nodes

from .. import tplq
from ..astutil import ERROR_CLASSES, ERROR_ONLY_HELPERS, Locals, call_name, calls_in, constructs_error, error_names, names_in, norm, region, short, stmt_of, terminals, where
from ..cfg import CFG
from ..core import PKG, Report
from ..jinja_interp import expr_text
from ..skeleton import SkelWalker, to_lines
from ..skelscan import HOLE, OPQ

LEVEL = ("structural clauses (the bytes httpx sends are not decided): wire names as keys in string context and python names as "
         "values for header/cookie/query; path placeholders rewritten (braces included) and formatted over the same collection, a mismatch "
         "between path template and path parameters can only end in an error; generated locals "
         "defined under guards implied by every use (truth tables); body-type table exhaustive and consistent with httpx keyword "
         "names, Content-Type from the document's own key; the model of a multipart body is flagged for to_multipart, registered, and the "
         "flag never lowered; optional arguments guarded; a query parameter is stored under its wire name or spread into its fields, never both; header values converted to str for every non-str kind allowed in headers (what "
         "transform_header writes is a str on every path and is what header_params stores); the query filter drops UNSET and nothing but UNSET / None; sync/async variants equal as token "
         "streams; security, the credential header overwritten before both httpx clients are built; parameter identity is (name, location); "
         "whoever hands on a parameter's schema with a name / location hands on that parameter's own.")


def _flat(atom: str) -> str:
    """atom text without grouping parentheses: `(endpoint.bodies|length) eq 1` (the length held in a `set` variable, which reads as
    its parenthesised definition) and `endpoint.bodies|length eq 1` are the same test"""
    return atom.replace("(", "").replace(")", "")


def _len_key(atom: str) -> tuple[str, str, int] | None:
    """`X|length gt 1` -> (X, 'gt', 1)"""
    m = re.fullmatch(r"(.+?)\|length (gt|ge|eq|ne|lt|le) (\d+)", _flat(atom))
    if m:
        return m.group(1), m.group(2), int(m.group(3))
    return None


def _coll_key(atom: str) -> str | None:
    """`endpoint.header_parameters` used as a test (truthiness of a collection) -> the collection"""
    a = _flat(atom)
    return a if re.fullmatch(r"endpoint\.(\w*_parameters|bodies)", a) else None


def _implication_counterexample(use: Any, definition: Any) -> dict | None:
    """an assignment under which `use` is emitted but `definition` is not; collection lengths are modelled as integers 0..2
    so that `|length > 1`, `|length == 1`, `|length > 0` and plain truthiness of the same collection stay consistent"""
    for ln, env in _models(use, definition):
        if _holds(use, env, ln) and not _holds(definition, env, ln):
            return {**{f"len({k})": v for k, v in ln.items()}, **{k: v for k, v in env.items() if not _len_key(k) and not _coll_key(k)}}
    return None


def _models(*frs: Any) -> Iterator[tuple[dict, dict]]:
    """the assignments (collection lengths, truth values of all guard atoms) of the guards of several fragments taken together"""
    import itertools

    atoms = sorted({a for f in frs for a in tplq.guard_atoms(f)})
    colls = sorted({_len_key(a)[0] for a in atoms if _len_key(a)} | {_coll_key(a) for a in atoms if _coll_key(a)}
                   | {_coll_key(l) for f in frs for l in f.loops if _coll_key(l)})
    free = [a for a in atoms if not _len_key(a) and not _coll_key(a)]
    ops = {"gt": lambda x, k: x > k, "ge": lambda x, k: x >= k, "eq": lambda x, k: x == k, "ne": lambda x, k: x != k,
           "lt": lambda x, k: x < k, "le": lambda x, k: x <= k}
    for lens in itertools.product(range(3), repeat=len(colls)):
        ln = dict(zip(colls, lens))
        for vals in itertools.product([False, True], repeat=len(free)):
            env = dict(zip(free, vals))
            for a in atoms:
                lk = _len_key(a)
                if lk:
                    env[a] = ops[lk[1]](ln[lk[0]], lk[2])
                elif _coll_key(a):
                    env[a] = ln[_coll_key(a)] > 0
            yield ln, env


def _holds(fr: Any, env: dict, ln: dict) -> bool:
    """the fragment is written under the assignment: its guards hold and the collections it is in a loop over are not empty"""
    return tplq.guard_holds(fr, {k: env[k] for k in tplq.guard_atoms(fr)}) and all(ln[_coll_key(l)] > 0 for l in fr.loops if _coll_key(l))


# ---- one path through a macro -----------------------------------------------------------------------------------------------
# What a macro writes is decided per path, not per source fragment: `{% if c %}A{% else %}B{% endif %}`, `{{ "A" if c else "B" }}`,
# a `set` variable holding either text, and a helper macro returning it all write the same thing.  A path is an assignment of the
# atoms of the tests met on the way; the rendering of a path is a sequence of literal text and holes (expressions without a value).


class _NeedAtom(Exception):
    def __init__(self, atom: str):
        super().__init__(atom)
        self.atom = atom


class _Piece:
    __slots__ = ("kind", "text", "node", "args")

    def __init__(self, kind: str, text: str, node: Any = None, args: tuple = ()):
        self.kind = kind      # t: literal text | h: hole
        self.text = text      # the text, or the (canonical) text of the expression
        self.node = node      # the expression (holes), the constant (text written from a non-string constant)
        self.args = args      # holes that are calls: the pieces of every argument

    def __repr__(self) -> str:
        return self.text if self.kind == "t" else "‹" + self.text + "›"


class _Path:
    """renders the body of a macro of template `ti` under `env` (atom -> truth value); `known(test, text_of)` may decide a test from
    facts of its own (None: not decided).  A test whose atom is not in env raises _NeedAtom: see _paths."""

    PASS_FILTERS = ("indent", "trim", "safe", "string")

    def __init__(self, ti: Any, env: dict[str, bool], known: Any = None, max_depth: int = 4):
        self.ti = ti
        self.env = env
        self.known = known
        self.max_depth = max_depth
        self.stack: list[str] = []

    # -- texts ---------------------------------------------------------------------------------------------------------------
    def text_of(self, e: nodes.Node, vars_: dict, subst: dict[str, str], flat: bool = False) -> str:
        """canonical text of an expression; the parameters of an inlined macro read as what the call site passed (an expression, or
        the literal text).  flat (the atoms of tests): grouping parentheses dropped - a `set` variable reads as its parenthesised
        definition"""
        t = expr_text(e)
        lits = {n: repr("".join(p.text for p in ps)) for n, ps in vars_.items() if ps and all(p.kind == "t" and p.node is None for p in ps)}
        for p, a in {**lits, **subst}.items():
            t = re.sub(rf"(?<![\w.'\"]){re.escape(p)}(?![\w'\"])", lambda _m, a=a: a, t)
        return _flat(t) if flat else t

    # -- tests ---------------------------------------------------------------------------------------------------------------
    def decide(self, t: nodes.Node, vars_: dict, subst: dict) -> bool:
        if isinstance(t, nodes.And):
            return self.decide(t.left, vars_, subst) and self.decide(t.right, vars_, subst)
        if isinstance(t, nodes.Or):
            return self.decide(t.left, vars_, subst) or self.decide(t.right, vars_, subst)
        if isinstance(t, nodes.Not):
            return not self.decide(t.node, vars_, subst)
        if isinstance(t, nodes.Const):
            return bool(t.value)
        if isinstance(t, nodes.Name) and t.name in vars_:
            ps = vars_[t.name]
            if all(p.kind == "t" for p in ps):
                if len(ps) == 1 and isinstance(ps[0].node, nodes.Const):
                    return bool(ps[0].node.value)
                return bool("".join(p.text for p in ps))
            if any(p.kind == "t" and p.text for p in ps):
                return True       # a string with literal text in it is not empty
            if len(ps) == 1:
                # a local without a value: as true as the expression it was bound to (`set ok = not x` ... `if ok`)
                if ps[0].node is not None and ps[0].node is not t:
                    return self.decide(ps[0].node, vars_, subst)
                return self.atom(_flat(ps[0].text))
        if self.known is not None:
            r = self.known(t, lambda e: self.text_of(e, vars_, subst, flat=True))
            if r is not None:
                return r
        return self.atom(self.text_of(t, vars_, subst, flat=True))

    def atom(self, a: str) -> bool:
        if a not in self.env:
            raise _NeedAtom(a)
        return self.env[a]

    # -- statements -----------------------------------------------------------------------------------------------------------
    def block(self, body: list[nodes.Node], vars_: dict, subst: dict) -> list[_Piece]:
        out: list[_Piece] = []
        for n in body:
            if isinstance(n, nodes.Output):
                for c in n.nodes:
                    out += self.expr(c, vars_, subst)
            elif isinstance(n, nodes.If):
                arms = [(n.test, n.body)] + [(el.test, el.body) for el in n.elif_]
                for test, arm in arms:
                    if self.decide(test, vars_, subst):
                        out += self.block(arm, vars_, subst)
                        break
                else:
                    out += self.block(n.else_, vars_, subst)
            elif isinstance(n, nodes.For):
                # one element (that passes the loop's filter)
                out += self.block(n.body, dict(vars_), subst)
            elif isinstance(n, nodes.Assign):
                if isinstance(n.target, nodes.Name):
                    vars_[n.target.name] = self.expr(n.node, vars_, subst)
            elif isinstance(n, nodes.AssignBlock):
                if isinstance(n.target, nodes.Name):
                    vars_[n.target.name] = self.block(n.body, dict(vars_), subst)
            elif isinstance(n, (nodes.With, nodes.Scope, nodes.CallBlock, nodes.FilterBlock)):
                out += self.block(getattr(n, "body", []), dict(vars_), subst)
        return out

    # -- expressions ----------------------------------------------------------------------------------------------------------
    def expr(self, e: nodes.Node, vars_: dict, subst: dict) -> list[_Piece]:
        if isinstance(e, nodes.TemplateData):
            return [_Piece("t", e.data)]
        if isinstance(e, nodes.Const):
            return [_Piece("t", e.value)] if isinstance(e.value, str) else [_Piece("t", str(e.value), e)]
        if isinstance(e, nodes.Name) and e.name in vars_:
            return list(vars_[e.name])
        if isinstance(e, (nodes.Add, nodes.Concat)):
            parts = [e.left, e.right] if isinstance(e, nodes.Add) else list(e.nodes)
            ps = [p for x in parts for p in self.expr(x, vars_, subst)]
            # a sum without any literal text in it (lists, numbers) is one value
            return ps if any(p.kind == "t" for p in ps) else [_Piece("h", self.text_of(e, vars_, subst), e)]
        if isinstance(e, nodes.CondExpr):
            if self.decide(e.test, vars_, subst):
                return self.expr(e.expr1, vars_, subst)
            return self.expr(e.expr2, vars_, subst) if e.expr2 is not None else []
        if isinstance(e, nodes.Filter) and e.node is not None and e.name in self.PASS_FILTERS:
            return self.expr(e.node, vars_, subst)
        if isinstance(e, nodes.Call):
            m = self.ti.macros.get(e.node.name) if isinstance(e.node, nodes.Name) and e.node.name not in vars_ else None
            if m is not None and e.node.name not in self.stack and len(self.stack) < self.max_depth:
                return self.inline(m, e, vars_, subst)
            args = tuple(self.expr(a, vars_, subst) for a in [*e.args, *[k.value for k in e.kwargs]])
            return [_Piece("h", self.text_of(e, vars_, subst), e, args)]
        return [_Piece("h", self.text_of(e, vars_, subst), e)]

    def inline(self, m: nodes.Macro, call: nodes.Call, vars_: dict, subst: dict) -> list[_Piece]:
        names = [a.name for a in m.args]
        bound: dict[str, list[_Piece]] = {}
        for a, d in zip(names[len(names) - len(m.defaults):], m.defaults):
            bound[a] = self.expr(d, {}, {})
        for nm, a in [*zip(names, call.args), *[(k.key, k.value) for k in call.kwargs if k.key in names]]:
            bound[nm] = self.expr(a, vars_, subst)
        vars2: dict[str, list[_Piece]] = {}
        subst2: dict[str, str] = {}
        for nm, ps in bound.items():
            # an argument without a value here stays what the call site wrote (tests and holes of the callee then read like the
            # caller's); text and mixtures are values of the parameter
            if len(ps) == 1 and ps[0].kind == "h" and not ps[0].args:
                subst2[nm] = ps[0].text
            else:
                # (the expressions behind the holes belong to the caller: the callee sees their texts)
                vars2[nm] = [_Piece("h", p.text, None, p.args) if p.kind == "h" else p for p in ps]
        self.stack.append(m.name)
        try:
            return self.block(m.body, vars2, subst2)
        finally:
            self.stack.pop()


def _paths(ti: Any, macro: nodes.Macro, known: Any = None, limit: int = 512) -> list[tuple[dict[str, bool], list[_Piece]]]:
    """every path through the macro (its own parameters without a value): [(atoms decided on the way, what is written)]"""
    out = []
    todo: list[dict[str, bool]] = [{}]
    while todo:
        env = todo.pop()
        try:
            out.append((env, _Path(ti, env, known).block(macro.body, {}, {})))
        except _NeedAtom as need:
            todo += [{**env, need.atom: True}, {**env, need.atom: False}]
        if len(out) + len(todo) > limit:
            raise RuntimeError(f"more than {limit} paths through {ti.name}::{macro.name}")
    return out


def _macro_region(ti: Any, name: str) -> set[str]:
    """the macro and the macros of the same template it calls (directly or through one another): where what the macro writes is written"""
    out: set[str] = set()
    todo = [name]
    while todo:
        n = todo.pop()
        m = ti.macros.get(n)
        if m is None or n in out:
            continue
        out.add(n)
        todo += [c.node.name for c in m.find_all(nodes.Call) if isinstance(c.node, nodes.Name)]
    return out


def _written(ps: list[_Piece]) -> str:
    """the text of a path, every hole as one private-use character (no identifier, no punctuation)"""
    return "".join(p.text if p.kind == "t" else HOLE for p in ps)


def _annotation(line: str) -> str:
    """`Union[A, B], rest` -> `Union[A, B]` (up to the first comma outside brackets)"""
    depth = 0
    for i, ch in enumerate(line):
        if ch in "([{":
            depth += 1
        elif ch in ")]}":
            depth -= 1
        elif ch == "," and depth == 0:
            return line[:i].strip()
    return line.strip()


def _comp_bound(e: ast.AST) -> set[str]:
    """names bound by the comprehensions inside e (their scope is the comprehension, they are not locals of the function)"""
    return {t.id for c in ast.walk(e) if isinstance(c, ast.comprehension) for t in ast.walk(c.target) if isinstance(t, ast.Name)}


def _stmt_values(lc: Locals, name: str) -> list[ast.AST]:
    """what the statements of the function bind `name` to (comprehension variables of the same spelling are somebody else)"""
    return [v for _, st, v in lc.defs.get(name, []) if v is not None and not isinstance(st, ast.comprehension)]


def _only_value(lc: Locals, name: str) -> ast.AST | None:
    """the expression a local is bound to when it is bound exactly once, by a plain assignment"""
    ds = lc.defs.get(name, [])
    return ds[0][2] if len(ds) == 1 and ds[0][0] == "assign" else None


class _Region:
    """a function and the private helpers it calls, with the bindings that connect them: a name stands for what the statements of its
    function bind it to and, when it is a parameter of a helper, for what the call sites within the region pass for it.  Extracting a
    helper (or inlining one) moves expressions between functions; who is who does not change."""

    def __init__(self, ix: Any, root: Any, depth: int = 2):
        self.ix = ix
        self.root = root
        self.funcs = region(ix, root, depth)
        self.helpers = {h.name: h for h in self.funcs[1:]}
        self.lc = {g.qual: Locals(g.node) for g in self.funcs}
        self.sites: dict[str, list[tuple[Any, ast.Call]]] = {}
        self._active: set[tuple] = set()
        # functions defined inside a function of the region (closures): their statements are statements of that function (Locals walks
        # them too), their parameters stand for what the calls made inside that function pass
        self.nested: dict[str, list[ast.AST]] = {}
        for g in self.funcs:
            for c in calls_in(g.node):
                h = self.helper(c)
                if h is not None:
                    self.sites.setdefault(h.qual, []).append((g, c))
            self.nested[g.qual] = [n for n in ast.walk(g.node) if isinstance(n, (ast.FunctionDef, ast.AsyncFunctionDef)) and n is not g.node]

    def helper(self, c: ast.Call) -> Any:
        """the helper of the region that the call calls (None: somebody else)"""
        return self.helpers.get(call_name(c).rsplit(".", 1)[-1])

    @staticmethod
    def args_for(h: Any, c: ast.Call) -> dict[str, ast.AST]:
        """parameter of h -> the expression the call passes for it"""
        a = h.node.args
        pos = [x.arg for x in [*a.posonlyargs, *a.args]]
        if h.kind in ("method", "classmethod"):
            pos = pos[1:]
        out: dict[str, ast.AST] = {}
        for nm, v in zip(pos, c.args):
            if isinstance(v, ast.Starred):
                break
            out[nm] = v
        names = {x.arg for x in [*a.posonlyargs, *a.args, *a.kwonlyargs]}
        out.update({k.arg: k.value for k in c.keywords if k.arg in names})
        return out

    def results(self, h: Any) -> list[ast.AST]:
        """what a call of the helper h is worth: the values of its return statements (a generator: see `yields`)"""
        return [] if self.yields(h) else [r.value for r in ast.walk(h.node) if isinstance(r, ast.Return) and r.value is not None]

    @staticmethod
    def yields(h: Any) -> list[tuple[str, ast.AST]]:
        """what iterating a call of the generator h gives: ('', V) for `yield V`, ('*', V) for `yield from V`"""
        return [("" if isinstance(n, ast.Yield) else "*", n.value) for n in ast.walk(h.node) if isinstance(n, (ast.Yield, ast.YieldFrom)) and n.value is not None]

    def bindings(self, g: Any, name: str) -> list[tuple[Any, ast.AST]]:
        """(function, expression) of what the name is in g: the values plain assignments give it (`a, b = x, y` and `a, b = helper(...)`
        where the helper returns a tuple: element by element), the arguments passed for it (to g when it is a helper of the region, to
        the function defined inside g whose parameter it is)"""
        out: list[tuple[Any, ast.AST]] = []
        for k, _, v in self.lc[g.qual].defs.get(name, []):
            if v is None:
                continue
            if k == "assign":
                out.append((g, v))
            elif re.fullmatch(r"assign\[\d+\]", k):
                out += self.component(g, v, int(k[7:-1])) or []
        return out + self.passed(g, name)

    def record_class(self, c: ast.Call) -> list[str] | None:
        """the fields, in their order, of the class of the package the call constructs (a NamedTuple / attrs / dataclass record: positional
        arguments fill the fields in the order they are declared); None: the call is something else"""
        hits = [k for k in self.ix.classes.values() if k.name == call_name(c).rsplit(".", 1)[-1]]
        if len(hits) != 1 or not hits[0].fields or "__init__" in hits[0].methods:
            return None
        return list(hits[0].fields)

    def component(self, g: Any, e: ast.AST, sel: Any, depth: int = 4) -> list[tuple[Any, ast.AST]] | None:
        """(function, expression) of what the component `sel` (a position, or the name of a field) of the record e can be; None when e is
        not known to be a record.  Records: a tuple display; the construction of a record class of the package (positional arguments by
        the order of its fields, keywords by name); a conditional of records; what a helper of the region returns; a name bound to a
        record - by assignment, as the argument of a helper, or as the variable of a loop over a generator of the region, which is what
        the generator yields (an error object it yields instead has no components: whoever takes it apart has told them apart before).
        Packing values into a record in one function and taking them out in another leaves who is who unchanged."""
        if depth <= 0:
            return None
        if isinstance(e, ast.NamedExpr):
            return self.component(g, e.value, sel, depth)
        if isinstance(e, (ast.Tuple, ast.List)):
            if isinstance(sel, int) and sel < len(e.elts) and not any(isinstance(x, ast.Starred) for x in e.elts):
                return [(g, e.elts[sel])]
            return None
        if isinstance(e, ast.IfExp):
            arms = [a for a in (self.component(g, x, sel, depth) for x in (e.body, e.orelse)) if a is not None]
            return [x for a in arms for x in a] if arms else None
        if isinstance(e, ast.Call):
            h = self.helper(e)
            if h is not None:
                rs = [r for r in (self.component(h, x, sel, depth - 1) for x in self.results(h)) if r is not None]
                return [x for r in rs for x in r] if rs else None
            fields = self.record_class(e)
            if fields is None or any(isinstance(a, ast.Starred) for a in e.args) or any(k.arg is None for k in e.keywords):
                return None
            name = fields[sel] if isinstance(sel, int) and sel < len(fields) else sel if isinstance(sel, str) and sel in fields else None
            if name is None:
                return None
            kw = {k.arg: k.value for k in e.keywords}
            if name in kw:
                return [(g, kw[name])]
            i = fields.index(name)
            return [(g, e.args[i])] if i < len(e.args) else None
        if isinstance(e, ast.Name):
            key = ("component", g.qual, e.id, sel)
            if key in self._active:
                return None
            self._active.add(key)
            try:
                got: list[tuple[Any, ast.AST]] = []
                found = False
                for h, v in self.bindings(g, e.id):
                    r = self.component(h, v, sel, depth - 1)
                    if r is not None:
                        found, got = True, got + r
                for pos, it in self.loops(g, e.id):
                    gen = self.helper(it) if pos == "" and isinstance(it, ast.Call) else None
                    for star, v in (self.yields(gen) if gen is not None else []):
                        if star or constructs_error(v):
                            continue
                        r = self.component(gen, v, sel, depth - 1)
                        if r is not None:
                            found, got = True, got + r
                return got if found else None
            finally:
                self._active.discard(key)
        return None

    def passed(self, g: Any, name: str) -> list[tuple[Any, ast.AST]]:
        """(caller, expression) of what is passed for the parameter `name`: by the region to its helper g, by g to the function defined
        inside g whose parameter it is"""
        out: list[tuple[Any, ast.AST]] = []
        if g != self.root and name in {a.arg for a in g.params}:
            out += [(caller, v) for caller, c in self.sites.get(g.qual, []) for v in [self.args_for(g, c).get(name)] if v is not None]
        for d in self.nested.get(g.qual, []):
            a = d.args
            pos = [x.arg for x in [*a.posonlyargs, *a.args]]
            if name not in pos and name not in [x.arg for x in a.kwonlyargs]:
                continue
            for c in calls_in(g.node):
                if isinstance(c.func, ast.Name) and c.func.id == d.name:
                    plain = c.args[:next((i for i, v in enumerate(c.args) if isinstance(v, ast.Starred)), len(c.args))]
                    got = {**dict(zip(pos, plain)), **{k.arg: k.value for k in c.keywords if k.arg}}
                    if name in got:
                        out.append((g, got[name]))
        return out

    def loops(self, g: Any, name: str) -> list[tuple[str, ast.AST]]:
        """(position in the target, iterable) of the for statements and comprehensions of g that bind the name: '' the target itself,
        '[0]' / '[1]' the first / second element of a tuple target"""
        return [(k[3:], v) for k, _, v in self.lc[g.qual].defs.get(name, []) if k.startswith("for") and v is not None]

    def denotes(self, g: Any, e: ast.AST, pred: Any) -> bool:
        """e is - or is a name that stands, through aliases (`a = b`, a parameter of a helper and its argument) for - an expression
        for which pred(g, e) holds.  (pred may ask denotes about the parts of e; a name that is defined in terms of itself -
        `path = path.replace(...)` - is what its other definitions make it.)"""
        key = (id(pred), g.qual, e.id if isinstance(e, ast.Name) else id(e))
        if key in self._active:
            return False
        self._active.add(key)
        try:
            if pred(g, e):
                return True
            if isinstance(e, ast.NamedExpr):
                return self.denotes(g, e.value, pred)
            if isinstance(e, ast.Name):
                return any(self.denotes(h, v, pred) for h, v in self.bindings(g, e.id))
            return False
        finally:
            self._active.discard(key)


def _sources(rg: _Region, f: Any, e: ast.AST, stop: frozenset[str] = frozenset(), depth: int = 5) -> list[ast.AST]:
    """e (an expression of the function f of the region) and every expression whose value may flow into it: the definitions of the locals
    it reads, what the call sites pass for the parameters it reads, the return values of the private helpers it calls (and what flows
    into those), the module-level tables these read.  `stop`: locals that are not unfolded."""
    return [x for _, x in _sources_in(rg, f, e, stop, depth)]


def _sources_in(rg: _Region, f: Any, e: ast.AST, stop: frozenset[str] = frozenset(), depth: int = 5) -> list[tuple[Any, ast.AST]]:
    """_sources, every expression with the function of the region it is written in"""
    out: list[tuple[Any, ast.AST]] = []
    seen: set[int] = set()

    def go(g: Any, x: ast.AST, d: int) -> None:
        if id(x) in seen or d < 0:
            return
        seen.add(id(x))
        out.append((g, x))
        lc = rg.lc[g.qual]
        params = {a.arg for a in g.params}
        for nm in sorted(names_in(x) - _comp_bound(x) - stop):
            vals = [(g, v) for v in _stmt_values(lc, nm)] + rg.passed(g, nm)
            if not vals and nm not in params and nm in g.module.variables:
                vals = [(g, g.module.variables[nm])]
            for h, v in vals:
                go(h, v, d - 1)
        for c in calls_in(x):
            h = rg.helper(c)
            if h is not None:
                for r in ast.walk(h.node):
                    if isinstance(r, (ast.Return, ast.Yield, ast.YieldFrom)) and r.value is not None:
                        go(h, r.value, d - 1)

    go(f, e, depth)
    return out


class _Assuming:
    """what expressions are worth and where functions end once the outcome of one kind of comparison is given
    (`fact(g, compare) -> bool | None`).  Values: True / False, ERR (an error object), NONE, or None when not known.  A call of a
    helper of the region is worth what the helper returns under the same assumption; a local is worth its only definition."""

    ERR, NONE = "error", "none"

    def __init__(self, rg: _Region, fact: Any):
        self.rg = rg
        self.fact = fact
        self.stack: list[str] = []

    def ends(self, g: Any) -> tuple[set[ast.stmt], bool]:
        """(the statements g can end with, can it fall off its end)"""
        self.stack.append(g.qual)
        try:
            return terminals(g.node.body, lambda t: self.truth(g, t))
        finally:
            self.stack.pop()

    def truth(self, g: Any, e: ast.AST) -> bool | None:
        v = self.value(g, e)
        return True if v in (True, self.ERR) else False if v in (False, self.NONE) else None

    def value(self, g: Any, e: ast.AST | None, depth: int = 6) -> Any:
        if e is None:
            return self.NONE
        if depth <= 0:
            return None
        if isinstance(e, ast.Constant):
            return self.NONE if e.value is None else e.value if isinstance(e.value, bool) else None
        if isinstance(e, ast.NamedExpr):
            return self.value(g, e.value, depth - 1)
        if isinstance(e, ast.UnaryOp) and isinstance(e.op, ast.Not):
            t = self.truth(g, e.operand)
            return None if t is None else not t
        if isinstance(e, ast.BoolOp):
            ts = [self.truth(g, x) for x in e.values]
            if isinstance(e.op, ast.And):
                return False if any(t is False for t in ts) else True if all(t is True for t in ts) else None
            return True if any(t is True for t in ts) else False if all(t is False for t in ts) else None
        if isinstance(e, ast.IfExp):
            t = self.truth(g, e.test)
            arms = [e.body] if t is True else [e.orelse] if t is False else [e.body, e.orelse]
            vals = {self.value(g, a, depth - 1) for a in arms}
            return vals.pop() if len(vals) == 1 else None
        if isinstance(e, ast.Compare):
            r = self.fact(g, e)
            if r is not None:
                return r
            if len(e.ops) == 1 and isinstance(e.ops[0], (ast.Is, ast.IsNot, ast.Eq, ast.NotEq)):
                for a, b in ((e.left, e.comparators[0]), (e.comparators[0], e.left)):
                    if isinstance(b, ast.Constant) and b.value is None:
                        v = self.value(g, a, depth - 1)
                        if v in (self.ERR, self.NONE):
                            return (v == self.NONE) == isinstance(e.ops[0], (ast.Is, ast.Eq))
            return None
        if isinstance(e, ast.Call):
            cn = call_name(e)
            if cn == "isinstance" and len(e.args) == 2:
                v = self.value(g, e.args[0], depth - 1)
                classes = [norm(x).rsplit(".", 1)[-1] for x in (e.args[1].elts if isinstance(e.args[1], ast.Tuple) else [e.args[1]])]
                if v == self.ERR and any(c in ERROR_CLASSES for c in classes):
                    return True
                if v == self.NONE or (v == self.ERR and not any("Error" in c for c in classes)):
                    return False
                return None
            if cn == "bool" and len(e.args) == 1 and not e.keywords:
                return self.truth(g, e.args[0])
            h = self.rg.helper(e)
            if h is not None:
                if h.qual in self.stack:
                    return None
                ends, falls = self.ends(h)
                if any(not isinstance(r, ast.Return) for r in ends):
                    return None
                vals = {self.value(h, r.value, depth - 1) for r in ends} | ({self.NONE} if falls else set())
                return vals.pop() if len(vals) == 1 else None
            if cn.rsplit(".", 1)[-1] in ERROR_CLASSES | ERROR_ONLY_HELPERS:
                return self.ERR
            return None
        if isinstance(e, ast.Name):
            ds = self.rg.lc[g.qual].defs.get(e.id, [])
            bs = self.rg.bindings(g, e.id)
            if len(bs) == 1 and len(ds) <= 1:
                return self.value(bs[0][0], bs[0][1], depth - 1)
        return None


def _py_stmts(text: str) -> Iterator[ast.stmt]:
    """the complete Python statements written literally in a piece of template text (lines that are only part of a statement, because
    the rest is an expression of the template, do not parse and are skipped)"""
    lines = text.split("\n")
    i = 0
    while i < len(lines):
        if not lines[i].strip():
            i += 1
            continue
        for j in range(i + 1, min(i + 8, len(lines)) + 1):
            try:
                tree = ast.parse(textwrap.dedent("\n".join(lines[i:j])))
            except (SyntaxError, ValueError):
                continue
            yield from tree.body
            i = j
            break
        else:
            i += 1


def _absence_value(e: ast.expr, v: str, unset: bool, none: bool) -> bool | None:
    """value of a filter condition over the entry value `v` when that value is UNSET (unset), None (none) or any other value (neither);
    None when the condition tests anything but identity of `v` with UNSET / None (truthiness, equality, ...)"""
    if isinstance(e, ast.BoolOp):
        vals = [_absence_value(x, v, unset, none) for x in e.values]
        if any(x is None for x in vals):
            return None
        return all(vals) if isinstance(e.op, ast.And) else any(vals)
    if isinstance(e, ast.UnaryOp) and isinstance(e.op, ast.Not):
        r = _absence_value(e.operand, v, unset, none)
        return None if r is None else not r
    if isinstance(e, ast.Compare) and len(e.ops) == 1 and isinstance(e.ops[0], (ast.Is, ast.IsNot)):
        a, b = e.left, e.comparators[0]
        if isinstance(b, ast.Name) and b.id == v:
            a, b = b, a
        if isinstance(a, ast.Name) and a.id == v:
            r = unset if norm(b) == "UNSET" else none if norm(b) == "None" else None
            return None if r is None else (r if isinstance(e.ops[0], ast.Is) else not r)
    if isinstance(e, ast.Call) and call_name(e) == "isinstance" and len(e.args) == 2 and norm(e.args[0]) == v and norm(e.args[1]) == "Unset":
        return unset
    return None


def _str_pieces(e: ast.AST, lc: Locals, depth: int = 3) -> list | None:
    """a string-building expression as literal text and values: f"{{{p.name}}}", "{" + p.name + "}", "{%s}" % p.name and a local bound
    to any of these all read ["{", ("p.name",), "}"]; None when it is not such an expression"""
    out: list = []

    def add(x: Any) -> None:
        if isinstance(x, str) and out and isinstance(out[-1], str):
            out[-1] += x
        elif x != "":
            out.append(x)

    def go(n: ast.AST, d: int) -> bool:
        if isinstance(n, ast.Constant) and isinstance(n.value, str):
            add(n.value)
            return True
        if isinstance(n, ast.JoinedStr):
            for v in n.values:
                if isinstance(v, ast.FormattedValue):
                    if v.conversion != -1 or v.format_spec is not None:
                        return False
                    add((norm(v.value),))
                elif not go(v, d):
                    return False
            return True
        if isinstance(n, ast.BinOp) and isinstance(n.op, ast.Add):
            return go(n.left, d) and go(n.right, d)
        if isinstance(n, ast.BinOp) and isinstance(n.op, ast.Mod) and isinstance(n.left, ast.Constant) and isinstance(n.left.value, str):
            vals = list(n.right.elts) if isinstance(n.right, ast.Tuple) else [n.right]
            parts = re.split(r"%s", n.left.value)
            if len(parts) != len(vals) + 1 or any("%" in x.replace("%%", "") for x in parts):
                return False
            for i, x in enumerate(parts):
                add(x.replace("%%", "%"))
                if i < len(vals):
                    add((norm(vals[i]),))
            return True
        if isinstance(n, ast.Name) and d:
            v = _only_value(lc, n.id)
            if v is not None:
                return go(v, d - 1)
        if isinstance(n, (ast.Attribute, ast.Name)):
            add((norm(n),))
            return True
        return False

    return out if go(e, depth) else None


def _security_truth(e: ast.expr, lc: Locals) -> bool | None:
    """is the expression true exactly when `<x>.security` is a non-empty list?  Decided by evaluating it over None, [] and non-empty lists
    when it is built from `.security`, bool / len, constants, not / and / or / if-else and comparisons alone (locals unfolded); None otherwise"""
    import copy

    class Unfold(ast.NodeTransformer):
        def __init__(self) -> None:
            self.depth = 0

        def visit_Attribute(self, n: ast.Attribute) -> ast.AST:
            if n.attr == "security" and isinstance(n.value, ast.Name):
                return ast.Name(id="SECURITY", ctx=ast.Load())
            return self.generic_visit(n)

        def visit_Name(self, n: ast.Name) -> ast.AST:
            v = _only_value(lc, n.id)
            if v is not None and self.depth < 4:
                self.depth += 1
                try:
                    return self.visit(copy.deepcopy(v))
                finally:
                    self.depth -= 1
            return n

    x = Unfold().visit(copy.deepcopy(e))
    if not any(isinstance(n, ast.Name) and n.id == "SECURITY" for n in ast.walk(x)):
        return None

    class Unknown(Exception):
        pass

    import operator

    cmp = {ast.Is: operator.is_, ast.IsNot: operator.is_not, ast.Eq: operator.eq, ast.NotEq: operator.ne, ast.Gt: operator.gt, ast.GtE: operator.ge,
           ast.Lt: operator.lt, ast.LtE: operator.le}

    def val(n: ast.AST, security: Any) -> Any:
        if isinstance(n, ast.Constant):
            return n.value
        if isinstance(n, ast.Name) and n.id == "SECURITY":
            return security
        if isinstance(n, (ast.List, ast.Tuple)):
            return [val(i, security) for i in n.elts]
        if isinstance(n, ast.UnaryOp) and isinstance(n.op, ast.Not):
            return not val(n.operand, security)
        if isinstance(n, ast.BoolOp):
            r = None
            for v in n.values:
                r = val(v, security)
                if bool(r) != isinstance(n.op, ast.And):
                    break
            return r
        if isinstance(n, ast.IfExp):
            return val(n.body if val(n.test, security) else n.orelse, security)
        if isinstance(n, ast.Compare) and len(n.ops) == 1 and type(n.ops[0]) in cmp:
            return cmp[type(n.ops[0])](val(n.left, security), val(n.comparators[0], security))
        if isinstance(n, ast.Call) and isinstance(n.func, ast.Name) and n.func.id in ("bool", "len") and len(n.args) == 1 and not n.keywords:
            return (bool if n.func.id == "bool" else len)(val(n.args[0], security))
        raise Unknown

    for sample in (None, [], [{}], [{"scheme": []}], [{"a": []}, {"b": ["scope"]}]):
        try:
            if bool(val(x, sample)) != bool(sample):
                return False
        except Unknown:
            return None
        except TypeError:       # len(None), None > 0: the expression itself fails for an operation without `security`
            return False
    return True


STR_BUILTINS = ("str", "repr", "format", "ascii")
STR_METHODS = ("format", "format_map", "join", "lower", "upper", "casefold", "title", "capitalize", "swapcase", "strip", "lstrip", "rstrip",
               "replace", "removeprefix", "removesuffix", "zfill", "ljust", "rjust", "center", "expandtabs", "translate")
TO_STR_METHODS = ("isoformat", "strftime", "decode", "hex")


def _is_str(e: ast.AST) -> bool:
    """the generated expression is a str whatever the values of its operands: a literal, an f-string, str(...), a method of str on a
    str, a conversion method of the standard library (isoformat / strftime / decode / hex), both arms of a conditional, a sum of strs"""
    if isinstance(e, ast.Constant):
        return isinstance(e.value, str)
    if isinstance(e, ast.JoinedStr):
        return True
    if isinstance(e, ast.IfExp):
        return _is_str(e.body) and _is_str(e.orelse)
    if isinstance(e, ast.BoolOp):
        return all(_is_str(v) for v in e.values)
    if isinstance(e, ast.BinOp):
        return (isinstance(e.op, ast.Add) and _is_str(e.left) and _is_str(e.right)) or (isinstance(e.op, ast.Mod) and _is_str(e.left))
    if isinstance(e, ast.Subscript):
        return _is_str(e.value)
    if isinstance(e, ast.Call):
        if isinstance(e.func, ast.Name):
            return e.func.id in STR_BUILTINS
        if isinstance(e.func, ast.Attribute):
            return e.func.attr in TO_STR_METHODS or (e.func.attr in STR_METHODS and _is_str(e.func.value))
    return False


def _py_of(ps: list[_Piece], mode: str) -> tuple[ast.AST | None, dict[str, _Piece]]:
    """the Python a path writes, parsed (mode: eval / exec), every hole an identifier of its own: (tree or None, identifier -> hole)"""
    holes: dict[str, _Piece] = {}
    text = ""
    for p in ps:
        if p.kind == "t":
            text += p.text
        else:
            holes[f"HOLE_{len(holes)}_"] = p
            text += f"HOLE_{len(holes) - 1}_"
    try:
        return ast.parse(textwrap.dedent(text).strip(), mode=mode), holes
    except (SyntaxError, ValueError):
        return None, holes


def _generated_class(jx: Any, template: str, cls: str) -> ast.ClassDef | None:
    """the class as the template writes it (skeleton: macros inlined with the arguments of their call sites, holes as placeholders)"""
    text = "\n".join(to_lines(SkelWalker(jx, frozenset()).walk_template(template))[0])
    text = re.sub(HOLE + r"(\d+)" + HOLE, r"H_\1", text)
    text = re.sub(OPQ + r"(\d+)" + OPQ, r"O_\1", text)
    m = re.search(rf"^class {cls}\b.*?(?=^(?:class |def |async def |@)|\Z)", text, re.M | re.S)
    for cand in (text, m.group(0) if m else ""):
        try:
            tree = ast.parse(cand)
        except (SyntaxError, ValueError):
            continue
        for n in tree.body:
            if isinstance(n, ast.ClassDef) and n.name == cls:
                return n
    return None


def _location_set(ix: Any, m: Any, e: ast.AST | None, depth: int = 8) -> set[str] | None:
    """the members of ParameterLocation a constant expression of module m denotes: a display ({A.X, A.Y} / [..] / (..)), set(..) /
    frozenset(..) of one, unions / differences / intersections of such sets (operators and methods), a conditional-free name of a
    module-level constant (followed through imports) or of a class variable; None when the expression is anything else"""
    if e is None or depth <= 0:
        return None
    if isinstance(e, (ast.Set, ast.List, ast.Tuple)):
        out: set[str] = set()
        for x in e.elts:
            if isinstance(x, ast.Starred):
                s = _location_set(ix, m, x.value, depth - 1)
                if s is None:
                    return None
                out |= s
            elif isinstance(x, ast.Attribute) and norm(x.value).rsplit(".", 1)[-1] == "ParameterLocation":
                out.add(x.attr)
            else:
                return None
        return out
    if isinstance(e, ast.BinOp) and isinstance(e.op, (ast.BitOr, ast.Sub, ast.BitAnd, ast.BitXor)):
        a, b = _location_set(ix, m, e.left, depth - 1), _location_set(ix, m, e.right, depth - 1)
        if a is None or b is None:
            return None
        return a | b if isinstance(e.op, ast.BitOr) else a - b if isinstance(e.op, ast.Sub) else a & b if isinstance(e.op, ast.BitAnd) else a ^ b
    if isinstance(e, ast.Call) and not e.keywords:
        if isinstance(e.func, ast.Name) and e.func.id in ("set", "frozenset", "tuple", "list") and len(e.args) <= 1:
            return set() if not e.args else _location_set(ix, m, e.args[0], depth - 1)
        if isinstance(e.func, ast.Attribute) and e.func.attr in ("union", "difference", "intersection", "symmetric_difference", "copy"):
            acc = _location_set(ix, m, e.func.value, depth - 1)
            for x in e.args:
                s = _location_set(ix, m, x, depth - 1)
                if acc is None or s is None:
                    return None
                acc = {"union": acc | s, "difference": acc - s, "intersection": acc & s, "symmetric_difference": acc ^ s}.get(e.func.attr, acc)
            return acc
        return None
    if isinstance(e, (ast.Name, ast.Attribute)):
        r = ix.resolve(m, norm(e))
        if r and r[0] == "var":
            mod, n = r[1]
            return _location_set(ix, mod, mod.variables[n], depth - 1)
        if r and r[0] == "classvar":
            k, n = r[1]
            cv = ix.find_classvar(k, n)
            return _location_set(ix, cv[0].module, cv[1], depth - 1) if cv else None
    return None


CLIENT_GETTERS = ("get_httpx_client", "get_async_httpx_client")
MUTATORS = ("update", "set", "setdefault", "pop", "popitem", "clear", "add", "append", "extend", "insert", "remove", "discard", "delete",
            "set_cookie", "extract_cookies", "clear_expired_cookies", "__setitem__", "__delitem__", "__setattr__", "__delattr__",
            "set_httpx_client", "set_async_httpx_client", "close", "aclose")


def _client_state_changes(stmts: list[ast.stmt], param: str = "client") -> tuple[list[ast.AST], int]:
    """(the places where generated statements change the state of the client they are given, the number of sends through it).
    What belongs to the client: the parameter `client`, the httpx client its getters return, their attributes and items, and the locals
    bound to any of these (flow-insensitive: a local counts when some statement binds it so).  What a call returns is new - except
    what the getters return, which the client keeps and hands out again on the next call."""
    owned: set[str] = {param}

    def rooted(e: ast.AST) -> bool:
        if isinstance(e, ast.Await):
            return rooted(e.value)
        if isinstance(e, ast.NamedExpr):
            return rooted(e.value)
        if isinstance(e, ast.Name):
            return e.id in owned
        if isinstance(e, (ast.Attribute, ast.Subscript, ast.Starred)):
            return rooted(e.value)
        if isinstance(e, ast.IfExp):
            return rooted(e.body) or rooted(e.orelse)
        if isinstance(e, ast.BoolOp):
            return any(rooted(v) for v in e.values)
        if isinstance(e, ast.Call) and isinstance(e.func, ast.Attribute) and e.func.attr in CLIENT_GETTERS + ("__enter__", "__aenter__"):
            return rooted(e.func.value)
        return False

    def bind(t: ast.AST, v: ast.AST) -> bool:
        if isinstance(t, ast.Name) and t.id not in owned and rooted(v):
            owned.add(t.id)
            return True
        if isinstance(t, (ast.Tuple, ast.List)) and isinstance(v, (ast.Tuple, ast.List)) and len(t.elts) == len(v.elts):
            return any([bind(a, b) for a, b in zip(t.elts, v.elts)])
        return False

    nodes_ = [n for st in stmts for n in ast.walk(st)]
    changed = True
    while changed:
        changed = False
        for n in nodes_:
            if isinstance(n, ast.Assign):
                changed |= any([bind(t, n.value) for t in n.targets])
            elif isinstance(n, (ast.AnnAssign, ast.NamedExpr)) and n.value is not None:
                changed |= bind(n.target, n.value)
            elif isinstance(n, (ast.With, ast.AsyncWith)):
                changed |= any([bind(i.optional_vars, i.context_expr) for i in n.items if i.optional_vars is not None])
    bad: list[ast.AST] = []
    sends = 0
    for n in nodes_:
        targets: list[ast.AST] = []
        if isinstance(n, ast.Assign):
            targets = list(n.targets)
        elif isinstance(n, (ast.AugAssign, ast.AnnAssign)):
            targets = [n.target]
        elif isinstance(n, ast.Delete):
            targets = list(n.targets)
        for t in [x for t in targets for x in (t.elts if isinstance(t, (ast.Tuple, ast.List)) else [t])]:
            if isinstance(t, (ast.Attribute, ast.Subscript)) and rooted(t.value):
                bad.append(n)
        if isinstance(n, ast.Call):
            if isinstance(n.func, ast.Attribute) and rooted(n.func.value):
                if n.func.attr in MUTATORS:
                    bad.append(n)
                elif n.func.attr not in CLIENT_GETTERS and isinstance(n.func.value, (ast.Call, ast.Name)) and rooted(n.func.value) \
                        and (isinstance(n.func.value, ast.Call) or n.func.value.id != param):
                    sends += 1      # a method of the httpx client itself (request / send / stream ...)
            elif call_name(n) in ("setattr", "delattr", "object.__setattr__", "object.__delattr__") and n.args and rooted(n.args[0]):
                bad.append(n)
    return bad, sends



WRAPPERS = ("list", "tuple", "iter", "reversed", "sorted", "set", "frozenset")
LOOKUPS =("get", "setdefault", "pop", "index", "count", "__contains__", "__getitem__")


def _parameter_identity(rep: Report, ix: Any) -> None:
    """R03.9.  The roles are found by following the data through the region of add_parameters (the function, its private helpers, the
    generators it iterates, the functions defined inside it), whatever the locals are called and whichever function a statement is in:
    the declared parameters are `<data>.parameters` (and copies / fallbacks / what a helper makes of them); the parameter under
    consideration is an element of them (the variable of a loop or comprehension over them, what a generator of the region yields of
    them, what parameter_from_reference resolves one to, aliases, the parameter of a helper that receives one)."""
    ap = ix.func("Endpoint.add_parameters")
    rg = _Region(ix, ap)

    def is_data(g: Any, e: ast.AST) -> bool:
        """the operation / path item whose parameters are added"""
        return isinstance(e, ast.Name) and g == ap and e.id == "data"

    def is_declared(g: Any, e: ast.AST) -> bool:
        """the declared parameters: <data>.parameters, a copy / fallback (`or []`) / selection of them, what a helper makes of them"""
        if isinstance(e, ast.Attribute):
            return e.attr == "parameters" and rg.denotes(g, e.value, is_data)
        if isinstance(e, ast.BoolOp):
            return any(rg.denotes(g, v, is_declared) for v in e.values)
        if isinstance(e, ast.IfExp):
            return rg.denotes(g, e.body, is_declared) or rg.denotes(g, e.orelse, is_declared)
        if isinstance(e, (ast.ListComp, ast.GeneratorExp, ast.SetComp)):
            return rg.denotes(g, e.elt, is_current)
        if isinstance(e, ast.Call):
            if call_name(e) in WRAPPERS and len(e.args) == 1:
                return rg.denotes(g, e.args[0], is_declared)
            h = rg.helper(e)
            if h is not None:
                return (any(rg.denotes(h, v, is_declared if k else is_current) for k, v in rg.yields(h))
                        or any(rg.denotes(h, r, is_declared) for r in rg.results(h)))
            return False
        if isinstance(e, ast.Name) and any(isinstance(v, ast.List) and not v.elts for _, v in rg.bindings(g, e.id)):
            # a list that is filled with them
            puts = [c for c in calls_in(g.node) if isinstance(c.func, ast.Attribute) and c.func.attr == "append" and len(c.args) == 1
                    and isinstance(c.func.value, ast.Name) and c.func.value.id == e.id]
            return bool(puts) and all(rg.denotes(g, c.args[0], is_current) for c in puts)
        return False

    def is_current(g: Any, e: ast.AST) -> bool:
        """the declared parameter under consideration"""
        if isinstance(e, ast.Name):
            for pos, it in rg.loops(g, e.id):
                if pos == "" and rg.denotes(g, it, is_declared):
                    return True
                if pos == "[1]" and isinstance(it, ast.Call) and call_name(it) == "enumerate" and it.args and rg.denotes(g, it.args[0], is_declared):
                    return True
            return False
        if isinstance(e, ast.Subscript):
            return rg.denotes(g, e.value, is_declared)
        if isinstance(e, ast.IfExp):
            return rg.denotes(g, e.body, is_current) or rg.denotes(g, e.orelse, is_current)
        if isinstance(e, ast.Call):
            args = [*e.args, *[k.value for k in e.keywords]]
            cn = call_name(e).rsplit(".", 1)[-1]
            if cn == "parameter_from_reference" or cn == "cast":
                return any(rg.denotes(g, a, is_current) for a in args)
            if cn == "next" and args:
                return rg.denotes(g, args[0], is_declared)
            h = rg.helper(e)
            return h is not None and any(rg.denotes(h, r, is_current) for r in rg.results(h))
        return False

    def is_name(g: Any, e: ast.AST) -> bool:
        """the name of the parameter under consideration, or a string made from it alone (lower-cased, stripped, str(...))"""
        if isinstance(e, ast.Call) and not e.keywords:
            if isinstance(e.func, ast.Attribute) and e.func.attr in STR_METHODS and all(isinstance(a, ast.Constant) for a in e.args):
                return rg.denotes(g, e.func.value, is_name)
            return call_name(e) == "str" and len(e.args) == 1 and rg.denotes(g, e.args[0], is_name)
        return isinstance(e, ast.Attribute) and e.attr == "name" and rg.denotes(g, e.value, is_current)

    def is_location(g: Any, e: ast.AST) -> bool:
        if isinstance(e, ast.Attribute):
            return rg.denotes(g, e.value, is_current) if e.attr == "param_in" else e.attr in ("value", "name") and rg.denotes(g, e.value, is_location)
        return isinstance(e, ast.Call) and call_name(e) == "str" and len(e.args) == 1 and rg.denotes(g, e.args[0], is_location)

    def parts(e: ast.AST) -> list[ast.AST] | None:
        """the values a composed key is made of: (a, b), [a, b], f"{a}:{b}", a + ":" + b, "%s:%s" % (a, b), "{}:{}".format(a, b), ":".join(..)"""
        if isinstance(e, (ast.Tuple, ast.List, ast.Set)):
            return list(e.elts)
        if isinstance(e, ast.JoinedStr):
            return [v.value for v in e.values if isinstance(v, ast.FormattedValue)]
        if isinstance(e, ast.BinOp) and isinstance(e.op, (ast.Add, ast.Mod)):
            return [e.left, e.right]
        if isinstance(e, ast.Call) and (call_name(e) in ("tuple", "frozenset", "str", "hash") or (isinstance(e.func, ast.Attribute) and e.func.attr in ("format", "join"))):
            return [*e.args, *[k.value for k in e.keywords]]
        return None

    def has_name(g: Any, e: ast.AST) -> bool:
        """a key made from the parameter's name"""
        ps = parts(e)
        return ps is not None and any(rg.denotes(g, x, is_name) or rg.denotes(g, x, has_name) for x in ps)

    def has_location(g: Any, e: ast.AST) -> bool:
        ps = parts(e)
        return ps is not None and any(rg.denotes(g, x, is_location) or rg.denotes(g, x, has_location) for x in ps)

    def is_full_key(g: Any, e: ast.AST) -> bool:
        return has_name(g, e) and has_location(g, e)

    current = {g.qual: {nm for nm in sorted({n.id for n in ast.walk(g.node) if isinstance(n, ast.Name)} | {a.arg for a in ast.walk(g.node) if isinstance(a, ast.arg)})
                        if rg.denotes(g, ast.Name(id=nm, ctx=ast.Load()), is_current)} for g in rg.funcs}
    rep.require(any(current.values()), "the declared parameters (data.parameters) are iterated somewhere in the region of add_parameters")
    everybody = frozenset(n for ns in current.values() for n in ns)

    def role_text(g: Any, n: ast.AST) -> str:
        """the test with every local replaced by its role (the parameter under consideration / some other local)"""
        import copy

        local = set(rg.lc[g.qual].defs) | {a.arg for a in ast.walk(g.node) if isinstance(a, ast.arg)}

        class R(ast.NodeTransformer):
            def visit_Name(self, x: ast.Name) -> ast.AST:
                if x.id not in local:
                    return x
                probe = ast.Name(id=x.id, ctx=ast.Load())
                role = ("PARAMETER" if x.id in current[g.qual] else "KEY" if rg.denotes(g, probe, has_name) else "NAME" if rg.denotes(g, probe, is_name) else "_")
                return ast.copy_location(ast.Name(id=role, ctx=x.ctx), x)

        return ast.unparse(R().visit(copy.deepcopy(n)))[:100]

    def constant(e: ast.AST) -> bool:
        return isinstance(e, ast.Constant) or (isinstance(e, (ast.Tuple, ast.List, ast.Set)) and all(constant(x) for x in e.elts))

    def is_constant_table(g: Any, e: ast.AST) -> bool:
        """a module-level constant of particular names"""
        v = g.module.variables.get(e.id) if isinstance(e, ast.Name) and e.id not in rg.lc[g.qual].defs else None
        if isinstance(v, ast.Call) and call_name(v) in ("set", "frozenset", "tuple", "list") and len(v.args) == 1:
            v = v.args[0]
        return v is not None and constant(v)

    parents: dict[str, dict[int, ast.AST]] = {g.qual: {id(c): n for n in ast.walk(g.node) for c in ast.iter_child_nodes(n)} for g in rg.funcs}

    def decisions(g: Any, n: ast.AST, depth: int = 3) -> list[tuple[Any, ast.AST]]:
        """(function, test) of the decisions the value of the expression n takes part in or is made under: the tests of the statements,
        conditional expressions and comprehension filters around it; when it is kept in a local, those around the reads of the local;
        when it is what a helper of the region returns, those around the calls of the helper"""
        out: list[tuple[Any, ast.AST]] = []
        up = parents[g.qual]
        x: ast.AST | None = n
        while x is not None and x is not g.node:
            p = up.get(id(x))
            if isinstance(p, (ast.If, ast.While, ast.IfExp)):
                out.append((g, p.test))
            elif isinstance(p, ast.comprehension):
                out += [(g, t) for t in p.ifs]
            elif isinstance(p, (ast.ListComp, ast.SetComp, ast.GeneratorExp, ast.DictComp)) and x not in p.generators:
                out += [(g, t) for c in p.generators for t in c.ifs]
            elif isinstance(p, ast.BoolOp):
                out.append((g, p))
            elif depth and isinstance(p, (ast.Assign, ast.AnnAssign, ast.NamedExpr)) and x is p.value:
                ts = p.targets if isinstance(p, ast.Assign) else [p.target]
                for t in [t for t in ts if isinstance(t, ast.Name)]:
                    for r in ast.walk(g.node):
                        if isinstance(r, ast.Name) and r.id == t.id and isinstance(r.ctx, ast.Load):
                            out += decisions(g, r, depth - 1)
            elif depth and isinstance(p, ast.Return) and g != rg.root:
                for caller, c in rg.sites.get(g.qual, []):
                    out += decisions(caller, c, depth - 1)
            x = p
        return out

    def location_decides(g: Any, n: ast.AST) -> bool:
        """the location of the parameter under consideration is read by a decision the test n belongs to"""
        return any(is_location(h, a) for h, t in decisions(g, n) for a in ast.walk(t) if isinstance(a, ast.Attribute))

    # identity tests: every comparison / membership test / lookup in the region that is made with the name of the parameter under
    # consideration or with a key made from it
    n_id = 0
    seen: set[int] = set()
    for g in rg.funcs:
        comps = [k for k in ast.walk(g.node) if isinstance(k, (ast.GeneratorExp, ast.ListComp, ast.SetComp, ast.DictComp))]
        for n in ast.walk(g.node):
            if id(n) in seen:
                continue
            seen.add(id(n))
            pairs: list[tuple[ast.AST, ast.AST]] = []
            if isinstance(n, ast.Compare):
                xs = [n.left, *n.comparators]
                for a, op, b in zip(xs, n.ops, xs[1:]):
                    if isinstance(op, (ast.Eq, ast.NotEq, ast.In, ast.NotIn)):
                        pairs += [(a, b), (b, a)]
            elif isinstance(n, ast.Call) and isinstance(n.func, ast.Attribute) and n.func.attr in LOOKUPS and n.args:
                pairs = [(n.args[0], n.func.value)]
            elif isinstance(n, ast.Subscript) and isinstance(n.ctx, ast.Load):
                pairs = [(n.slice, n.value)]
            for idn, other in pairs:
                key = rg.denotes(g, idn, has_name)
                if not key and not rg.denotes(g, idn, is_name):
                    continue
                n_id += 1
                if key:
                    both = rg.denotes(g, idn, is_full_key)
                    msg = "the key a parameter is recognised by is made from its name without its location"
                else:
                    # compared by name alone: the location must have selected what the name is compared against - it flows into the other
                    # operand (for a comparison inside a comprehension: into the comprehension), or the parameter is handed over as a whole
                    unit = next((k for k in comps if any(x is n for x in ast.walk(k))), other)
                    flow = _sources_in(rg, g, unit, stop=everybody)
                    both = any(is_location(h, x) for h, e in flow for x in ast.walk(e) if isinstance(x, ast.Attribute)) or any(
                        isinstance(a, ast.Name) and rg.denotes(h, a, is_current) for h, e in flow for c in calls_in(e) for a in [*c.args, *[k.value for k in c.keywords]])
                    # - or the same decision reads the location next to the name (`p.param_in == HEADER and p.name in RESERVED`, the test
                    # nested in one on the location): names the document uses in one location are free in the others
                    both = both or location_decides(g, n)
                    msg = ("a parameter is skipped / rejected by name alone: a path-item parameter with the same name in another location "
                           "is lost") if not constant(other) and not is_constant_table(g, other) else (
                           "a parameter is singled out by its name alone: parameters of that name in every other location are treated alike")
                rep.check(both, "R03.9", f"Endpoint.add_parameters::identity[{role_text(g, n)}]", msg, where(g, n), lhs=norm(n)[:100],
                          rhs="the test involves the name and the location of the parameter")
    rep.floor("parameter_identity_tests", n_id, 1)


IDENTITY_FIELDS = ("name", "param_in")


def _wire_name_handover(rep: Report, ix: Any) -> None:
    """R03.11.  Between the document and the templates a parameter is rebuilt more than once (a Parameter for components/parameters, a
    Property for the endpoint): each time its schema is handed on together with a name (a location), these are the name (the location)
    of the parameter the schema is taken from.  Sites are found by what they pass (`<x>.param_schema`, in place, through a local or
    through a parameter that every caller fills with it), not by whom they call; names and schemas that the calling function received
    itself are followed to the callers of that function."""
    import copy

    tops = [f for f in ix.all_functions if f.parent is None]
    lcs = {f.qual: Locals(f.node) for f in tops}
    by_name: dict[str, list[Any]] = {}
    for f in ix.all_functions:
        by_name.setdefault(f.name, []).append(f)
    called: dict[str, list[tuple[Any, ast.Call]]] = {}
    for g in tops:
        for c in calls_in(g.node):
            called.setdefault(call_name(c).rsplit(".", 1)[-1], []).append((g, c))

    def scope_of(f: Any, n: ast.AST) -> ast.AST:
        """the innermost function definition (f itself or a function defined inside it) that contains the node"""
        best = f.node
        for d in ast.walk(f.node):
            if isinstance(d, (ast.FunctionDef, ast.AsyncFunctionDef)) and d is not f.node and any(x is n for x in ast.walk(d)) \
                    and any(x is d for x in ast.walk(best)):
                best = d
        return best

    def resolve(f: Any, e: ast.AST, depth: int = 4) -> ast.AST:
        """the expression a local stands for (bound once, by a plain assignment)"""
        while isinstance(e, ast.Name) and depth:
            v = _only_value(lcs[f.qual], e.id)
            if v is None:
                break
            e, depth = v, depth - 1
        return e.value if isinstance(e, ast.NamedExpr) else e

    def arguments(c: ast.Call, h: Any = None) -> dict[str, ast.AST] | None:
        """parameter name -> argument (positional arguments through the signature of the function called: h, or the only function of
        that name the package defines); None when the call spreads a sequence / mapping"""
        if any(isinstance(a, ast.Starred) for a in c.args) or any(k.arg is None for k in c.keywords):
            return None
        if h is None:
            hs = by_name.get(call_name(c).rsplit(".", 1)[-1], [])
            h = hs[0] if len(hs) == 1 else None
        return {**(_Region.args_for(h, c) if h is not None and c.args else {}), **{k.arg: k.value for k in c.keywords}}

    def callers(f: Any, d: ast.AST) -> list[tuple[Any, ast.Call, dict[str, ast.AST] | None]] | None:
        """(function, call, arguments) of the calls of the function definition d of f: for f itself every call of that name in the package
        (None when the package defines several functions of that name: whose calls they are is not known), for a function defined
        inside f the calls made in f"""
        if d is not f.node:
            return [(f, c, arguments(c, _FakeDef(d))) for c in calls_in(f.node) if isinstance(c.func, ast.Name) and c.func.id == d.name]
        if len(by_name.get(f.name, [])) != 1:
            return None
        return [(g, c, arguments(c, f)) for g, c in called.get(f.name, [])]

    def received(f: Any, at: ast.AST, *es: ast.AST) -> tuple[ast.AST, set[str]]:
        """(function definition around `at`, the parameters of it - never rebound - that the expressions read)"""
        d = scope_of(f, at)
        a = d.args
        return d, ({n for e in es for n in names_in(e)} & {x.arg for x in [*a.posonlyargs, *a.args, *a.kwonlyargs]}) - set(lcs[f.qual].defs)

    def at_caller(e: ast.AST, args: dict[str, ast.AST], ps: set[str]) -> ast.AST:
        """the expression as the caller would have written it: parameters replaced by the arguments"""
        class S(ast.NodeTransformer):
            def visit_Name(self, n: ast.Name) -> ast.AST:
                return copy.deepcopy(args[n.id]) if n.id in ps else n

        return S().visit(copy.deepcopy(e))

    def is_schema(f: Any, at: ast.AST, v: ast.AST, depth: int = 2) -> bool:
        """v is the schema of a document parameter: `<x>.param_schema`, or a parameter of the function that every caller fills with one"""
        rv = resolve(f, v)
        if isinstance(rv, ast.Attribute):
            return rv.attr == "param_schema"
        if not (isinstance(rv, ast.Name) and depth):
            return False
        d, ps = received(f, at, rv)
        sites = callers(f, d) if ps else None
        return bool(sites) and all(args is not None and rv.id in args and is_schema(g, c, args[rv.id], depth - 1) for g, c, args in sites)

    def carries(f: Any, at: ast.AST, v: ast.AST, sx: ast.AST, field: str, depth: int = 3) -> tuple[bool, str]:
        """v is `<x>.<field>` of the parameter <x> whose schema sx is (`<x>.param_schema`): as written in f at `at`, through locals, or -
        when they are made from parameters of the function - as every caller of the function writes them"""
        rv, rs = resolve(f, v), resolve(f, sx)
        if isinstance(rs, ast.Attribute) and rs.attr == "param_schema" and isinstance(rv, ast.Attribute) and rv.attr == field \
                and norm(resolve(f, rv.value)) == norm(resolve(f, rs.value)):
            return True, norm(rv)
        d, ps = received(f, at, rv, rs)
        if not (depth and ps):
            return False, norm(rv)[:80]
        sites = callers(f, d)
        rep.require(sites is not None, f"the calls of {f.name}, which receives `{'`, `'.join(sorted(ps))}`")
        for g, c, args in sites:
            rep.require(args is not None, f"arguments of the call of {f.name} in {short(g)}")
            if not ps <= set(args):
                return False, f"{short(g)}: {norm(c)[:80]}"
            ok, why = carries(g, c, at_caller(rv, args, ps), at_caller(rs, args, ps), field, depth - 1)
            if not ok:
                return False, f"{short(g)}: {why}"
        return True, f"{len(sites)} call(s) of {getattr(d, 'name', f.name)}"

    n_sites = 0
    for f in tops:
        for c in calls_in(f.node):
            args = arguments(c)
            fields = [k for k in IDENTITY_FIELDS if args and k in args]
            if not fields:
                continue
            sxs = [v for k, v in args.items() if k not in IDENTITY_FIELDS and is_schema(f, c, v)]
            if not sxs:
                continue
            n_sites += 1
            callee = call_name(c).rsplit(".", 1)[-1]
            for field in fields:
                res = [carries(f, c, args[field], sx, field) for sx in sxs]
                rep.check(all(ok for ok, _ in res), "R03.11", f"{callee}::{field}",
                          f"`{callee}` receives the schema of a document parameter (`{norm(resolve(f, sxs[0]))}`) but its `{field}` is not that parameter's "
                          f"`{field}` ({[why for ok, why in res if not ok][:1]}): the argument would be sent under another "
                          f"{'name' if field == 'name' else 'location'} than the document declares", where(f, c), lhs=[why for _, why in res],
                          rhs=f"<the parameter whose schema is passed>.{field}")
    rep.floor("parameter_schema_handovers", n_sites, 1)


class _FakeDef:
    """a function defined inside another one, as far as _Region.args_for needs to know it"""

    def __init__(self, node: Any):
        self.node = node
        self.kind = "function"


def run(rep: Report, ctx: Any) -> str:
    ix = ctx.py
    jx = ctx.jinja
    it, ji = ctx.flow
    em = jx.templates.get("endpoint_macros.py.jinja")
    et = jx.templates.get("endpoint_module.py.jinja")
    rep.require(em and et, "endpoint templates")
    rep.rule("R03.1", "header, cookie and query stores use the wire name as key inside a \"...\" literal and the python name as value; path "
                      "placeholders are rewritten ({name}->{python_name}, braces included, the result stored as the endpoint's path) and "
                      "formatted over the same collection with python_name; when the names in the path template differ from the names of "
                      "the path parameters sort_parameters can only end in an error")
    rep.rule("R03.2", "definite assignment: the guard of every use of headers / cookies / params implies the guard of its definition")
    rep.rule("R03.3", "BodyType members = httpx keyword names; for a body of every member some path through body_to_kwarg assigns the destination; "
                      "every media-type branch assigns a member; wherever the module serialises a body the result is stored under its "
                      "body_type.value and Content-Type is written from its content_type (the document's own key) - except, and never, for "
                      "the only body of an endpoint when it is multipart")
    rep.rule("R03.4", "optional arguments are not sent and set ones are: the query store is filtered, whenever it is built, by conditions "
                      "that drop UNSET and keep every value that is neither UNSET nor None; guarded_statement emits the statement without "
                      "its Unset test only for required properties (truth table); header stores go through guarded_statement")
    rep.rule("R03.13", "a query parameter goes into the query once: on every path through one round of query_params (the macros of the file "
                       "it calls inlined; destinations and statements handed to other macros read as what they say) the store `params` is "
                       "either keyed by the parameter's wire name or the parameter is spread into it (`params.update(...)`: an object "
                       "sent as its fields) - never both (its own key would be sent next to its fields), never neither (it would not be sent)")
    rep.rule("R03.5", "every property class that allows the header location and whose Python type is not str defines transform_header; on "
                      "every path through it transform_header writes one expression that is computed from its argument and is a str "
                      "whatever the value (str(...), an f-string, a str literal per arm, ...); on every path through header_params on which "
                      "the kind's template defines transform_header the value stored is what transform_header writes for the python name")
    rep.rule("R03.6", "sync_detailed/asyncio_detailed and sync/asyncio are equal as token streams modulo async/await and the client getter")
    rep.rule("R03.12", "a request does not depend on earlier calls: no statement an endpoint module can contain changes the state of the client "
                       "it is given - nothing reached from the parameter `client` or from the httpx client its getters return "
                       "(get_httpx_client / get_async_httpx_client), directly or through locals bound to such objects, is assigned to, "
                       "deleted from or called with a mutating method (cookies / headers / params moved into the shared httpx client stay "
                       "there for every later call); the httpx client is only used to send")
    rep.rule("R03.7", "requires_security is true exactly when the operation's security is not empty; on every path through `arguments` taken "
                      "for a secured operation the annotation of `client` is AuthenticatedClient; in the AuthenticatedClient class as "
                      "the template writes it, every construction of httpx.Client / httpx.AsyncClient is dominated by a store that overwrites "
                      "headers[self.auth_header_name] with a value read from self.token")
    rep.rule("R03.10", "a model sent as multipart has to_multipart (which model.py.jinja writes only for a class whose is_multipart_body is set): "
                       "a copy that sets is_multipart_body flows into Body(prop=) and into what is registered as classes_by_name; nowhere in "
                       "the package is the flag of an existing object set to anything but True or `<its old value> or ...` (another use of "
                       "the same class, as JSON or form data, must not take the method away)")
    rep.rule("R03.9", "parameter identity is (name, location): wherever the region of add_parameters (the function, its private helpers, the "
                      "generators it iterates, its closures) compares, tests for membership or looks up the name of the declared parameter "
                      "under consideration (an element of data.parameters, however it got there) or a key made from that name, the "
                      "parameter's location takes part as well - in the key, or in what selects the collection compared against")
    rep.rule("R03.11", "the wire name and the location travel with the schema: every call in the package that hands on the schema of a document "
                       "parameter (`<x>.param_schema`, in place, through a local, or through a parameter that every caller fills with it) "
                       "together with a `name` / `param_in` passes `<x>.name` / `<x>.param_in` of that same parameter - written in place, held in "
                       "a local, or made from parameters of the calling function, in which case every call of that function is checked instead "
                       "(Parameter(...) rebuilt for components/parameters, property_from_data(...) for the endpoint's argument)")

    # ---- R03.1 -------------------------------------------------------------------------------------------------------
    sites = {}
    for e in ji.emissions.values():
        # wire names of parameters: `<x>.name` where x is a macro parameter named property / parameter or the (canonical) variable of
        # a loop over one of the endpoint's parameter collections
        if e.template in ("endpoint_macros.py.jinja", "property_templates/helpers.jinja") and e.hole.endswith(".name") and \
                re.fullmatch(r"(property|parameter|endpoint\.\w*parameters(\(\))?\[\*\]|\(endpoint\.list_all_parameters\(\)\)\[\*\])\.name", e.hole):
            sites.setdefault((e.template, e.macro, e.hole), set()).add(e.kind)
    rep.floor("wire_name_sites", len(sites), 2)
    for (tn, mn, hole), kinds in sorted(sites.items()):
        rep.check(all(k.endswith('STR1"') for k in kinds), "R03.1", f"{tn}::{mn}::{hole}", "a wire name is not emitted inside a \"...\" literal",
                  where=f"{PKG}/templates/{tn}", lhs=sorted(kinds), rhs='STR1"')
    # (the store of a location is written by its macro or by a macro of the same file that it calls)
    macro_has = {mn for (tn, mn, hole) in sites if tn == em.name}
    for mn in ("cookie_params", "query_params"):
        rep.check(bool(_macro_region(em, mn) & macro_has), "R03.1", f"endpoint_macros.py.jinja::{mn}::keyed-by-wire-name", "the store is not keyed by the wire name",
                  where=f"{PKG}/templates/{em.name}")
    hp = em.macros.get("header_params")
    rep.require(hp, "header_params")
    # the statement handed to guarded_statement (third argument), whatever the template calls it: the text of its definition
    gcalls = [c for c in hp.find_all(nodes.Call) if expr_text(c.node) == "guarded_statement" and len(c.args) >= 3]
    stm_txts = [expr_text(c.args[2]) for c in gcalls]
    rep.check(bool(gcalls) and all("endpoint.header_parameters[*].name" in t and "'headers[\"'" in t for t in stm_txts), "R03.1",
              "endpoint_macros.py.jinja::header_params::keyed-by-wire-name", "headers are not keyed by the wire name", where=f"{PKG}/templates/{em.name}")
    sp = ix.func("Endpoint.sort_parameters")
    srg = _Region(ix, sp)
    # who is who in sort_parameters and its private helpers, whatever the locals are called and whichever function an expression lives in
    COPIES = ("deepcopy", "copy", "evolve", "replace")

    def is_endpoint(g: Any, e: ast.AST) -> bool:
        """the endpoint that is sorted: the parameter `endpoint` of sort_parameters, a copy of it, the one a private helper returns"""
        if isinstance(e, ast.Name) and g == sp and e.id == "endpoint":
            return True
        if not isinstance(e, ast.Call):
            return False
        if call_name(e).rsplit(".", 1)[-1] in COPIES and e.args and srg.denotes(g, e.args[0], is_endpoint):
            return True
        h = srg.helper(e)       # or what a private helper hands back of it
        return h is not None and any(isinstance(r, ast.Return) and r.value is not None and srg.denotes(h, r.value, is_endpoint) for r in ast.walk(h.node))

    def is_path(g: Any, e: ast.AST) -> bool:
        """its path template, or a string made from it by a method of str (path.replace(...))"""
        if isinstance(e, ast.Attribute) and e.attr == "path":
            return srg.denotes(g, e.value, is_endpoint)
        return isinstance(e, ast.Call) and isinstance(e.func, ast.Attribute) and srg.denotes(g, e.func.value, is_path)

    def is_path_params(g: Any, e: ast.AST) -> bool:
        """its path parameters (or a list / tuple of them)"""
        if isinstance(e, ast.Attribute) and e.attr == "path_parameters":
            return srg.denotes(g, e.value, is_endpoint)
        return isinstance(e, ast.Call) and call_name(e) in ("list", "tuple") and len(e.args) == 1 and srg.denotes(g, e.args[0], is_path_params)

    def is_path_param(g: Any, e: ast.AST) -> bool:
        """one of its path parameters: the variable of a loop / comprehension over them, an element taken by subscript"""
        if isinstance(e, ast.Subscript):
            return srg.denotes(g, e.value, is_path_params)
        if not isinstance(e, ast.Name):
            return False
        for pos, it in srg.loops(g, e.id):
            if pos == "" and srg.denotes(g, it, is_path_params):
                return True
            if pos == "[1]" and isinstance(it, ast.Call) and call_name(it) == "enumerate" and it.args and srg.denotes(g, it.args[0], is_path_params):
                return True
        return False

    def attr_of_param(g: Any, text: str, attr: str) -> str | None:
        """`<x>.<attr>` (text) where x is one of the path parameters -> x"""
        x = text[:-len(attr) - 1] if text.endswith("." + attr) else ""
        return x if x.isidentifier() and srg.denotes(g, ast.Name(id=x, ctx=ast.Load()), is_path_param) else None

    # the rewrite, wherever it lives (sort_parameters or a private helper of it) and however its strings are built: a call
    # <path>.replace(A, B) on the endpoint's path (or a string made from it) where A is the text "{" <p>.name "}" and B the text
    # "{" <p>.python_name "}" for one and the same path parameter p of the endpoint - braces included, or a name that is part of
    # another one is rewritten too - and whose result ends up in the endpoint's path
    rewrites = []
    for g in srg.funcs:
        gl = srg.lc[g.qual]
        for c in calls_in(g.node):
            if not (isinstance(c.func, ast.Attribute) and c.func.attr == "replace" and len(c.args) == 2 and not c.keywords):
                continue
            old, new = _str_pieces(c.args[0], gl), _str_pieces(c.args[1], gl)
            if not (old and new and len(old) == len(new) == 3 and (old[0], old[2], new[0], new[2]) == ("{", "}", "{", "}")
                    and isinstance(old[1], tuple) and isinstance(new[1], tuple)):
                continue
            pv = attr_of_param(g, old[1][0], "name")
            if pv is not None and new[1][0] == f"{pv}.python_name" and srg.denotes(g, c.func.value, is_path):
                rewrites.append(c)
    # what is stored as the endpoint's path: <endpoint>.path = V, evolve(<endpoint>, path=V)
    stored = []
    for g in srg.funcs:
        for n in ast.walk(g.node):
            if isinstance(n, (ast.Assign, ast.AnnAssign)) and n.value is not None:
                for t in (n.targets if isinstance(n, ast.Assign) else [n.target]):
                    if isinstance(t, ast.Attribute) and t.attr == "path" and srg.denotes(g, t.value, is_endpoint):
                        stored.append((g, n.value))
            elif isinstance(n, ast.Call) and n.args and srg.denotes(g, n.args[0], is_endpoint):
                stored += [(g, k.value) for k in n.keywords if k.arg == "path"]
    kept = [c for c in rewrites if any(x is c for g, v in stored for x in _sources(srg, g, v))]
    rep.check(bool(kept), "R03.1", "Endpoint.sort_parameters::placeholder-rewrite",
              "path placeholders are not rewritten from name to python_name over path_parameters" if not rewrites else
              "the path with its placeholders rewritten is not stored as the endpoint's path", where(sp, sp.node))
    fmt_loops = [f for f in et.tree.find_all(nodes.For) if expr_text(f.iter) == "endpoint.path_parameters"]
    ok = any("endpoint.path_parameters[*].python_name" in " ".join(expr_text(c) for o in f.find_all(nodes.Output) for c in o.nodes if not isinstance(c, nodes.TemplateData))
             for f in fmt_loops)
    rep.check(ok, "R03.1", "endpoint_module.py.jinja::format-over-path-parameters", ".format(...) keywords are not python_name over endpoint.path_parameters",
              where=f"{PKG}/templates/{et.name}")
    # the names in the path template are compared with the names of the path parameters, and when they differ sort_parameters can only
    # end in an error - whichever arm of the test that is, early return or nested, the comparison made in place, held in a local or
    # made by a private helper that returns its outcome (or the error)
    def is_template_names(g: Any, e: ast.AST) -> bool:
        """the names found in the path template: <regex>.findall(<path>) / re.findall(<regex>, <path>)"""
        return (isinstance(e, ast.Call) and call_name(e).rsplit(".", 1)[-1] == "findall"
                and any(srg.denotes(g, a, is_path) for a in [*e.args, *[k.value for k in e.keywords]]))

    def is_param_names(g: Any, e: ast.AST) -> bool:
        """the names of the path parameters, in their order: [p.name for p in <path parameters>], or a list filled by a loop over them"""
        if isinstance(e, ast.Call) and call_name(e) == "list" and len(e.args) == 1 and isinstance(e.args[0], ast.GeneratorExp):
            e = e.args[0]
        if isinstance(e, (ast.ListComp, ast.GeneratorExp)):
            gen = e.generators[0]
            return (len(e.generators) == 1 and not gen.ifs and isinstance(gen.target, ast.Name) and norm(e.elt) == f"{gen.target.id}.name"
                    and srg.denotes(g, gen.iter, is_path_params))
        if isinstance(e, ast.Name) and any(isinstance(v, ast.List) and not v.elts for _, v in srg.bindings(g, e.id)):
            uses = [c for c in calls_in(g.node) if isinstance(c.func, ast.Attribute) and isinstance(c.func.value, ast.Name) and c.func.value.id == e.id]
            return bool(uses) and all(c.func.attr == "append" and len(c.args) == 1 and attr_of_param(g, norm(c.args[0]), "name") for c in uses)
        return False

    seen_cmp: list[ast.AST] = []

    def names_differ(g: Any, t: ast.Compare) -> bool | None:
        """the outcome of the comparison of the two lists of names when they differ"""
        if len(t.ops) == 1 and isinstance(t.ops[0], (ast.Eq, ast.NotEq)):
            for a, b in ((t.left, t.comparators[0]), (t.comparators[0], t.left)):
                if srg.denotes(g, a, is_template_names) and srg.denotes(g, b, is_param_names):
                    seen_cmp.append(t)
                    return isinstance(t.ops[0], ast.NotEq)
        return None

    differ = _Assuming(srg, names_differ)
    ends, falls = differ.ends(sp)
    errs = error_names(sp.node)
    in_error = [isinstance(r, ast.Raise) or (isinstance(r, ast.Return) and r.value is not None and (
        differ.value(sp, r.value) == differ.ERR or (isinstance(r.value, ast.Name) and r.value.id in errs))) for r in ends]
    diagnosed = bool(seen_cmp) and not falls and bool(in_error) and all(in_error)
    rep.check(diagnosed, "R03.1", "Endpoint.sort_parameters::path-template-check",
              "a mismatch between the path template and the path parameters is not diagnosed", where(sp, sp.node),
              lhs=sorted({norm(r)[:60] for r in ends}) if seen_cmp else "no comparison of the names in the path with the names of the path parameters")

    # ---- R03.2 ---------------------------------------------------------------------------------------------------------
    defs = {"headers": ("header_params", "headers: dict[str, Any] = {}"), "cookies": ("cookie_params", "cookies = {}"),
            "params": ("query_params", "params: dict[str, Any] = {}")}
    own_macros = {m.name: m for m in et.tree.find_all(nodes.Macro)}

    def _with_own_macros(frs: list[Any], depth: int = 2) -> Iterator[Any]:
        """the fragments, and for every call of a macro of the module itself what that macro writes there: under the guards and in
        the loops of the call site as well as its own (the tests a macro makes of its parameters are atoms like any other)"""
        for f in frs:
            yield f
            if f.kind != "expr" or not depth:
                continue
            for c in [f.node, *f.node.find_all(nodes.Call)]:
                m = own_macros.get(c.node.name) if isinstance(c, nodes.Call) and isinstance(c.node, nodes.Name) else None
                if m is not None:
                    inner = [tplq.Frag(k.kind, k.text, f.line, f.guards + k.guards, f.guard_nodes + k.guard_nodes, f.loops + k.loops, k.node)
                             for k in tplq.frags(m.body)]
                    yield from _with_own_macros(inner, depth - 1)

    top = list(_with_own_macros(list(tplq.frags(et.tree.body))))
    gk_start = next((f.line for f in top if f.kind == "data" and "def _get_kwargs(" in f.text), None)
    gk_end = next((f.line for f in top if f.kind == "data" and "def _parse_response(" in f.text), None)
    rep.require(gk_start is not None and gk_end is not None, "_get_kwargs region")
    n_uses = 0
    def_frag: dict[str, Any] = {}
    for var, (mn, deftext) in defs.items():
        m = em.macros.get(mn)
        rep.require(m, mn)
        dfr = next((f for f in tplq.frags(m.body) if f.kind == "data" and deftext in f.text), None)
        rep.check(dfr is not None, "R03.2", f"{var}::defined", f"`{var}` is not defined by {mn}", where=f"{PKG}/templates/{em.name}")
        if dfr is None:
            continue
        def_frag[var] = dfr
        pat = re.compile(rf'(?<![\w."]){var}\b(?!\s*=[^=])(?!")')
        uses = [f for f in top if f.kind == "data" and gk_start <= f.line < gk_end and pat.search(f.text)]
        uses += [f for f in tplq.frags(m.body) if f.kind == "data" and f is not dfr and re.search(rf"(?<![\w.\"]){var}[\[\.]", f.text)]
        for u in uses:
            n_uses += 1
            bad = _implication_counterexample(u, dfr)
            rep.check(bad is None, "R03.2", f"{var}::use[{u.text.strip().splitlines()[0][:40] if u.text.strip() else ''}]",
                      f"`{var}` can be used where it was never defined (e.g. {bad})",
                      where=f"{PKG}/templates/{et.name}:{u.line}", lhs=[g for g, _ in u.guards], rhs=[g for g, _ in dfr.guards])
    rep.floor("guarded_local_uses", n_uses, 4)

    # ---- R03.3 -----------------------------------------------------------------------------------------------------------
    bt = ix.cls("BodyType")
    members = {}
    for k, v in bt.classvars.items():
        if isinstance(v, ast.Constant) and isinstance(v.value, str):
            members[k] = v.value
    rep.check(set(members.values()) == {"json", "data", "files", "content"}, "R03.3", "BodyType::httpx-keywords",
              f"BodyType values {sorted(members.values())} are not httpx's request keywords", where=f"{bt.module.rel}:{bt.node.lineno}",
              lhs=sorted(members.values()), rhs=["content", "data", "files", "json"])
    btk = em.macros.get("body_to_kwarg")
    rep.require(btk, "body_to_kwarg")
    rep.require(len(btk.args) >= 2, "body_to_kwarg(body, destination)")
    bparam, dparam = btk.args[0].name, btk.args[1].name
    BT = {f"{bparam}.body_type", f"{bparam}.body_type.value"}

    def _is_member(member: str) -> Any:
        """decides the tests that compare the body's type with constants, for a body of the given type (whatever the order of the
        operands, `==` / `!=` / `in` / `not in`, the type held in a local or handed to a helper macro)"""
        def known(t: nodes.Node, text_of: Any) -> bool | None:
            if not isinstance(t, nodes.Compare) or len(t.ops) != 1:
                return None
            a, op, b = t.expr, t.ops[0].op, t.ops[0].expr
            if op in ("eq", "ne") and text_of(b) in BT:
                a, b = b, a
            if text_of(a) not in BT:
                return None
            if op in ("eq", "ne") and isinstance(b, nodes.Const):
                return (b.value == member) == (op == "eq")
            if op in ("in", "notin") and isinstance(b, (nodes.List, nodes.Tuple)) and all(isinstance(x, nodes.Const) for x in b.items):
                return (member in [x.value for x in b.items]) == (op == "in")
            return None
        return known

    def _assigns_destination(ps: list[_Piece]) -> bool:
        """the path writes `<destination> = ...` itself or hands the destination to a macro that does"""
        for i, p in enumerate(ps):
            if p.kind != "h":
                continue
            if _flat(p.text) == dparam and re.match(r"[ \t]*=(?!=)", _written(ps[i + 1:i + 3])):
                return True
            if any(len(a) == 1 and a[0].kind == "h" and _flat(a[0].text) == dparam for a in p.args):
                return True
        return False

    # a body of every type is serialised: on some path through body_to_kwarg (and the macros of the same file it calls) that a body of
    # this type can take, the destination is assigned.  A comparison with a value that is no member is dead text, not a defect.
    handled = sorted(v for v in set(members.values()) if any(_assigns_destination(ps) for _, ps in _paths(em, btk, _is_member(v))))
    rep.check(handled == sorted(set(members.values())), "R03.3", "body_to_kwarg::branches", f"body_to_kwarg assigns its destination for bodies of type "
              f"{handled}, BodyType has {sorted(members.values())}", where=f"{PKG}/templates/{em.name}:{btk.lineno}", lhs=handled, rhs=sorted(members.values()))
    bfd = ix.func("bodies.body_from_data")
    brg = _Region(ix, bfd)
    # the bodies are built by body_from_data or by a private helper of it
    body_calls = [(g, c) for g in brg.funcs for c in calls_in(g.node) if call_name(c) == "Body"]
    rep.require(body_calls, "Body(...) construction in body_from_data")
    body_fields = list(ix.cls("Body").fields)

    def body_arg(c: ast.Call, field: str) -> ast.AST | None:
        """what the construction passes for the field (by keyword or by position)"""
        kw = {k.arg: k.value for k in c.keywords}
        if field in kw:
            return kw[field]
        i = body_fields.index(field) if field in body_fields else -1
        return c.args[i] if 0 <= i < len(c.args) and not any(isinstance(x, ast.Starred) for x in c.args[:i + 1]) else None

    assigned = set()
    for g, c in body_calls:
        v = body_arg(c, "body_type")
        rep.require(v is not None, "Body(body_type=...)")
        # the members that can reach Body(body_type=): written in place, held in a local, passed to the helper that builds the body,
        # returned by a private helper, looked up in a module-level table - whatever flows into the argument
        assigned |= {norm(n) for x in _sources(brg, g, v) for n in ast.walk(x)
                     if isinstance(n, ast.Attribute) and isinstance(n.value, ast.Name) and n.value.id == bt.name}
    rep.check(assigned == {f"BodyType.{k}" for k in members}, "R03.3", "body_from_data::assigns-every-member",
              f"media type branches assign {sorted(assigned)}", where(bfd, bfd.node), lhs=sorted(assigned), rhs=sorted(f"BodyType.{k}" for k in members))
    # the places where the module serialises a body: the calls of body_to_kwarg(<body>, ...) that a path through the module writes - in the
    # module's own text or in a macro of the module it calls, with what the call site passes; <body> is whatever is serialised there (the
    # variable of a loop over endpoint.bodies, endpoint.bodies[0], a local bound to either, a macro parameter filled with either - the
    # canonical text without its grouping).  What belongs to one serialisation is what the same path writes about the same body.
    local_macros = {m.name: m for m in et.tree.find_all(nodes.Macro)}

    def _concerns_bodies(n: nodes.Node, seen: frozenset = frozenset()) -> bool:
        """the node can write (or bind) something the clauses below read: a serialisation, an attribute of a body, a local"""
        for x in [n, *n.find_all((nodes.Call, nodes.Getattr, nodes.Assign, nodes.AssignBlock))]:
            if isinstance(x, (nodes.Assign, nodes.AssignBlock)):
                return True
            if isinstance(x, nodes.Getattr) and x.attr in ("content_type", "body_type", "bodies"):
                return True
            if isinstance(x, nodes.Call) and isinstance(x.node, nodes.Name):
                if x.node.name == btk.name:
                    return True
                m = local_macros.get(x.node.name)
                if m is not None and m.name not in seen and any(_concerns_bodies(k, seen | {m.name}) for k in m.body):
                    return True
        return False

    class _Top:
        name = "<module>"
        body = [n for n in et.tree.body if isinstance(n, (nodes.Assign, nodes.AssignBlock)) or _concerns_bodies(n)]

    def _holes(ps: list[_Piece]) -> Iterator[_Piece]:
        for p in ps:
            if p.kind == "h":
                yield p
                for a in p.args:
                    yield from _holes(a)

    def _bodies_counts(env: dict) -> set[int]:
        """how many bodies the endpoint can have (0, 1, 2 = several) given what the tests of the path say about endpoint.bodies"""
        ops = {"gt": lambda x, k: x > k, "ge": lambda x, k: x >= k, "eq": lambda x, k: x == k, "ne": lambda x, k: x != k,
               "lt": lambda x, k: x < k, "le": lambda x, k: x <= k}
        ok = {0, 1, 2}
        for a, val in env.items():
            lk = _len_key(a)
            if lk and lk[0] == "endpoint.bodies":
                ok = {n for n in ok if ops[lk[1]](n, lk[2]) == val}
            elif _coll_key(a) == "endpoint.bodies":
                ok = {n for n in ok if (n > 0) == val}
        return ok

    def _multipart(env: dict, b: str) -> bool | None:
        """what the tests of the path say about <body>.content_type being multipart/form-data (None: nothing)"""
        for atom, val in env.items():
            m = re.fullmatch(rf"(?:{re.escape(b)}\.content_type (ne|eq) 'multipart/form-data'|'multipart/form-data' (ne|eq) {re.escape(b)}\.content_type)", _flat(atom))
            if m:
                return val == ((m.group(1) or m.group(2)) == "eq")
        return None

    ser: list[str] = []
    no_key, no_ct, explicit = [], [], []
    n_ct = 0
    for env, ps in _paths(et, _Top, limit=4096):
        counts = _bodies_counts(env)
        if not counts:
            continue        # tests that contradict each other: nobody takes this path
        holes = list(_holes(ps))
        written = {_flat(h.text) for h in holes}
        here = sorted({_flat(h.args[0][0].text) for h in holes if isinstance(h.node, nodes.Call) and expr_text(h.node.node) == btk.name
                       and h.args and len(h.args[0]) == 1 and h.args[0][0].kind == "h"})
        free = {k: v for k, v in env.items() if not _len_key(k) and not _coll_key(k)}
        for b in here:
            ser.append(b)
            only = 1 in counts      # it may be the endpoint's only body
            if f"{b}.body_type.value" not in written:
                no_key.append((b, free))
            has_ct = f"{b}.content_type" in written
            n_ct += has_ct
            if not has_ct and not (only and _multipart(env, b) is True):
                no_ct.append((b, {"len(endpoint.bodies)": sorted(counts), **free}))
            if has_ct and only and _multipart(env, b) is not False:
                explicit.append((b, {"len(endpoint.bodies)": sorted(counts), **free}))
    # whenever a body is serialised, the result is stored under its own body_type
    rep.check(bool(ser) and not no_key, "R03.3", "endpoint_module.py.jinja::kwargs-key-is-body-type",
              "_kwargs is not keyed by body.body_type.value wherever a body is serialised", where=f"{PKG}/templates/{et.name}", lhs=no_key[:2] or sorted(set(ser)))
    # whenever a body is serialised, its own content_type is written - except for the only body of an endpoint when it is multipart
    rep.check(bool(ser) and not no_ct, "R03.3", "endpoint_module.py.jinja::content-type-from-body", f"Content-Type is not taken from body.content_type "
              f"(a body is serialised without it: {no_ct[:1]})", where=f"{PKG}/templates/{et.name}", lhs=no_ct[:2])
    # the Content-Type of the only body of an endpoint is never written when it is multipart: httpx must set the boundary
    rep.check(n_ct > 0 and not explicit, "R03.3", "endpoint_module.py.jinja::multipart-boundary",
              "a single multipart body gets an explicit Content-Type (httpx must set the boundary)", where=f"{PKG}/templates/{et.name}", lhs=explicit[:2])
    # Body.content_type is the key under which the document lists the media type, untouched: the argument is (an alias of, a parameter
    # that is passed) the key variable of a loop over the items / keys of <request body>.content
    def is_content(g: Any, e: ast.AST) -> bool:
        return isinstance(e, ast.Attribute) and e.attr == "content"

    def is_document_key(g: Any, e: ast.AST) -> bool:
        # (a key that travels in a record - a tuple, a NamedTuple / attrs object built by a helper or yielded by a generator of the region -
        # is still the key: taken out by unpacking (see _Region.bindings), by field or by position)
        if isinstance(e, ast.Attribute) or (isinstance(e, ast.Subscript) and isinstance(e.slice, ast.Constant) and isinstance(e.slice.value, int)):
            got = brg.component(g, e.value, e.attr if isinstance(e, ast.Attribute) else e.slice.value)
            return bool(got) and all(brg.denotes(h, v, is_document_key) for h, v in got)
        if not isinstance(e, ast.Name):
            return False
        for pos, it in brg.loops(g, e.id):
            call = it if isinstance(it, ast.Call) and isinstance(it.func, ast.Attribute) and not it.args and not it.keywords else None
            if pos == "[0]" and call is not None and call.func.attr == "items" and brg.denotes(g, call.func.value, is_content):
                return True
            if pos == "" and brg.denotes(g, call.func.value if call is not None and call.func.attr == "keys" else it, is_content):
                return True
        return False

    for g, c in body_calls:
        ct = body_arg(c, "content_type")
        rep.check(ct is not None and brg.denotes(g, ct, is_document_key), "R03.3", "body_from_data::content-type-is-the-documents-key",
                  "Body.content_type is not the document's own media type key", where(g, c), lhs=norm(ct),
                  rhs="the key variable of the loop over <request body>.content")

    # ---- R03.10 ------------------------------------------------------------------------------------------------------------
    FLAG = "is_multipart_body"
    mt = jx.templates.get("model.py.jinja")
    rep.require(mt, "model.py.jinja")
    to_mp = [f for f in tplq.frags(mt.tree.body) if f.kind == "data" and re.search(r"\bdef to_multipart\(", f.text)]
    rep.require(to_mp, "def to_multipart in model.py.jinja")
    if not all(tplq.implies(f, f"model.{FLAG}", True) for f in to_mp):
        rep.ok("R03.10", "model.py.jinja::to_multipart", "unconditional", f"to_multipart does not depend on {FLAG}", nontrivial=False)
    else:
        def flag_value(c: ast.AST) -> ast.AST | None:
            """the value a copy (evolve / replace) gives the flag"""
            if isinstance(c, ast.Call) and call_name(c).rsplit(".", 1)[-1] in ("evolve", "replace") and c.args:
                return next((k.value for k in c.keywords if k.arg == FLAG), None)
            return None

        def is_true(v: ast.AST | None, lc: Locals) -> bool:
            v = _only_value(lc, v.id) or v if isinstance(v, ast.Name) else v
            return isinstance(v, ast.Constant) and v.value is True

        def flows(g: Any, v: ast.AST) -> list[ast.AST]:
            return [n for x in _sources(brg, g, v) for n in ast.walk(x)]

        # the model of a multipart body gets the method: a copy that sets the flag is what Body(prop=) receives and what is registered
        # (what value it may give the flag is the second clause)
        raised = [c for g in brg.funcs for c in calls_in(g.node) if flag_value(c) is not None]
        in_body = [c for c in raised if any(x is c for g, b in body_calls for v in [body_arg(b, "prop")] if v is not None for x in flows(g, v))]
        registered = []
        for g in brg.funcs:
            for n in ast.walk(g.node):
                vals = [k.value for k in n.keywords if k.arg == "classes_by_name"] if isinstance(n, ast.Call) else []
                if isinstance(n, ast.Assign) and any(isinstance(t, ast.Subscript) and isinstance(t.value, ast.Attribute) and t.value.attr == "classes_by_name"
                                                     for t in n.targets):
                    vals.append(n.value)
                # (a dict that is filled after it was made - d[k] = v, d.update(...), d.setdefault(k, v) - holds what was put into it)
                for nm in {x for v in vals for x in names_in(v)}:
                    for m in ast.walk(g.node):
                        if isinstance(m, ast.Assign) and any(isinstance(t, ast.Subscript) and norm(t.value) == nm for t in m.targets):
                            vals.append(m.value)
                        elif isinstance(m, ast.Call) and isinstance(m.func, ast.Attribute) and norm(m.func.value) == nm and m.func.attr in ("update", "setdefault"):
                            vals += [*m.args, *[k.value for k in m.keywords]]
                registered += [c for c in in_body for v in vals if any(x is c for x in flows(g, v))]
        rep.check(bool(registered), "R03.10", "body_from_data::multipart-model-flagged-and-registered",
                  f"no copy of the body's model that sets {FLAG} reaches both Body(prop=) and classes_by_name: a model sent as multipart "
                  "would have no to_multipart", where(bfd, bfd.node), lhs={"flag raised": len(raised), "reaches Body": len(in_body)})
        # and no other use of the class takes it away again: the flag of an existing object is only ever raised
        n_flag = 0
        for f in ix.all_functions:
            fl = None
            for n in ast.walk(f.node):
                obj = val = None
                if flag_value(n) is not None:
                    obj, val = n.args[0], flag_value(n)
                elif isinstance(n, ast.Call) and call_name(n) in ("object.__setattr__", "setattr") and len(n.args) == 3 and \
                        isinstance(n.args[1], ast.Constant) and n.args[1].value == FLAG:
                    obj, val = n.args[0], n.args[2]
                elif isinstance(n, ast.Assign) and f.name not in ("__init__", "__attrs_post_init__", "__post_init__"):
                    obj, val = next(((t.value, n.value) for t in n.targets if isinstance(t, ast.Attribute) and t.attr == FLAG), (None, None))
                if val is None:
                    continue
                n_flag += 1
                fl = fl or Locals(f.node)
                v = _only_value(fl, val.id) or val if isinstance(val, ast.Name) else val
                kept = isinstance(v, ast.BoolOp) and isinstance(v.op, ast.Or) and any(norm(x) == f"{norm(obj)}.{FLAG}" or is_true(x, fl) for x in v.values)
                rep.check(is_true(v, fl) or kept, "R03.10", f"{short(f)}::{FLAG}-only-raised",
                          f"{FLAG} of an existing model is set to `{norm(val)}`: a class that an earlier operation sends as multipart loses "
                          "to_multipart when a later one uses it as JSON or form data", where(f, n), lhs=norm(val), rhs=f"True, or `<object>.{FLAG} or ...`")
        # (no minimum: when nothing sets the flag at all the first clause reports it - a verdict, not an analysis error)
        rep.floor("multipart_flag_updates", n_flag, 0)

    # ---- R03.4 (shared shapes with C10) ------------------------------------------------------------------------------------
    gs = jx.templates["property_templates/helpers.jinja"].macros.get("guarded_statement")
    rep.require(gs, "guarded_statement")
    rep.require(len(gs.args) >= 3, "guarded_statement(property, source, statement)")
    gprop, gstm = gs.args[0].name, gs.args[2].name
    gfr = list(tplq.frags(gs.body))
    n_stm = 0
    for i, fr in enumerate(gfr):
        if fr.kind != "expr" or fr.text != gstm:
            continue
        n_stm += 1
        # the generated text of the same arm up to this emission: is the statement written under an `if ...Unset...:` line?
        before = "".join((g.text if g.kind == "data" else "X") for g in gfr[:i] if g.guards == fr.guards).split("\n")
        header = next((ln for ln in reversed(before[:-1]) if ln.strip()), "")
        guarded = bool(re.match(r"\s*if\b.*\b(Unset|UNSET)\b.*:\s*$", header)) and len(before[-1]) > len(header) - len(header.lstrip())
        if guarded:
            continue
        rep.check(tplq.implies(fr, f"{gprop}.required", True), "R03.4", "guarded_statement::guard-skipped-only-when-required",
                  f"the Unset guard of header / dict-valued query statements is skipped under {[g for g in fr.guards]}",
                  where=f"{PKG}/templates/property_templates/helpers.jinja:{fr.line}", lhs=[g for g in fr.guards], rhs=f"implies {gprop}.required")
    rep.require(n_stm > 0, "guarded_statement emits its statement")
    # every store keyed by a header's wire name is a statement handed to guarded_statement (one call or one per arm), none is written
    # by header_params itself
    calls = [c for c in hp.find_all(nodes.Call) if expr_text(c.node) == "guarded_statement"]
    direct = sorted(hole for (tn, mn, hole) in sites if (tn, mn) == (em.name, hp.name))
    rep.check(bool(calls) and not direct, "R03.4", "header_params::through-guarded_statement", "header stores do not go through guarded_statement",
              where=f"{PKG}/templates/{em.name}", lhs=direct)
    # the query store: entries are dropped after the fact by a comprehension over <store>.items()
    qp = em.macros.get("query_params")
    filters = []     # (fragment, condition, value variable)
    for fr in tplq.frags(qp.body):
        if fr.kind != "data" or "params" not in fr.text:
            continue
        for st in _py_stmts(fr.text):
            for comp in ast.walk(st):
                if isinstance(comp, (ast.DictComp, ast.ListComp, ast.SetComp, ast.GeneratorExp)) and len(comp.generators) == 1 \
                        and norm(comp.generators[0].iter) == "params.items()" and isinstance(comp.generators[0].target, ast.Tuple) \
                        and len(comp.generators[0].target.elts) == 2 and isinstance(comp.generators[0].target.elts[1], ast.Name):
                    g = comp.generators[0]
                    for cond in g.ifs:
                        filters.append((fr, cond, g.target.elts[1].id))
    drops_unset = [(fr, c) for fr, c, v in filters if _absence_value(c, v, True, False) is not True]
    rep.check(bool(drops_unset) and "params" in def_frag and any(_implication_counterexample(def_frag["params"], fr) is None for fr, _ in drops_unset),
              "R03.4", "query_params::unset-filtered", "no filter drops UNSET from the query store whenever the store is built: unset optional "
              "arguments would be sent", where=f"{PKG}/templates/{em.name}:{qp.lineno}", lhs=[norm(c) for _, c in drops_unset], rhs="a condition false for UNSET")
    for fr, c, v in filters:
        rep.check(_absence_value(c, v, False, False) is True, "R03.4", "query_params::set-values-kept",
                  f"the query filter `{norm(c)}` is not decided by identity with UNSET / None alone: a set argument (False, 0, \"\") can be dropped",
                  where=f"{PKG}/templates/{em.name}:{fr.line}", lhs=norm(c), rhs="true for every value that is neither UNSET nor None")

    # ---- R03.13 ------------------------------------------------------------------------------------------------------------
    # what one round of the loop of query_params does with the store, path by path (the macros of the file it calls inlined; what is
    # handed to a macro of another file - a destination to write to, a statement to guard - is text the path writes as well)
    STORE = "params"
    n_q = 0
    twice, never = [], []
    for env, ps in _paths(em, qp):
        seqs = [ps] + [a for h in _holes(ps) for a in h.args]
        keyed = spread = mentioned = 0
        for seq in seqs:
            text = _written(seq)
            hs = [p for p in seq if p.kind == "h"]
            mentioned += bool(re.search(rf"(?<![\w.\"']){STORE}\b", text))
            spread += len(re.findall(rf"(?<![\w.\"']){STORE}\.update\(", text))
            for m in re.finditer(rf"(?<![\w.\"']){STORE}\[\s*\"{HOLE}\"\s*\]", text):
                keyed += _flat(hs[text[:m.start()].count(HOLE)].text).endswith(".name")
        if not mentioned:
            continue
        n_q += 1
        free = {k: v for k, v in env.items() if not _coll_key(k)}
        if keyed and spread:
            twice.append(free)
        elif not keyed and not spread:
            never.append(free)
    rep.check(n_q > 0 and not twice and not never, "R03.13", "query_params::stored-once",
              (f"a query parameter is put into `{STORE}` under its own wire name and spread into it as well (e.g. when {twice[:1]}): its own key is "
               "sent next to its fields" if twice else f"a query parameter is neither stored under its wire name nor spread into `{STORE}` "
               f"(e.g. when {never[:1]}): it is never sent"), where=f"{PKG}/templates/{em.name}:{qp.lineno}",
              lhs={"both": twice[:2], "neither": never[:2]}, rhs="exactly one of: keyed by <parameter>.name / <store>.update(...)")

    # ---- R03.5 -------------------------------------------------------------------------------------------------------------
    n_h = n_th = 0
    for c in ix.property_classes():
        al = ix.find_classvar(c, "_allowed_locations")
        if al is None:
            continue
        # the locations the kind is allowed in, as a set: written as a display or computed from shared constants
        locs = _location_set(ix, al[0].module, al[1])
        rep.require(locs is not None, f"_allowed_locations of {c.name} as a constant set of parameter locations (`{norm(al[1])[:80]}`)")
        if "HEADER" not in locs:
            continue
        ts = ix.find_classvar(c, "_type_string")
        tstr = ix.const_str(ts[0].module, ts[1]) if ts else ""
        tname = ix.const_str(*[(x[0].module, x[1]) for x in [ix.find_classvar(c, "template")]][0])
        n_h += 1
        if tstr in ("str", "None") and c.name not in ("EnumProperty", "LiteralEnumProperty"):
            rep.ok("R03.5", f"{c.name}::header-value-is-str", tstr, "already a string / never sent", nontrivial=False)
            continue
        ti = jx.templates.get("property_templates/" + (tname or ""))
        rep.check(ti is not None and "transform_header" in ti.macros, "R03.5", f"{c.name}::transform_header",
                  f"{c.name} is allowed in headers, its Python type is `{tstr or 'computed'}`, but {tname} defines no transform_header: httpx "
                  "rejects non-str header values", where=f"{PKG}/templates/property_templates/{tname}", lhs=tstr, rhs="transform_header macro")
        th = ti.macros.get("transform_header") if ti is not None else None
        if th is None or not th.args:
            continue
        # what transform_header writes, path by path: one Python expression, computed from the argument, a str whatever the value
        # (httpx refuses anything else; a kind whose values are str only for some documents - an enum - is not a str)
        n_th += 1
        bad_paths = []
        for env, ps in _paths(ti, th):
            tree, holes = _py_of(ps, "eval")
            src = {h for h, p in holes.items() if _flat(p.text) == th.args[0].name}
            if tree is None or not _is_str(tree.body) or not (names_in(tree) & src):
                bad_paths.append((_written(ps).replace(HOLE, "<>").strip()[:80], env))
        rep.check(not bad_paths, "R03.5", f"{c.name}::transform_header-is-str", f"what {tname}::transform_header writes is not (on every path) "
                  f"a str computed from its argument: httpx rejects non-str header values (e.g. {bad_paths[:1]})",
                  where=f"{PKG}/templates/property_templates/{tname}:{th.lineno}", lhs=bad_paths[:3], rhs="str(<argument>) or another expression that is always a str")
    rep.floor("header_capable_kinds", n_h, 4)
    rep.floor("header_transforms", n_th, 3)
    # header_params stores what transform_header writes whenever the kind's template defines it: the value of the statement handed to
    # guarded_statement, on every path on which `<template of the kind>.transform_header` is true
    n_store = 0
    unconverted = []
    for env, ps in _paths(em, hp):
        defined = [v for a, v in env.items() if re.search(r"\.transform_header\b(?!\()", a)]
        for p in [p for p in ps if p.kind == "h" and isinstance(p.node, nodes.Call) and expr_text(p.node.node) == "guarded_statement" and len(p.args) >= 3]:
            tree, holes = _py_of(p.args[2], "exec")
            store = tree.body[0] if tree is not None and len(tree.body) == 1 and isinstance(tree.body[0], ast.Assign) else None
            if store is None:
                continue
            n_store += 1
            vals = [holes[n] for n in names_in(store.value) if n in holes]
            through = any(re.search(r"\.transform_header\(", v.text) and any(re.search(r"\.python_name$", _flat(a.text)) for arg in v.args for a in arg if a.kind == "h")
                          for v in vals)
            if all(defined) and not through:
                unconverted.append(norm(store.value))
    rep.check(n_store > 0 and not unconverted, "R03.5", "header_params::value-through-transform_header",
              "a header store does not take its value from transform_header although the kind's template defines it",
              where=f"{PKG}/templates/{em.name}:{hp.lineno}", lhs=unconverted[:3] or n_store, rhs="<template>.transform_header(<parameter>.python_name)")

    # ---- R03.6 ---------------------------------------------------------------------------------------------------------------
    w = SkelWalker(jx, frozenset())
    lines = to_lines(w.walk_template("endpoint_module.py.jinja"))[0]
    text = "\n".join(lines)
    funcs = {}
    for m in re.finditer(r"^(async )?def (\w+)\(", text, re.M):
        funcs[m.group(2)] = m.start()
    order = sorted(funcs.items(), key=lambda kv: kv[1])
    bodies = {}
    for i, (nm, st) in enumerate(order):
        en = order[i + 1][1] if i + 1 < len(order) else len(text)
        bodies[nm] = text[st:en]

    def toks(s: str) -> list[str]:
        s = re.sub(HOLE + r"\d+" + HOLE, "H", s)
        s = re.sub(OPQ + r"\d+" + OPQ, "O", s)
        return re.findall(r"\w+|[^\w\s]", s)

    for a, b in (("sync_detailed", "asyncio_detailed"), ("sync", "asyncio")):
        rep.require(a in bodies and b in bodies, f"{a}/{b} in the skeleton")
        ta = toks(bodies[a])
        tb = [x for x in toks(bodies[b]) if x not in ("async", "await")]
        tb = ["get_httpx_client" if x == "get_async_httpx_client" else x for x in tb]
        tb = [a if x == b else ("sync_detailed" if x == "asyncio_detailed" else x) for x in tb]
        ta2 = [x for x in ta]
        # `(await f(...)).parsed` adds one pair of parentheses
        def strip_parens(ts: list[str]) -> list[str]:
            return [x for x in ts if x not in ("(", ")", ",")]
        rep.check(strip_parens(ta2) == strip_parens(tb), "R03.6", f"endpoint_module.py.jinja::{a}=={b}",
                  "the blocking and asyncio variants differ beyond async/await", where=f"{PKG}/templates/{et.name}",
                  lhs=len(ta2), rhs=len(tb))

    # ---- R03.12 -----------------------------------------------------------------------------------------------------------------
    # every complete statement of the module's skeleton (both arms of every template test, macros inlined), holes as identifiers
    ptext = re.sub(OPQ + r"(\d+)" + OPQ, r"O_\1", re.sub(HOLE + r"(\d+)" + HOLE, r"H_\1", text))
    changes, sends = _client_state_changes(list(_py_stmts(ptext)))
    rep.floor("sends_through_the_httpx_client", sends, 1)
    rep.check(not changes, "R03.12", "endpoint_module.py.jinja::client-state-untouched",
              f"an endpoint function changes the state of the client it is given (`{norm(changes[0])[:90] if changes else ''}`): what one call "
              "puts there is still there on the next call - an argument left UNSET then, or another operation, sends it too",
              where=f"{PKG}/templates/{et.name}", lhs=[norm(c)[:90] for c in changes[:3]], rhs="the client and its httpx client are only read / used to send")

    # ---- R03.7 ------------------------------------------------------------------------------------------------------------------
    efd = ix.func("Endpoint.from_data")
    # what is handed over as requires_security= (in from_data or a private helper of it), locals unfolded: as true as the operation's
    # `security` (evaluated over None / empty / non-empty when it is an expression of `.security`, bool, len, not, and, or, comparisons
    # alone; otherwise at least computed from `.security`)
    sec = []
    erg = _Region(ix, efd)
    for g in erg.funcs:
        gl = erg.lc[g.qual]
        for c in calls_in(g.node):
            for k in c.keywords:
                if k.arg == "requires_security":
                    t = _security_truth(k.value, gl)
                    if t is None:
                        t = any(isinstance(n, ast.Attribute) and n.attr == "security" for x in _sources(erg, g, k.value) for n in ast.walk(x))
                    sec.append((norm(k.value), t))
    rep.check(bool(sec) and all(t for _, t in sec), "R03.7", "Endpoint.from_data::requires_security", "requires_security is not "
              "derived from the operation's security", where(efd, efd.node), lhs=[v for v, _ in sec], rhs="true exactly when <operation>.security is not empty")
    arg = em.macros.get("arguments")
    rep.require(arg, "arguments")
    # what `arguments` writes for a secured operation, path by path (if / elif arms, conditional expressions, locals and helper macros
    # alike): the annotation of the parameter `client` is AuthenticatedClient and nothing else
    secured = []
    for env, ps in _paths(em, arg):
        if env.get(f"{arg.args[0].name}.requires_security" if arg.args else "") is not True:
            continue
        secured += [_annotation(m.group(1)) for m in re.finditer(r"(?<![\w.*])client[ \t]*:[ \t]*([^\n]*)", _written(ps))]
    rep.check(bool(secured) and all(a == "AuthenticatedClient" for a in secured), "R03.7", "arguments::authenticated-client-when-secured",
              "a secured operation does not demand an AuthenticatedClient", where=f"{PKG}/templates/{em.name}:{arg.lineno}",
              lhs=sorted(set(secured)), rhs=["AuthenticatedClient"])
    rep.require("client.py.jinja" in jx.templates, "client.py.jinja")
    ac = _generated_class(jx, "client.py.jinja", "AuthenticatedClient")
    rep.require(ac is not None, "class AuthenticatedClient as written by client.py.jinja")

    def _overwrites_credential(x: Any, headers: str) -> bool:
        """x unconditionally replaces headers[self.auth_header_name] by a value read from self.token (setdefault / a test for presence would
        keep a stale entry of a dict that outlives the httpx client)"""
        def from_token(v: ast.AST | None) -> bool:
            return v is not None and any(isinstance(n, ast.Attribute) and norm(n) == "self.token" for n in ast.walk(v))

        if isinstance(x, (ast.Assign, ast.AnnAssign)):
            for t in (x.targets if isinstance(x, ast.Assign) else [x.target]):
                if isinstance(t, ast.Subscript) and norm(t.value) == headers and norm(t.slice) == "self.auth_header_name" and from_token(x.value):
                    return True
        if isinstance(x, ast.Expr) and isinstance(x.value, ast.Call) and isinstance(x.value.func, ast.Attribute) and x.value.func.attr == "update" \
                and norm(x.value.func.value) == headers:
            for a in x.value.args:
                if isinstance(a, ast.Dict) and any(k is not None and norm(k) == "self.auth_header_name" and from_token(v) for k, v in zip(a.keys, a.values)):
                    return True
        return False

    built: dict[str, bool] = {}
    for m in ac.body:
        if not isinstance(m, (ast.FunctionDef, ast.AsyncFunctionDef)):
            continue
        for c in calls_in(m):
            if call_name(c) not in ("httpx.Client", "httpx.AsyncClient"):
                continue
            hdr = next((norm(k.value) for k in c.keywords if k.arg == "headers"), None)
            st = stmt_of(m, c)
            good = hdr is not None and st is not None and CFG(m).is_dominated_by(st, lambda x: isinstance(x, ast.stmt) and _overwrites_credential(x, hdr))
            built[call_name(c)] = built.get(call_name(c), True) and good
    rep.check(set(built) == {"httpx.Client", "httpx.AsyncClient"} and all(built.values()), "R03.7", "client.py.jinja::credential-injected-in-both-constructors",
              "AuthenticatedClient does not overwrite its credential header on every path to the construction of both the blocking and the "
              "async httpx client", where=f"{PKG}/templates/client.py.jinja", lhs=built, rhs={"httpx.Client": True, "httpx.AsyncClient": True})

    # ---- R03.9 ------------------------------------------------------------------------------------------------------------------
    _parameter_identity(rep, ix)
    # ---- R03.11 -----------------------------------------------------------------------------------------------------------------
    _wire_name_handover(rep, ix)
    rep.not_decided += ["the bytes httpx actually sends"]
    return LEVEL
