"""C19 - the way from the `generate` command down to Project.build: which calls are followed, and which reads are the inputs.

The builder is one object's methods calling each other (`self.m()`), which `effects.callee_of` resolves.  Above it the command reaches
the builder through an import made inside the function, a constructor and a method of the object just built; and on that way the
document and the configuration file are read - these are what the generation is a function OF, not the state of the place it writes to."""
from __future__ import annotations

import ast
from typing import Any

from ..astutil import call_name, resolved_text
from .effects import callee_of, constant_of, is_probe

# reads of a file's CONTENT (as opposed to its existence, kind, metadata or a listing)
CONTENT_READS = {"read_text", "read_bytes", "open"}
# names by which an expression reaches the output location
OUTPUT_NAMES = ("output_path", "project_dir", "package_dir")


def command_callee(it: Any) -> Any:
    """A resolution of calls that, beyond `callee_of`, follows: a name imported inside the calling function (which hides a module-level
    function of the same name), a constructor (to `__init__`), and a method called on a value whose class the abstract interpreter
    knows (or, failing that, on a local bound from a function whose return annotation names one class of the package that has it)."""
    local_imports: dict[str, dict[str, str]] = {}
    by_qual: dict[str, Any] = {}
    busy: set[tuple] = set()   # receivers being resolved (`x = x.next()` is bound from a call on itself)

    def imports_of(ix: Any, f: Any) -> dict[str, str]:
        if f.qual not in local_imports:
            got: dict[str, str] = {}
            for n in ast.walk(f.node):
                if isinstance(n, ast.ImportFrom):
                    base = ix._abs_import(f.module, n.level, n.module)
                    for a in n.names:
                        got[a.asname or a.name] = f"{base}.{a.name}" if base else a.name
                elif isinstance(n, ast.Import):
                    for a in n.names:
                        got[a.asname or a.name.split(".")[0]] = a.name if a.asname else a.name.split(".")[0]
            local_imports[f.qual] = got
        return local_imports[f.qual]

    def as_func(ix: Any, r: "tuple[str, Any] | None") -> Any:
        if r is None:
            return None
        if r[0] == "func":
            return r[1]
        if r[0] == "class":
            return ix.find_method(r[1], "__init__")
        return None

    def classes(ix: Any) -> dict[str, Any]:
        if not by_qual:
            for m in ix.modules.values():
                for c in m.classes.values():
                    by_qual[c.qual] = c
        return by_qual

    def annotated(ix: Any, f: Any, recv: ast.expr, meth: str) -> Any:
        """the method `meth` of the one class named in the return annotation of the function the receiver was bound from"""
        from ..astutil import Locals

        if not isinstance(recv, ast.Name) or (f.qual, recv.id) in busy:
            return None
        found = set()
        for _k, _st, v in Locals(f.node).defs.get(recv.id, ()):
            if isinstance(v, ast.Call):
                busy.add((f.qual, recv.id))
                try:
                    g = callee(ix, f, v)
                finally:
                    busy.discard((f.qual, recv.id))
                ann = getattr(getattr(g, "node", None), "returns", None)
                for n in (ast.walk(ann) if ann is not None else ()):
                    if isinstance(n, (ast.Name, ast.Attribute)):
                        r = ix.resolve(g.module, ast.unparse(n))
                        if r is not None and r[0] == "class" and ix.find_method(r[1], meth) is not None:
                            found.add(ix.find_method(r[1], meth))
        return next(iter(found)) if len(found) == 1 else None

    def callee(ix: Any, f: Any, c: ast.Call) -> Any:
        cn = call_name(c)
        head, _, rest = cn.partition(".")
        li = imports_of(ix, f)
        if head and head in li:
            mod = ix.modules.get(li[head])
            r = ix._resolve_abs(li[head], 0) if not rest else (ix.resolve(mod, rest) if mod is not None else None)
            return as_func(ix, r)
        g = callee_of(ix, f, c)
        if g is not None:
            return g
        if cn:
            g = as_func(ix, ix.resolve(f.module, cn))
            if g is not None:
                return g
        if isinstance(c.func, ast.Attribute):
            av = it.node_av.get(id(c.func.value))
            ms = {ix.find_method(classes(ix)[t], c.func.attr) for t in (getattr(av, "types", None) or ()) if t in classes(ix)}
            ms.discard(None)
            if len(ms) == 1:
                return next(iter(ms))
            if not ms:
                return annotated(ix, f, c.func.value, c.func.attr)
        return None

    return callee


def state_probe(ix: Any, f: Any, c: ast.Call) -> bool:
    """c observes the state of the filesystem - as `effects.is_probe`, but reading the CONTENT of a file is the reading of an input
    (the document, the configuration file: what the generation is a function of) unless the path read leads to the output location"""
    if not is_probe(ix, f, c):
        return False
    name = call_name(c).rsplit(".", 1)[-1]
    if name not in CONTENT_READS:
        return True
    if name == "open":
        mode = next((k.value for k in c.keywords if k.arg == "mode"), None)
        if mode is None:
            pos = 0 if isinstance(c.func, ast.Attribute) else 1
            mode = c.args[pos] if len(c.args) > pos else None
        m = constant_of(mode, "r")
        if m is ... or "x" in str(m):   # exclusive creation reports that the path is there
            return True
    operand = c.func.value if isinstance(c.func, ast.Attribute) else (c.args[0] if c.args else None)
    if operand is None:
        return True
    text = resolved_text(operand, f.node)
    return any(nm in text for nm in OUTPUT_NAMES)
