"""Who may write the threaded registries in place (one rule, reported under the rule id of the calling property: C08 / C12 / C20).

The parser threads two registry objects - Schemas and Parameters - through every build step in functional style: a step receives the
state, registers what it built on an *evolved copy* (`evolve(schemas, classes_by_name={**schemas.classes_by_name, name: prop})`) and
returns the copy.  Three mechanisms rest on nothing but that style:

* containment (C08): a piece that fails after a part of it was built hands back an error, and its caller goes on with the state it had
  before the attempt - the half-built part is gone with the copy;
* the fixpoints over schemas and models (C12 / C20): an item that hits a forward reference is attempted again in the next round with
  the state of before the failed attempt, so that the order of definition does not matter.

A step that writes one of the registry's containers *in place* reaches through every copy (evolve copies the object, not the containers
it holds): what an abandoned attempt registered is still registered when the caller goes back to "its" state.  The rule therefore reads
the necessary condition off the code of the whole package: every in-place write whose receiver is (a view into) a container owned by a
registry object - however it is reached: attribute chain, subscript, `.get()` / `.setdefault()` result, a local alias, a loop variable
over it, a non-copying helper that is handed the container, setattr - is made by one of the writers frozen in LEGITIMATE, identified by
what the function *is* (its role), not by how it spells anything.  A container that the function made itself (display, comprehension,
dict() / list() / copy, or the field of an object it evolved with such a value) is its own, and writing it is not a registry write.
"""
from __future__ import annotations

import ast
from dataclasses import dataclass
from typing import Any, Iterable

from ..astutil import ERROR_CLASSES, call_name, cfg_of, norm, region, role_anon, short, where
from ..cfg import CFG, ENTRY, walk_own
from ..core import Report
from ..pyindex import FuncInfo, dotted

STATE_CLASSES = ("Schemas", "Parameters")
THREADED = ("schemas", "parameters")          # parameter / attribute names under which the state travels

# ---- the frozen table: today's legitimate in-place writers, each confirmed by reading /repo ---------------------------------------------
# role (what the function is)   field                    operation  why this writer may, and nobody else
LEGITIMATE: tuple[tuple[str, str, str, str], ...] = (
    ("state-class method", "dependencies", "add",
     "dependency bookkeeping (Schemas.add_dependencies): monotone and idempotent - a retried attempt records the same pairs again, and an "
     "entry left by an abandoned attempt is inert because removal looks every dependant up in classes_by_reference / classes_by_name "
     "before it touches it; it has to be in place, since a step that only resolves a reference returns the state it was given"),
    ("settled writer", "classes_by_name", "remove",
     "removal pass (_propogate_removal under _process_model_errors): runs when its caller has finished attempting - the function cannot "
     "be refused by its own caller and no build step can follow the write - so there is no earlier state anybody goes back to"),
    ("settled writer", "classes_by_reference", "remove",
     "removal pass, same as above: deletes the failed schema and, through the recorded dependencies, its dependants"),
    ("state owner", "errors", "add",
     "diagnostics written by the drivers of the component fixpoints (_create_schemas, build_parameters and their private helpers) for "
     "an entry that is never queued again: `errors` is shared by every copy and read by no step; the owner of the current state - a "
     "function whose result is the state and cannot be an error - is the only one whose item is certainly not attempted a second time"),
)

ADDING = {"append", "extend", "insert", "add", "update", "setdefault", "appendleft", "extendleft", "__setitem__", "__ior__", "__iadd__"}
REMOVING = {"pop", "popitem", "remove", "discard", "clear", "popleft", "__delitem__", "difference_update", "intersection_update",
            "symmetric_difference_update", "__isub__", "__iand__"}
REORDERING = {"sort", "reverse", "rotate"}
TAKING = {"get", "setdefault", "pop", "popitem", "__getitem__"}            # the result is an element of the receiver
FUNCTION_MUTATORS = {"setitem": "add", "delitem": "remove", "heappush": "add", "heappop": "remove", "insort": "add", "shuffle": "reorder"}
COPIES = {"dict", "list", "set", "frozenset", "tuple", "sorted", "copy", "deepcopy", "defaultdict", "OrderedDict", "deque", "ChainMap",
          "Counter"}
SAME_ELEMENTS = {"list", "tuple", "set", "frozenset", "sorted", "reversed", "iter", "copy"}   # a new outer container, the same elements
EVOLVES = {"evolve", "replace"}                                            # attrs.evolve / dataclasses.replace: new object, shared fields
MAX_STEPS = 4


@dataclass(frozen=True)
class View:
    """Where an expression points: `kind` S = a registry object, P = a plain parameter of the function, U = some object of unknown type,
    O = a container the function made itself; then the attribute (".name") and element ("[]") steps taken from there."""
    kind: str
    name: str
    steps: tuple[str, ...] = ()

    def step(self, s: str) -> "View | None":
        if len(self.steps) >= MAX_STEPS:
            return None
        kind = "S" if self.kind == "O" and s == "[]" else self.kind   # the elements of a shallow copy are still the registry's
        return View(kind, self.name, self.steps + (s,))


@dataclass
class Write:
    f: FuncInfo
    stmt: ast.stmt
    node: ast.AST
    view: View
    op: str                    # add | remove | reorder | rebind
    via: str = ""              # the helper that performs it, when it is stated at a call


# ---- annotations ------------------------------------------------------------------------------------------------------------------------

def _ann(e: ast.AST | None) -> ast.AST | None:
    if isinstance(e, ast.Constant) and isinstance(e.value, str):
        try:
            return ast.parse(e.value, mode="eval").body
        except SyntaxError:
            return None
    return e


def _alternatives(e: ast.AST | None) -> list[ast.AST]:
    e = _ann(e)
    if e is None:
        return []
    if isinstance(e, ast.BinOp) and isinstance(e.op, ast.BitOr):
        return _alternatives(e.left) + _alternatives(e.right)
    if isinstance(e, ast.Subscript) and (dotted(e.value) or "").rsplit(".", 1)[-1] in ("Union", "Optional"):
        return [m for x in (e.slice.elts if isinstance(e.slice, ast.Tuple) else [e.slice]) for m in _alternatives(x)]
    return [e]


def _heads(e: ast.AST | None) -> set[str]:
    """class names of the alternatives of an annotation (list[X] is `list`)"""
    out = set()
    for m in _alternatives(e):
        m = m.value if isinstance(m, ast.Subscript) else m
        out.add((dotted(m) or "").rsplit(".", 1)[-1])
    return out


def _tuple_parts(e: ast.AST | None) -> list[ast.AST] | None:
    e = _ann(e)
    if isinstance(e, ast.Subscript) and (dotted(e.value) or "").rsplit(".", 1)[-1] in ("tuple", "Tuple"):
        parts = list(e.slice.elts) if isinstance(e.slice, ast.Tuple) else [e.slice]
        if not any(isinstance(p, ast.Constant) and p.value is Ellipsis for p in parts):
            return parts
    return None


def _result_kinds(f: FuncInfo) -> tuple[bool, bool]:
    """(the declared result carries the state, the declared result may be an error): looked at on the result itself and on the elements
    of a tuple result, each through its union alternatives (a list of errors is a list)"""
    ret = f.node.returns
    parts = _tuple_parts(ret)
    heads: set[str] = set()
    for p in (parts if parts is not None else [ret]):
        for alt in _alternatives(p):
            inner = _tuple_parts(alt)
            heads |= set().union(*[_heads(x) for x in inner]) if inner is not None else _heads(alt)
    return bool(heads & set(STATE_CLASSES)), bool(heads & ERROR_CLASSES)


def _nesting(e: ast.AST | None) -> int:
    """how many levels of containers a field annotation declares: dict[K, set[X]] -> 2, list[X] -> 1, X -> 0"""
    e = _ann(e)
    if isinstance(e, ast.Subscript):
        head = (dotted(e.value) or "").rsplit(".", 1)[-1].lower()
        args = list(e.slice.elts) if isinstance(e.slice, ast.Tuple) else [e.slice]
        if head in ("dict", "mapping", "mutablemapping", "defaultdict", "ordereddict"):
            return 1 + (_nesting(args[-1]) if args else 0)
        if head in ("list", "set", "frozenset", "sequence", "mutablesequence", "deque", "mutableset"):
            return 1 + (_nesting(args[0]) if args else 0)
        if head in ("optional", "union"):
            return max((_nesting(a) for a in args), default=0)
        return 0
    if isinstance(e, ast.BinOp) and isinstance(e.op, ast.BitOr):
        return max(_nesting(e.left), _nesting(e.right))
    if isinstance(e, ast.Name) and e.id in ("dict", "list", "set"):
        return 1
    return 0


def _callee(ix: Any, f: FuncInfo, c: ast.Call) -> FuncInfo | None:
    cn = call_name(c)
    head, _, last = cn.rpartition(".")
    if head in ("self", "cls") and f.cls is not None:
        return ix.find_method(f.cls, last)
    r = ix.resolve(f.module, cn)
    if r is not None and r[0] == "func":
        return r[1]
    if r is not None and r[0] == "class":
        return None
    hits = [h for h in ix.all_functions if h.name == last and h.parent is None and
            (not head or (h.cls is not None and h.cls.name == head.rsplit(".", 1)[-1]))]
    return hits[0] if len(hits) == 1 else None


def _bind(g: FuncInfo, call: ast.Call) -> dict[str, ast.AST]:
    """parameter name of g -> argument expression at `call`"""
    a = g.node.args
    pos = [x.arg for x in [*a.posonlyargs, *a.args]]
    if pos and g.cls is not None and g.kind in ("method", "classmethod", "property"):
        pos = pos[1:]
    out: dict[str, ast.AST] = {}
    for p_, v in zip(pos, call.args):
        if isinstance(v, ast.Starred):
            break
        out[p_] = v
    for k in call.keywords:
        if k.arg is not None:
            out[k.arg] = k.value
    return out


# ---- one function: what its expressions point to ------------------------------------------------------------------------------------------

class _Fn:
    def __init__(self, an: "_Analysis", f: FuncInfo) -> None:
        self.an = an
        self.f = f
        self.cfg: CFG = cfg_of(f, an.cfgs)
        self.params = [p.arg for p in f.params] + [x.arg for x in (f.node.args.vararg, f.node.args.kwarg) if x is not None]
        self.state_params = {p.arg for p in f.params if p.arg in THREADED or (p.annotation is not None and _heads(p.annotation) & set(STATE_CLASSES))}
        if f.cls is not None and f.cls.name in STATE_CLASSES and f.kind in ("method", "property") and f.params:
            self.state_params.add(f.params[0].arg)
        self.binds: dict[int, dict[str, list[tuple[str, tuple[int, ...], ast.AST | None]]]] = {}   # id(stmt) -> name -> [(kind, index path, value)]
        self.attr_sets: dict[int, list[tuple[str, str, ast.AST | None]]] = {}                     # id(stmt) -> [(object name, attribute, value)]
        self.comp: dict[str, list[tuple[tuple[int, ...], ast.AST]]] = {}                           # comprehension variables
        self.stmt_at: dict[int, ast.stmt] = {}
        for st in self.cfg.nodes:
            if isinstance(st, ast.ExceptHandler):
                if st.name:
                    self.binds.setdefault(id(st), {}).setdefault(st.name, []).append(("other", (), None))
                continue
            if not isinstance(st, ast.stmt):
                continue
            self._index(st)

    def _index(self, st: ast.stmt) -> None:
        b = self.binds.setdefault(id(st), {})

        def bind(t: ast.AST, kind: str, v: ast.AST | None, path: tuple[int, ...] = ()) -> None:
            if isinstance(t, ast.Name):
                b.setdefault(t.id, []).append((kind, path, v))
            elif isinstance(t, (ast.Tuple, ast.List)):
                for i, e in enumerate(t.elts):
                    bind(e, kind, v, path + (i,))
            elif isinstance(t, ast.Starred):
                bind(t.value, "other", None, path)
            elif isinstance(t, ast.Attribute) and isinstance(t.value, ast.Name) and kind == "assign" and not path:
                self.attr_sets.setdefault(id(st), []).append((t.value.id, t.attr, v))

        if isinstance(st, ast.Assign):
            for t in st.targets:
                bind(t, "assign", st.value)
        elif isinstance(st, ast.AnnAssign) and st.value is not None:
            bind(st.target, "assign", st.value)
        elif isinstance(st, (ast.For, ast.AsyncFor)):
            bind(st.target, "for", st.iter)
        elif isinstance(st, (ast.With, ast.AsyncWith)):
            for item in st.items:
                if item.optional_vars is not None:
                    bind(item.optional_vars, "other", None)
        elif isinstance(st, (ast.Import, ast.ImportFrom)):
            for a in st.names:
                b.setdefault((a.asname or a.name).split(".")[0], []).append(("other", (), None))
        elif isinstance(st, (ast.FunctionDef, ast.AsyncFunctionDef, ast.ClassDef)):
            b.setdefault(st.name, []).append(("other", (), None))
        elif isinstance(st, ast.Delete):
            for t in st.targets:
                if isinstance(t, ast.Name):
                    b.setdefault(t.id, []).append(("other", (), None))
        for n in walk_own(st):
            self.stmt_at[id(n)] = st
            if isinstance(n, ast.NamedExpr) and isinstance(n.target, ast.Name):
                b.setdefault(n.target.id, []).append(("assign", (), n.value))
            elif isinstance(n, (ast.ListComp, ast.SetComp, ast.GeneratorExp, ast.DictComp)):
                for gen in n.generators:
                    self._comp(gen.target, gen.iter, ())
        # (an augmented assignment to a name keeps what the name pointed to: `t += [x]` extends the list t is)

    def _comp(self, t: ast.AST, it: ast.AST, path: tuple[int, ...]) -> None:
        if isinstance(t, ast.Name):
            self.comp.setdefault(t.id, []).append((path, it))
        elif isinstance(t, (ast.Tuple, ast.List)):
            for i, e in enumerate(t.elts):
                self._comp(e, it, path + (i,))

    # -- reaching definitions (statement CFG, walked backwards) --------------------------------------------------------------------
    def reaching(self, st: ast.stmt, stops: Any) -> tuple[list[Any], bool]:
        """(what `stops(stmt)` returned at the nearest statements before `st` where it returned something, the function entry is reached
        without passing such a statement)"""
        found: list[Any] = []
        entry = False
        seen: set[int] = set()
        stack = list(self.cfg.pred.get(st, ()))
        while stack:
            n = stack.pop()
            if id(n) in seen:
                continue
            seen.add(id(n))
            if n is ENTRY:
                entry = True
                continue
            got = stops(n)
            if got:
                found.append((n, got))
                continue
            stack.extend(self.cfg.pred.get(n, ()))
        return found, entry

    def defs(self, name: str, st: ast.stmt) -> tuple[list[tuple[ast.stmt, str, tuple[int, ...], ast.AST | None]], bool]:
        found, entry = self.reaching(st, lambda n: self.binds.get(id(n), {}).get(name))
        return [(n, k, p, v) for n, got in found for k, p, v in got], entry

    # -- states ------------------------------------------------------------------------------------------------------------------------
    def _makes_state(self, v: ast.AST | None, st: ast.stmt, path: tuple[int, ...], depth: int) -> bool:
        """the value (its element at `path` when it is unpacked) is a registry object that did not exist as a local before: a constructor,
        an evolved / copied state, the result of a step that is declared to return one (or that was handed one)"""
        while isinstance(v, ast.Await):
            v = v.value
        if not isinstance(v, ast.Call):
            return False
        last = call_name(v).rsplit(".", 1)[-1]
        args = [*v.args, *[k.value for k in v.keywords]]
        if not path and last in STATE_CLASSES:
            return True
        if not path and last in (EVOLVES | {"copy", "deepcopy"}) and v.args:
            return self._is_state(v.args[0], st, depth + 1)
        g = _callee(self.an.ix, self.f, v)
        if g is not None and g.node.returns is not None:
            ret: ast.AST | None = g.node.returns
            for i in path:
                parts = _tuple_parts(ret)
                if parts is None or i >= len(parts):
                    return False
                ret = parts[i]
            return bool(_heads(ret) & set(STATE_CLASSES))
        if not path and last not in COPIES and (any(k.arg in THREADED for k in v.keywords) or
                                                any(isinstance(a, ast.Name) and self._is_state(a, st, depth + 1) for a in args)):
            return True       # nothing is declared about the step: what comes back from handing it the state may be the state
        return False

    def _attribute_holds_state(self, e: ast.Attribute) -> bool:
        """<object>.schemas / <object>.parameters carries the registry - unless the object's class is known (annotated parameter, self)
        and declares the attribute as something else (the document models have `schemas` / `parameters` fields of their own)"""
        ix = self.an.ix
        base = e.value
        owner = None
        if isinstance(base, ast.Name):
            if self.f.cls is not None and self.f.kind in ("method", "property") and self.f.params and base.id == self.f.params[0].arg:
                owner = self.f.cls
            else:
                ann = next((p.annotation for p in self.f.params if p.arg == base.id), None)
                names = _heads(ann) - {"None"} if ann is not None else set()
                hits = [k for k in ix.classes.values() if k.name in names]
                owner = hits[0] if len(names) == 1 and len(hits) == 1 else None
        if owner is not None:
            got = ix.find_field(owner, e.attr)
            if got is not None and got[1] is not None:
                return bool(_heads(got[1]) & set(STATE_CLASSES))
        return True

    def _is_state(self, e: ast.AST, st: ast.stmt, depth: int = 0) -> bool:
        return any(v.kind == "S" and not v.steps for v in self.views(e, st, depth))

    def own_object(self, name: str, st: ast.stmt) -> bool:
        """every definition of the local that reaches `st` created the object (constructor / evolve / copy): writing its attributes
        does not reach anything that existed before"""
        ds, entry = self.defs(name, st)
        if entry or not ds:
            return False
        for n, kind, path, v in ds:
            while isinstance(v, ast.Await):
                v = v.value
            if not (kind == "assign" and not path and isinstance(v, ast.Call) and
                    call_name(v).rsplit(".", 1)[-1] in (set(STATE_CLASSES) | EVOLVES | {"copy", "deepcopy"})):
                return False
        return True

    def fresh(self, e: ast.AST | None, st: ast.stmt, depth: int = 0) -> bool:
        """the value is a container made here: nothing else points to it"""
        if e is None or depth > 4:
            return False
        if isinstance(e, (ast.Dict, ast.List, ast.Set, ast.ListComp, ast.SetComp, ast.DictComp, ast.Tuple)):
            return True
        if isinstance(e, ast.BinOp) and isinstance(e.op, (ast.BitOr, ast.Add, ast.Sub, ast.BitAnd)):
            return True
        if isinstance(e, ast.Subscript) and isinstance(e.slice, ast.Slice):
            return True
        if isinstance(e, ast.Call):
            last = call_name(e).rsplit(".", 1)[-1]
            return last in COPIES or last in ("union", "difference", "intersection", "fromkeys")
        if isinstance(e, ast.IfExp):
            return self.fresh(e.body, st, depth + 1) and self.fresh(e.orelse, st, depth + 1)
        if isinstance(e, ast.NamedExpr):
            return self.fresh(e.value, st, depth + 1)
        if isinstance(e, ast.Name):
            ds, entry = self.defs(e.id, st)
            return bool(ds) and not entry and all(k == "assign" and not p and self.fresh(v, n, depth + 1) for n, k, p, v in ds)
        return False

    def fresh_field(self, name: str, fld: str, st: ast.stmt, depth: int = 0) -> bool:
        """on every way to `st`, the container in <name>.<fld> was made by this function: the last thing that happened to it is
        `<name>.<fld> = <fresh>` on an object of its own, or <name> was created with a fresh value for the field (evolve(..., fld=<fresh>),
        the constructor's default factory, deepcopy)"""
        if depth > 4:
            return False

        def stops(n: object) -> Any:
            got: list[Any] = [("attr", v) for o, a, v in self.attr_sets.get(id(n), []) if o == name and a == fld]
            got += [("def", k, p, v) for k, p, v in self.binds.get(id(n), {}).get(name, [])]
            return got

        found, entry = self.reaching(st, stops)
        if entry or not found:
            return False
        for n, got in found:
            for g in got:
                if g[0] == "attr":
                    if not (self.fresh(g[1], n) and self.own_object(name, n)):
                        return False
                    continue
                _, kind, path, v = g
                while isinstance(v, ast.Await):
                    v = v.value
                if kind != "assign" or path or not isinstance(v, ast.Call):
                    return False
                last = call_name(v).rsplit(".", 1)[-1]
                kws = {k.arg: k.value for k in v.keywords}
                if last == "deepcopy":
                    continue
                if last in STATE_CLASSES:
                    if fld in kws and not self.fresh(kws[fld], n):
                        return False
                    if v.args:
                        return False
                    continue
                if last in EVOLVES or last == "copy":
                    if fld in kws:
                        if not self.fresh(kws[fld], n):
                            return False
                    elif not (v.args and isinstance(v.args[0], ast.Name) and self.fresh_field(v.args[0].id, fld, n, depth + 1)):
                        return False
                    continue
                return False
        return True

    # -- views ---------------------------------------------------------------------------------------------------------------------------
    def views(self, e: ast.AST | None, st: ast.stmt, depth: int = 0) -> set[View]:
        if e is None or depth > 6:
            return set()
        if isinstance(e, ast.Name):
            return self._name_views(e.id, st, depth)
        if isinstance(e, (ast.Await, ast.Starred, ast.NamedExpr)):
            return self.views(e.value, st, depth + 1)
        if isinstance(e, ast.IfExp):
            return self.views(e.body, st, depth + 1) | self.views(e.orelse, st, depth + 1)
        if isinstance(e, ast.BoolOp):
            return set().union(*[self.views(v, st, depth + 1) for v in e.values])
        if isinstance(e, ast.Attribute):
            if e.attr in THREADED and self._attribute_holds_state(e):
                return {View("S", norm(e))}
            base = self.views(e.value, st, depth + 1)
            out: set[View] = set()
            for v in base:
                if v.kind == "S" and not v.steps and e.attr in self.an.fields and isinstance(e.value, ast.Name) and \
                        self.fresh_field(e.value.id, e.attr, st):
                    out.add(View("O", v.name, ("." + e.attr,)))
                    continue
                nv = v.step("." + e.attr)
                if nv is not None:
                    out.add(nv)
            if not base and e.attr in self.an.exclusive:
                out.add(View("U", norm(e.value)[:40], ("." + e.attr,)))
            return out
        if isinstance(e, ast.Subscript):
            if isinstance(e.slice, ast.Slice):
                return set()
            return {nv for v in self.views(e.value, st, depth + 1) if (nv := v.step("[]")) is not None}
        if isinstance(e, ast.Call):
            last = call_name(e).rsplit(".", 1)[-1]
            if isinstance(e.func, ast.Attribute) and e.func.attr in TAKING:
                return {nv for v in self.views(e.func.value, st, depth + 1) if (v.steps or v.kind == "P") and (nv := v.step("[]")) is not None}
            if last == "cast" and len(e.args) == 2:
                return self.views(e.args[1], st, depth + 1)
            if last == "next" and e.args:
                return self.elements(e.args[0], st, (), depth + 1)
            return set()
        return set()

    def elements(self, it: ast.AST, st: ast.stmt, path: tuple[int, ...], depth: int = 0) -> set[View]:
        """what the variable at index `path` of a loop / comprehension target over `it` points to"""
        if depth > 6:
            return set()
        if isinstance(it, ast.Call):
            last = call_name(it).rsplit(".", 1)[-1]
            if last in SAME_ELEMENTS and it.args and not isinstance(it.func, ast.Attribute):
                return self.elements(it.args[0], st, path, depth + 1)
            if last == "enumerate" and it.args:
                return self.elements(it.args[0], st, path[1:], depth + 1) if path and path[0] == 1 else set()
            if isinstance(it.func, ast.Attribute) and it.func.attr in ("values", "items", "keys", "copy"):
                if it.func.attr == "keys" or (it.func.attr == "items" and path[:1] != (1,)):
                    return set()
                rest = path[1:] if it.func.attr == "items" else path
                return set() if rest else {nv for v in self.views(it.func.value, st, depth + 1) if (v.steps or v.kind == "P") and (nv := v.step("[]")) is not None}
            return set()
        if path:
            return set()
        return {nv for v in self.views(it, st, depth + 1) if (v.steps or v.kind == "P") and (nv := v.step("[]")) is not None}

    def _name_views(self, name: str, st: ast.stmt, depth: int) -> set[View]:
        ds, entry = self.defs(name, st)
        out: set[View] = set()
        for n, kind, path, v in ds:
            if kind == "other" or v is None:
                continue
            if kind == "for":
                out |= self.elements(v, n, path, depth + 1)
            elif self._makes_state(v, n, path, depth):
                out.add(View("S", name))
            elif not path:
                out |= self.views(v, n, depth + 1)
            elif isinstance(v, (ast.Tuple, ast.List)) and len(path) == 1 and path[0] < len(v.elts):
                out |= self.views(v.elts[path[0]], n, depth + 1)
        if entry:
            if name in self.params:
                out.add(View("S" if name in self.state_params else "P", name))
            elif name in self.comp:
                for path, it in self.comp[name]:
                    out |= self.elements(it, st, path, depth + 1)
            elif self.f.parent is not None:
                out |= self.an.fn(self.f.parent).anywhere(name, depth + 1)
        return out

    def anywhere(self, name: str, depth: int) -> set[View]:
        """what a local may point to at any time (for a closure that reads it)"""
        out: set[View] = set()
        if name in self.params:
            out.add(View("S" if name in self.state_params else "P", name))
        for sid, b in self.binds.items():
            for kind, path, v in b.get(name, []):
                n = next((s for s in self.cfg.nodes if id(s) == sid), None)
                if kind == "assign" and v is not None and isinstance(n, ast.stmt):
                    out |= {View("S", name)} if self._makes_state(v, n, path, depth) else (self.views(v, n, depth + 1) if not path else set())
        if not out and self.f.parent is not None and name not in self.params:
            out |= self.an.fn(self.f.parent).anywhere(name, depth + 1)
        return out

    # -- writes ----------------------------------------------------------------------------------------------------------------------------
    def writes(self) -> list[Write]:
        out: list[Write] = []
        f = self.f

        def emit(st: ast.stmt, node: ast.AST, vs: Iterable[View], op: str, via: str = "") -> None:
            out.extend(Write(f, st, node, v, op, via) for v in vs)

        def attribute(st: ast.stmt, node: ast.AST, obj: ast.AST, attr: str) -> None:
            for v in self.views(obj, st):
                if v.kind == "S" and not v.steps and isinstance(obj, ast.Name) and self.own_object(obj.id, st):
                    continue
                nv = v.step("." + attr)
                if nv is not None and v.kind != "O":
                    emit(st, node, [nv], "rebind")
            if not self.views(obj, st) and attr in self.an.exclusive and not (isinstance(obj, ast.Name) and self.own_object(obj.id, st)):
                emit(st, node, [View("U", norm(obj)[:40], ("." + attr,))], "rebind")

        def target(st: ast.stmt, t: ast.AST, op: str) -> None:
            if isinstance(t, (ast.Tuple, ast.List)):
                for x in t.elts:
                    target(st, x, op)
            elif isinstance(t, ast.Starred):
                target(st, t.value, op)
            elif isinstance(t, ast.Subscript):
                emit(st, t, {v for v in self.views(t.value, st) if v.steps or v.kind == "P"}, op)
            elif isinstance(t, ast.Attribute):
                attribute(st, t, t.value, t.attr)

        for st in self.cfg.stmts():
            if isinstance(st, ast.Assign):
                for t in st.targets:
                    target(st, t, "add")
            elif isinstance(st, ast.AnnAssign) and st.value is not None:
                target(st, st.target, "add")
            elif isinstance(st, ast.AugAssign):
                if isinstance(st.target, ast.Name):
                    op = "add" if isinstance(st.op, (ast.Add, ast.BitOr)) else "remove"
                    emit(st, st, {v for v in self.views(st.target, st) if v.steps or v.kind == "P"}, op)
                else:
                    target(st, st.target, "add")
            elif isinstance(st, ast.Delete):
                for t in st.targets:
                    target(st, t, "remove")
            elif isinstance(st, (ast.For, ast.AsyncFor)):
                target(st, st.target, "add")
            for c in walk_own(st):
                if not isinstance(c, ast.Call):
                    continue
                last = call_name(c).rsplit(".", 1)[-1]
                if isinstance(c.func, ast.Attribute) and c.func.attr in (ADDING | REMOVING | REORDERING):
                    op = "add" if c.func.attr in ADDING else "remove" if c.func.attr in REMOVING else "reorder"
                    emit(st, c, {v for v in self.views(c.func.value, st) if v.steps or v.kind == "P"}, op)
                if last in ("setattr", "delattr", "__setattr__", "__delattr__") and len(c.args) >= 2:
                    a = c.args[1]
                    attribute(st, c, c.args[0], a.value if isinstance(a, ast.Constant) and isinstance(a.value, str) else "?")
                if last in FUNCTION_MUTATORS and c.args and not isinstance(c.func, ast.Attribute) or \
                        (isinstance(c.func, ast.Attribute) and last in FUNCTION_MUTATORS and isinstance(c.func.value, ast.Name)
                         and c.func.value.id in ("operator", "heapq", "bisect", "random")):
                    emit(st, c, {v for v in self.views(c.args[0], st) if v.steps or v.kind == "P"} if c.args else (), FUNCTION_MUTATORS[last])
                g = _callee(self.an.ix, f, c)
                if g is not None and self.an.summary.get(g.qual):
                    bound = _bind(g, c)
                    for pname, steps, op in sorted(self.an.summary[g.qual]):
                        for v in self.views(bound.get(pname), st):
                            nv: View | None = v
                            for s in steps:
                                nv = nv.step(s) if nv is not None else None
                            if nv is not None and nv.kind != "O":
                                emit(st, c, [nv], op, via=g.name)
        return out


# ---- the package ----------------------------------------------------------------------------------------------------------------------------

class _Analysis:
    def __init__(self, ix: Any) -> None:
        self.ix = ix
        self.cfgs: dict[str, CFG] = {}
        self.fns: dict[str, _Fn] = {}
        self.summary: dict[str, set[tuple[str, tuple[str, ...], str]]] = {}   # function -> (plain parameter, steps, op) it writes in place
        self.classes = [k for k in ix.classes.values() if k.name in STATE_CLASSES]
        self.fields: dict[str, int] = {}
        for k in self.classes:
            for name, ann in ix.all_fields(k).items():
                self.fields[name] = max(self.fields.get(name, 0), _nesting(ann), 1)
        elsewhere = {name for k in ix.classes.values() if k.name not in STATE_CLASSES for name in k.fields}
        self.exclusive = set(self.fields) - elsewhere         # a field name that only the registries have identifies its receiver
        self.functions = [f for f in ix.all_functions]
        self.writes: dict[str, list[Write]] = {}
        self._owners: set[str] | None = None
        self._sites: dict[str, list[tuple[FuncInfo, ast.stmt]]] = {}

    def fn(self, f: FuncInfo) -> _Fn:
        if f.qual not in self.fns:
            self.fns[f.qual] = _Fn(self, f)
        return self.fns[f.qual]

    def run(self) -> None:
        for _ in range(4):
            before = {q: set(s) for q, s in self.summary.items()}
            for f in self.functions:
                ws = self.fn(f).writes()
                self.writes[f.qual] = ws
                for w in ws:
                    if w.view.kind == "P":
                        self.summary.setdefault(f.qual, set()).add((w.view.name, w.view.steps, w.op))
            if before == self.summary:
                break

    def registry_field(self, w: Write) -> str | None:
        """the registry field whose container (a registry-owned level of it) the write changes; None: not a registry write"""
        v = w.view
        if v.kind == "O" or not v.steps or not v.steps[0].startswith("."):
            return None
        fld = v.steps[0][1:]
        if v.kind == "S":
            if fld not in self.fields and fld != "?":
                return None
        elif fld not in self.exclusive:
            return None
        rest = v.steps[1:]
        if any(s != "[]" for s in rest):
            return None                      # a write inside a registered object, not in the registry
        if w.op == "rebind":
            return fld if not rest else None
        return fld if len(rest) < self.fields.get(fld, 1) else None

    # -- roles -------------------------------------------------------------------------------------------------------------------------------
    def attempts(self, f: FuncInfo, st: object) -> bool:
        """the statement hands the state to a step that may refuse (declared result admits an error): an attempt"""
        if not isinstance(st, ast.stmt):
            return False
        fn = self.fn(f)
        for c in walk_own(st):
            if not isinstance(c, ast.Call):
                continue
            g = _callee(self.ix, f, c)
            if g is None or not _result_kinds(g)[1]:
                continue
            args = [*c.args, *[k.value for k in c.keywords]]
            if any(k.arg in THREADED for k in c.keywords) or any(fn._is_state(a, st) for a in args if isinstance(a, (ast.Name, ast.Attribute))):
                return True
        return False

    def call_sites(self, g: FuncInfo) -> list[tuple[FuncInfo, ast.stmt]]:
        if g.qual in self._sites:
            return self._sites[g.qual]
        out = self._sites.setdefault(g.qual, [])
        for h in self.functions:
            if h.qual == g.qual:
                continue
            fn = self.fn(h)
            for st in fn.cfg.stmts():
                for c in walk_own(st):
                    if not (isinstance(c, ast.Call) and call_name(c).rsplit(".", 1)[-1] == g.name):
                        continue
                    gg = _callee(self.ix, h, c)
                    if (gg is not None and gg.qual == g.qual) or (
                            gg is None and g.cls is not None and g.cls.name in STATE_CLASSES and isinstance(c.func, ast.Attribute)
                            and fn._is_state(c.func.value, st)):   # <state>.method(...)
                        out.append((h, st))
                        break
        return out

    def settled(self, f: FuncInfo, st: ast.stmt, seen: tuple[str, ...] = ()) -> bool:
        """nothing is attempted any more once `st` has run, and nobody can be told to go back: f's declared result cannot be an error, no
        statement reachable from st hands the state to a fallible step - and, when f does not return the state at all (a procedure: its
        effect belongs to its caller), the same holds at every call of f"""
        has_state, fallible = _result_kinds(f)
        if fallible or f.qual in seen:
            return False
        if any(self.attempts(f, n) for n in _after(self.fn(f).cfg, st)):
            return False
        if has_state:
            return True
        sites = self.call_sites(f)
        return bool(sites) and all(self.settled(h, s2, seen + (f.qual,)) for h, s2 in sites)

    def owners(self) -> set[str]:
        """functions whose result is the state and cannot be an error - the holder of the current state, which nobody can tell to go
        back - with the private helpers they delegate to"""
        if self._owners is None:
            self._owners = set()
            for f in self.functions:
                has_state, fallible = _result_kinds(f)
                if has_state and not fallible and f.parent is None:
                    self._owners |= {g.qual for g in region(self.ix, f)}
        return self._owners

    def owner(self, f: FuncInfo, seen: tuple[str, ...] = ()) -> bool:
        """f is a state owner, a private helper of one - or a procedure on the state (no state, no error in its declared result: what it
        does belongs to its callers) that only state owners call"""
        if f.qual in self.owners():
            return True
        has_state, fallible = _result_kinds(f)
        if has_state or fallible or f.qual in seen or not self.fn(f).state_params:
            return False
        sites = self.call_sites(f)
        return bool(sites) and all(self.owner(h, seen + (f.qual,)) for h, _ in sites)

    def roles_at(self, f: FuncInfo, st: ast.stmt) -> list[str]:
        return (["state owner"] if self.owner(f) else []) + (["settled writer"] if self.settled(f, st) else [])


def _after(cfg: CFG, st: object) -> set[object]:
    """statements that can run after st (st itself only when it can run again)"""
    out: set[object] = set()
    stack = list(cfg.succ.get(st, ()))
    while stack:
        n = stack.pop()
        if n in out:
            continue
        out.add(n)
        stack.extend(cfg.succ.get(n, ()))
    return out


def analysis(ctx: Any) -> _Analysis:
    """one analysis per analysed tree, shared by the properties that call the rule"""
    got = getattr(ctx, "_inplace_analysis", None)
    if got is None:
        got = _Analysis(ctx.py)
        got.run()
        ctx._inplace_analysis = got
    return got


RULE_TEXT = ("who may write the registries in place: the containers of the threaded Schemas / Parameters objects are shared by every "
             "evolved copy, so a build step registers on an evolved copy with a container of its own - what an attempt registered is "
             "gone when its caller goes back to the state of before the attempt (a failed piece, an item queued for another round). "
             "Every in-place write (item / attribute assignment, del, mutating method, augmented assignment, setattr; through a local "
             "alias, an element taken out of the container, a loop variable over it, or a non-copying helper it is handed to) whose "
             "receiver is a registry-owned container that the function did not make itself is made in one of the roles of the frozen "
             "table - " + "; ".join(f"{role}: {fld} {op}" for role, fld, op, _ in LEGITIMATE) + " - where a `state-class method` is a "
             "method of the registry class writing through self (any other write of such a method is judged at each of its calls), a "
             "`state owner` is a function whose declared result is the state and cannot be an error, a private helper of one, or a "
             "procedure on the state that only state owners call, and a write is `settled` when the function's declared result cannot be "
             "an error, no statement that can run after the write hands the state to a step that may refuse, and - for a procedure, "
             "whose effect belongs to its callers - the same holds at every call of it")


def _control(an: _Analysis) -> bool:
    """positive control: a synthetic build step that registers through a local alias of the registry's dict must come out as a
    registry write that no role covers (evaluated with the machinery of the rule, on the classes and fields found in this tree)"""
    src = ("def _control_step(*, schemas: Schemas, name: str, prop: object) -> 'tuple[object | PropertyError, Schemas]':\n"
           "    table = schemas.classes_by_name\n"
           "    if name not in table:\n"
           "        table[name] = prop\n"
           "    return prop, schemas\n")
    node = ast.parse(src).body[0]
    mod = an.classes[0].module
    f = FuncInfo("_control_step", f"{mod.name}.<control>._control_step", mod, None, node)  # type: ignore[arg-type]
    ws = [w for w in _Fn(an, f).writes() if an.registry_field(w) == "classes_by_name" and w.op == "add"]
    return bool(ws) and not any(an.roles_at(f, w.stmt) for w in ws)


def check(rep: Report, ctx: Any, rule_id: str) -> None:
    ix = ctx.py
    rep.rule(rule_id, RULE_TEXT)
    rep.require(all(any(k.name == n for k in ix.classes.values()) for n in STATE_CLASSES), "the registry classes Schemas / Parameters")
    an = analysis(ctx)
    rep.require(an.fields, "annotated fields of the registry classes")
    rep.control("in-place registration by a build step is seen", _control(an))
    allowed = {(role, fld, op) for role, fld, op, _ in LEGITIMATE}
    n_ok = 0
    n_threading = sum(1 for f in an.functions if an.fn(f).state_params)
    seen: set[tuple[str, int, str, str]] = set()

    def judge(f: FuncInfo, st: ast.stmt, node: ast.AST, fld: str, op: str, roles: list[str], what: str, via: str) -> None:
        nonlocal n_ok
        ok = any((r, fld, op) in allowed for r in roles)
        n_ok += ok
        key = f"{short(f)}::in-place[{fld}.{op}{' via ' + via if via else ''}: {role_anon(node, f.node)[:70]}]"
        rep.check(ok, rule_id, key,
                  f"`{what[:70]}` writes the registry's `{fld}` in place ({op}) and {short(f)} is "
                  f"{('a ' + ' / '.join(roles)) if roles else 'a build step whose result its caller may discard'}, which the table of "
                  "legitimate in-place writers does not list for this field and operation: the write reaches through every evolved copy, "
                  "so what an attempt that is later abandoned (a piece that fails afterwards, an item queued for another round) "
                  "registered stays registered - an unrelated piece then collides with it, a retry finds its own leftovers",
                  where(f, node), lhs=f"{norm(st)[:80]} [{', '.join(roles) or 'no role'}]",
                  rhs="evolve(<state>, <field>=<new container>) / a role of the table: " + ", ".join(sorted({r for r, fl, o in allowed if fl == fld and o == op})))

    for f in an.functions:
        for w in an.writes.get(f.qual, []):
            fld = an.registry_field(w)
            if fld is None or (f.qual, id(w.node), fld, w.op) in seen:
                continue
            seen.add((f.qual, id(w.node), fld, w.op))
            what = norm(w.stmt if isinstance(w.node, (ast.Subscript, ast.Attribute)) else w.node)
            own_method = f.cls is not None and f.cls.name in STATE_CLASSES and f.kind == "method" and w.view.kind == "S" and \
                bool(f.params) and w.view.name == f.params[0].arg
            if own_method and ("state-class method", fld, w.op) in allowed:
                judge(f, w.stmt, w.node, fld, w.op, ["state-class method"], what, w.via)
                continue
            sites = an.call_sites(f) if own_method else []
            if sites:
                # a method of the registry class is the registry's interface: what it writes is written by whoever calls it
                for h, st in sites:
                    call = next((c for c in walk_own(st) if isinstance(c, ast.Call) and call_name(c).rsplit(".", 1)[-1] == f.name), st)
                    judge(h, st, call, fld, w.op, an.roles_at(h, st), norm(call), f"{f.cls.name}.{f.name}")
                continue
            judge(f, w.stmt, w.node, fld, w.op, an.roles_at(f, w.stmt), what, w.via)
    rep.floor("registry_inplace_writers_legitimate", n_ok, 3)
    rep.floor("state_threading_functions", n_threading, 15)
