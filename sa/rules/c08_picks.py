"""C08 / R08.16 - a template never dereferences an element picked out of a collection that may be empty (rule-private to c08.py).

What an omitted piece leaves behind is a smaller collection - possibly an empty one (a tag whose operations were all refused keeps its
collection, with no endpoints; a model whose properties were all refused has none).  jinja2 answers `<empty> | first`, `| last`,
`| random`, `| min`, `| max` and `<empty>[0]` with Undefined, and reading an attribute / an item of Undefined or calling it raises
UndefinedError: the render stops, the build stops with it, after some files and before others.  Printing, testing and iterating
Undefined are harmless, so only the dereference is an obligation.

Everything is read off the canonical Jinja AST (sa/jinja_canon.py): a `set` / `with` variable reads as its definition, so a pick held
by a variable and a pick written inline are the same thing; guards are evaluated as truth tables over their atoms.
"""
from __future__ import annotations

import itertools
from typing import Any, Iterator

from jinja2 import nodes

from ..jinja_interp import expr_text

PICK_FILTERS = {"first", "last", "random", "min", "max"}
# views of a collection that are empty exactly when (or at least whenever) the collection is
SAME_SIZE_FILTERS = {"list", "sort", "reverse", "map", "unique", "dictsort", "items"}
SAME_SIZE_METHODS = {"values", "keys", "items", "copy"}
LENGTH_FILTERS = {"length", "count"}
_OPS = {"eq": lambda a, b: a == b, "ne": lambda a, b: a != b, "gt": lambda a, b: a > b, "gteq": lambda a, b: a >= b,
        "lt": lambda a, b: a < b, "lteq": lambda a, b: a <= b}
_SWAP = {"eq": "eq", "ne": "ne", "gt": "lt", "gteq": "lteq", "lt": "gt", "lteq": "gteq"}

Guard = tuple[Any, bool]   # (test node, polarity)


RECORD_SOURCES = (".items()[*]", "|items[*]", "|dictsort[*]", "|groupby", "|batch", "|slice")


def _is_record(c: nodes.Node) -> bool:
    """a fixed-shape record, not a collection whose size the document decides: an element of a loop over key/value pairs or groups
    (the canonical name of a loop variable says what it runs over)"""
    return isinstance(c, nodes.Name) and c.name.rstrip("'").endswith("[*]") and any(r in c.name for r in RECORD_SOURCES)


def _pick(e: nodes.Node) -> tuple[nodes.Node, int] | None:
    """(collection, number of elements it must have) when `e` takes one element out of a collection and is Undefined without it"""
    if isinstance(e, nodes.Filter) and e.name in PICK_FILTERS and e.node is not None:
        return e.node, 1
    if isinstance(e, nodes.Getitem) and _is_record(e.node):
        return None
    if isinstance(e, nodes.Getitem) and isinstance(e.arg, nodes.Const) and isinstance(e.arg.value, int) and not isinstance(e.arg.value, bool):
        k = e.arg.value
        return e.node, (k + 1 if k >= 0 else -k)
    if isinstance(e, nodes.Getitem) and isinstance(e.arg, nodes.Neg) and isinstance(e.arg.node, nodes.Const) and isinstance(e.arg.node.value, int):
        return e.node, max(1, e.arg.node.value)
    return None


def _carriers(c: nodes.Node, defs: "Defs | None" = None) -> list[nodes.Node]:
    """the collection and what it is a same-size view of: c, then c without `.values()` / `| list` / `| sort` ... (a template-bound
    variable is what it was bound to)"""
    out = [c]
    while True:
        if _single(c, defs) is not None and len(out) < 8:
            c = _single(c, defs)
        elif isinstance(c, nodes.Filter) and c.name in SAME_SIZE_FILTERS and c.node is not None:
            c = c.node
        elif isinstance(c, nodes.Call) and isinstance(c.node, nodes.Getattr) and c.node.attr in SAME_SIZE_METHODS and not c.args and not c.kwargs:
            c = c.node.node
        else:
            return out
        out.append(c)


def _atom_nodes(test: nodes.Node) -> list[nodes.Node]:
    if isinstance(test, (nodes.And, nodes.Or)):
        return _atom_nodes(test.left) + _atom_nodes(test.right)
    if isinstance(test, nodes.Not):
        return _atom_nodes(test.node)
    return [test]


def _evaluate(test: nodes.Node, env: dict[str, bool]) -> bool:
    if isinstance(test, nodes.And):
        return _evaluate(test.left, env) and _evaluate(test.right, env)
    if isinstance(test, nodes.Or):
        return _evaluate(test.left, env) or _evaluate(test.right, env)
    if isinstance(test, nodes.Not):
        return not _evaluate(test.node, env)
    return env[expr_text(test)]


def _length_predicate(atom: nodes.Node, texts: set[str]) -> Any:
    """the atom as a predicate of len(<collection>) (None: it is not one): truthiness of the collection or of its length, a comparison
    of its length with an integer constant"""
    if expr_text(atom) in texts:
        return lambda n: n > 0
    if isinstance(atom, nodes.Filter) and atom.name in LENGTH_FILTERS and atom.node is not None and expr_text(atom.node) in texts:
        return lambda n: n > 0
    if isinstance(atom, nodes.Compare) and len(atom.ops) == 1:
        lhs, op, rhs = atom.expr, atom.ops[0].op, atom.ops[0].expr
        if isinstance(lhs, nodes.Const) and not isinstance(rhs, nodes.Const):
            lhs, rhs, op = rhs, lhs, _SWAP.get(op, op)
        if op in _OPS and isinstance(rhs, nodes.Const) and isinstance(rhs.value, int) and not isinstance(rhs.value, bool) and \
                isinstance(lhs, nodes.Filter) and lhs.name in LENGTH_FILTERS and lhs.node is not None and expr_text(lhs.node) in texts:
            k, f = rhs.value, _OPS[op]
            return lambda n: f(n, k)
    return None


Defs = dict[str, list[tuple[nodes.Node, tuple, tuple]]]


def _single(e: nodes.Node, defs: Defs | None) -> nodes.Node | None:
    """the one definition of a template-bound variable (None: not such a variable, or bound in several places)"""
    ds = defs.get(e.name, []) if defs is not None and isinstance(e, nodes.Name) else []
    return ds[0][0] if len(ds) == 1 else None


def _expand(t: nodes.Node, defs: Defs | None, depth: int = 4) -> nodes.Node:
    """a condition with the template-bound variables it reads replaced by what they were bound to, as far as its boolean structure and
    the operands of its comparisons go: `{% set n = xs | length %}{% if n == 1 %}` tests what `{% if xs | length == 1 %}` tests"""
    if depth <= 0:
        return t
    if isinstance(t, (nodes.And, nodes.Or)):
        return type(t)(_expand(t.left, defs, depth), _expand(t.right, defs, depth), lineno=t.lineno)
    if isinstance(t, nodes.Not):
        return nodes.Not(_expand(t.node, defs, depth), lineno=t.lineno)
    if isinstance(t, nodes.Name):
        d = _single(t, defs)
        return _expand(d, defs, depth - 1) if d is not None else t
    if isinstance(t, nodes.Compare) and len(t.ops) == 1:
        return nodes.Compare(_expand(t.expr, defs, depth), [nodes.Operand(t.ops[0].op, _expand(t.ops[0].expr, defs, depth))], lineno=t.lineno)
    return t


def _known_to_hold(coll: nodes.Node, need: int, guards: tuple[Guard, ...], loops: tuple[str, ...], picked: nodes.Node | None = None,
                   defs: Defs | None = None) -> bool:
    """wherever these guards let the template through, the collection has at least `need` elements (or the picked element itself was
    tested: `{% if <pick> %}`, `<pick> is defined`)"""
    texts = {expr_text(c) for c in _carriers(coll, defs)}
    guards = tuple((_expand(t, defs), pol) for t, pol in guards)
    if need <= 1 and texts & set(loops):
        return True   # inside a loop over it
    atoms: dict[str, nodes.Node] = {}
    for t, _ in guards:
        for a in _atom_nodes(t):
            atoms.setdefault(expr_text(a), a)
    if not atoms or len(atoms) > 14:
        return False
    preds = {k: _length_predicate(a, texts) for k, a in atoms.items()}
    ptxts = {expr_text(x) for x in ([picked, _single(picked, defs)] if picked is not None else []) if x is not None}
    tested = {k for k, a in atoms.items() if k in ptxts or (isinstance(a, nodes.Test) and a.name == "defined" and expr_text(a.node) in ptxts)}
    if not any(p is not None for p in preds.values()) and not tested:
        return False
    names = sorted(atoms)
    some = False
    for vals in itertools.product([False, True], repeat=len(names)):
        env = dict(zip(names, vals))
        if not all(_evaluate(t, env) == pol for t, pol in guards):
            continue
        lengths = [n for n in range(need + 64) if all(p(n) == env[k] for k, p in preds.items() if p is not None)]
        if not lengths:
            continue   # no length satisfies this assignment (`length > 1` with `length == 1`): not a way through
        if any(env[k] for k in tested):
            some = True
            continue
        if lengths[0] < need:
            return False
        some = True
    return some


class Site:
    def __init__(self, template: str, macro: str, node: nodes.Node, pick: nodes.Node, coll: nodes.Node, need: int, ok: bool) -> None:
        self.template, self.macro, self.node, self.pick, self.coll, self.need, self.ok = template, macro, node, pick, coll, need, ok

    @property
    def key(self) -> str:
        return f"{self.template}::{self.macro}::{expr_text(self.pick)[:90]}"


def _ends_iteration(body: list[nodes.Node]) -> bool:
    return bool(body) and isinstance(body[-1], (nodes.Continue, nodes.Break))


def _statements(body: list[nodes.Node], guards: tuple[Guard, ...], loops: tuple[str, ...]) -> Iterator[tuple[nodes.Node, tuple[Guard, ...], tuple[str, ...]]]:
    """every expression a statement evaluates, with the conditions and loops it is evaluated under"""
    for n in body:
        if isinstance(n, nodes.Macro):
            continue
        if isinstance(n, nodes.If):
            yield n.test, guards, loops
            yield from _statements(n.body, guards + ((n.test, True),), loops)
            neg = guards + ((n.test, False),)
            for el in n.elif_:
                yield el.test, neg, loops
                yield from _statements(el.body, neg + ((el.test, True),), loops)
                neg = neg + ((el.test, False),)
            yield from _statements(n.else_, neg, loops)
            if not n.else_ and not n.elif_ and _ends_iteration(n.body):
                guards = guards + ((n.test, False),)   # what follows an arm that ended the iteration runs only when the arm was not taken
            continue
        if isinstance(n, nodes.For):
            yield n.iter, guards, loops
            inner = loops + (expr_text(n.iter),)
            g2 = guards
            if n.test is not None:
                yield n.test, guards, inner
                g2 = guards + ((n.test, True),)
            yield from _statements(n.body, g2, inner)
            yield from _statements(n.else_, guards, loops)
            continue
        for ch in n.iter_child_nodes():
            if isinstance(ch, nodes.Expr):
                yield ch, guards, loops
        sub = getattr(n, "body", None)
        if isinstance(sub, list):
            yield from _statements(sub, guards, loops)


def _subexprs(e: nodes.Node, guards: tuple[Guard, ...]) -> Iterator[tuple[nodes.Node, tuple[Guard, ...]]]:
    """every sub-expression with the conditions under which it is evaluated (`a and b`, `a or b`, `x if c else y` evaluate lazily)"""
    yield e, guards
    if isinstance(e, nodes.And):
        yield from _subexprs(e.left, guards)
        yield from _subexprs(e.right, guards + ((e.left, True),))
    elif isinstance(e, nodes.Or):
        yield from _subexprs(e.left, guards)
        yield from _subexprs(e.right, guards + ((e.left, False),))
    elif isinstance(e, nodes.CondExpr):
        yield from _subexprs(e.test, guards)
        yield from _subexprs(e.expr1, guards + ((e.test, True),))
        if e.expr2 is not None:
            yield from _subexprs(e.expr2, guards + ((e.test, False),))
    else:
        for ch in e.iter_child_nodes():
            if isinstance(ch, nodes.Node):
                yield from _subexprs(ch, guards)


def _scopes(tree: nodes.Template) -> Iterator[tuple[str, list[nodes.Node]]]:
    yield "<top>", tree.body
    for m in tree.find_all(nodes.Macro):
        yield m.name, m.body


def _root(e: nodes.Node) -> nodes.Node:
    while isinstance(e, (nodes.Getattr, nodes.Getitem, nodes.Call, nodes.Filter)) and e.node is not None:
        e = e.node
    return e


def _evaluated(tree: nodes.Template) -> list[tuple[str, nodes.Node, tuple[Guard, ...], tuple[str, ...]]]:
    """(macro, sub-expression, conditions, loops) for everything the template evaluates"""
    return [(macro, e, g, loops) for macro, body in _scopes(tree) for top, guards, loops in _statements(body, (), ())
            for e, g in _subexprs(top, guards)]


def _at_call_sites(trees: dict[str, nodes.Template], evaluated: dict[str, list], alldefs: dict[str, Defs], macro: nodes.Macro, coll: nodes.Node, need: int,
                   depth: int = 2) -> bool:
    """the collection is (part of) an argument of the macro: it is known to hold the element when it does at every call of the macro
    (the argument put in the parameter's place, the conditions of the call site) - and there is such a call"""
    import copy

    params = [a.name for a in macro.args]
    root = _root(coll)
    if not (isinstance(root, nodes.Name) and root.name in params):
        return False
    i = params.index(root.name)
    calls = 0
    for tname, evs in evaluated.items():
        for cm, e, g, loops in evs:
            if not (isinstance(e, nodes.Call) and ((isinstance(e.node, nodes.Name) and e.node.name == macro.name) or
                                                   (isinstance(e.node, nodes.Getattr) and e.node.attr == macro.name))):
                continue
            calls += 1
            arg = next((k.value for k in e.kwargs if k.key == root.name), e.args[i] if i < len(e.args) else None)
            if arg is None or e.dyn_args is not None or e.dyn_kwargs is not None:
                return False
            c2 = copy.deepcopy(coll)
            if _root(c2) is c2:
                c2 = arg
            else:
                parent = c2
                while parent.node is not _root(c2):
                    parent = parent.node
                parent.node = arg
            if _known_to_hold(c2, need, g, loops, defs=alldefs[tname]):
                continue
            outer = next((m for m in trees[tname].find_all(nodes.Macro) if m.name == cm), None) if cm != "<top>" else None
            if outer is None or depth <= 0 or not _at_call_sites(trees, evaluated, alldefs, outer, c2, need, depth - 1):
                return False
    return calls > 0


def sites_of(trees: dict[str, nodes.Template]) -> list[Site]:
    evaluated = {name: _evaluated(tree) for name, tree in trees.items()}
    alldefs = {name: definitions(tree) for name, tree in trees.items()}
    out: list[Site] = []
    for name, tree in trees.items():
        macros = {m.name: m for m in tree.find_all(nodes.Macro)}
        for st in sites(name, tree, evaluated[name], alldefs[name]):
            if not st.ok and st.macro in macros:
                st.ok = _at_call_sites(trees, evaluated, alldefs, macros[st.macro], st.coll, st.need)
            out.append(st)
    return out


def definitions(tree: nodes.Template) -> Defs:
    """where each template-bound variable is defined, and under what (canonical names: the definitions of one name are one variable)"""
    defs: Defs = {}
    def collect(body: list[nodes.Node], guards: tuple[Guard, ...], loops: tuple[str, ...]) -> None:
        for n in body:
            if isinstance(n, nodes.Macro):
                continue
            if isinstance(n, nodes.Assign) and isinstance(n.target, nodes.Name):
                defs.setdefault(n.target.name, []).append((n.node, guards, loops))
            elif isinstance(n, nodes.With):
                for t, v in zip(n.targets, n.values):
                    if isinstance(t, nodes.Name):
                        defs.setdefault(t.name, []).append((v, guards, loops))
            if isinstance(n, nodes.If):
                collect(n.body, guards + ((n.test, True),), loops)
                neg = guards + ((n.test, False),)
                for el in n.elif_:
                    collect(el.body, neg + ((el.test, True),), loops)
                    neg = neg + ((el.test, False),)
                collect(n.else_, neg, loops)
                if not n.else_ and not n.elif_ and _ends_iteration(n.body):
                    guards = guards + ((n.test, False),)
            elif isinstance(n, nodes.For):
                inner = loops + (expr_text(n.iter),)
                collect(n.body, guards + (((n.test, True),) if n.test is not None else ()), inner)
                collect(n.else_, guards, loops)
            elif isinstance(getattr(n, "body", None), list):
                collect(n.body, guards, loops)

    for _, body in _scopes(tree):
        collect(body, (), ())
    return defs


def sites(name: str, tree: nodes.Template, evaluated: list | None = None, defs: Defs | None = None) -> list[Site]:
    """the dereferences of picked elements in one template, each with whether the collection is known to hold the element there"""
    defs = defs if defs is not None else definitions(tree)
    out: list[Site] = []
    for macro, e, g, loops in (evaluated if evaluated is not None else _evaluated(tree)):
        if True:
            if True:
                base = e.node if isinstance(e, (nodes.Getattr, nodes.Getitem, nodes.Call)) else None
                if base is None:
                    continue
                # the picks this base may hold: itself, or - a template-bound variable - its definitions
                held: list[tuple[nodes.Node, nodes.Node, int, bool]] = []
                p = _pick(base)
                if p is not None:
                    held.append((base, p[0], p[1], False))
                elif isinstance(base, nodes.Name):
                    for v, dg, dl in defs.get(base.name, []):
                        p = _pick(v)
                        if p is not None:
                            held.append((v, p[0], p[1], _known_to_hold(p[0], p[1], dg, dl, defs=defs)))
                for pk, coll, need, ok_at_def in held:
                    ok = ok_at_def or _known_to_hold(coll, need, g, loops, picked=base, defs=defs)
                    out.append(Site(name, macro, e, pk, coll, need, ok))
    return out


CONTROL = (
    "{% set e = xs | first %}{{ e.name }}"                                            # unguarded, through a variable
    "{{ (ys | last).name }}{{ zs[0].name }}"                                          # unguarded, inline
    "{% if ws %}{{ (ws.values() | first).name }}{% endif %}"                          # guarded by the collection
    "{% if vs | length == 1 %}{{ vs[0].name }}{% elif vs | length > 1 %}{{ vs[1].name }}{% endif %}"   # guarded by its length
    "{% for u in us %}{{ (us | first).name }}{% endfor %}"                            # inside a loop over it
    "{{ (ts | first).name if ts else '' }}"                                           # inline-if
    "{% if rs | length > 0 %}{{ rs[1].name }}{% endif %}"                             # one element known, two needed
    "{% set n = ns | length %}{% set some = n > 0 %}{% if n == 1 %}{{ ns[0].name }}{% endif %}{% if some %}{{ (ns | last).name }}{% endif %}"
    "{% set f = ms | first %}{% if f and f.name %}{{ f.name }}{% endif %}"          # the pick itself tested, through its variable
    "{% macro m(ps) %}{{ ps[0].name }}{% endmacro %}{% if qs %}{{ m(qs) }}{% endif %}"   # guarded where the macro is called
    "{% macro k(ps) %}{{ ps[0].name }}{% endmacro %}{{ k(os) }}"                       # ... and not
)


def control() -> bool:
    """positive control: the synthetic template above has exactly five unguarded dereferences (xs, ys, zs, rs[1], ps in k)"""
    from jinja2 import Environment

    from ..jinja_canon import canonicalise

    tree = Environment().parse(CONTROL)
    canonicalise(tree)
    found = sites_of({"<control>": tree})
    got = sorted(f"{s.macro}:{expr_text(s.coll)}" for s in found if not s.ok)
    safe = sorted(f"{s.macro}:{expr_text(s.coll)}" for s in found if s.ok)
    return got == ["<top>:rs", "<top>:xs", "<top>:ys", "<top>:zs", "k:ps"] and \
        safe == ["<top>:ms", "<top>:ms", "<top>:ns", "<top>:ns", "<top>:ts", "<top>:us", "<top>:vs", "<top>:vs", "<top>:ws.values()", "m:ps"]
