"""C14 - enumerations and constants admit exactly the declared values."""
from __future__ import annotations

import ast
import re
from typing import Any

from .. import tplq
from ..astutil import Locals, anon, call_name, error_names, local_names, norm, region, returns_error, short, where
from ..cfg import walk_own
from ..core import PKG, Report
from ..domain import is_esc
from .registries import _bind_full, _locals, _own_nodes, callers_of, receiver_classes
from .c10 import generated_variants
from .siblings import Path as SimPath
from .siblings import PathSim, _class_names, _strip, enum_builder_parity, enum_merge_parity, inline_tail_calls

LEVEL = ("structural clauses: semantic facts of each enum builder and of merge_properties per enum class (private helpers - and package functions that only the builders call - written out in "
         "place wherever they are called, loops over constant tables unrolled, record fields and lambdas held in them followed, a result "
         "that travels as a NamedTuple followed through isinstance and unpacking; the merge "
         "is simulated for every property class of the package on the other side), checked by simulating "
         "the control flow under scenarios (null extraction by identity, only-null -> NoneProperty, single supported value type, null "
         "member -> nullable union, members from the null-free list, a taken class name reused only by the same class with the same "
         "member table, default converted before registration; subset merge in both directions, value-type compatibility); "
         "every store of a member name (paths of values_from_list simulated for int / str members x duplicate found / not) is preceded by a "
         "duplicate test on the very key that is stored or names an integer member injectively, a found duplicate ends in a "
         "diagnostic; closed decode (enum construct calls the class, the generated decoder of an enum / literal-enum property hands "
         "every value that is present - not the UNSET marker - to that call on every path, no test of the value itself in between, the "
         "literal check function tests membership and its fall-through raises, the const decoder - the code the macro generates under every "
         "assignment of the template conditions, macro calls followed and `set` variables read as their definitions - raises whenever a "
         "present value differs from the constant), encode is .value / identity in every encoder macro (same reading), str(<member>) only together with a __str__ of the generated class that returns the "
         "value; member values reach the class through a string context with a single escaping (label analysis of the "
         "emission site; each class template must show such an emission), Literal members through repr only; a closed member of a union "
         "keeps its rejection (the generated union decoder does not discard the member's exception and then return the undecoded value); nobody adds to the declared values (every write to the enum field of a "
         "schema stores None or a selection of the old list).")


def run(rep: Report, ctx: Any) -> str:
    jx = ctx.jinja
    enum_builder_parity(rep, ctx, "R14.1")
    enum_merge_parity(rep, ctx, "R14.1m")

    # ---- R14.2 member names unique or reported ---------------------------------------------------------------------
    _member_names(rep, ctx)

    # ---- R14.3 closed decode -----------------------------------------------------------------------------------------
    rep.rule("R14.3", "decode is closed: Enum(value) / check_<name>(value) with membership test and raising fall-through, applied by "
                      "the generated property decoder to every value that is present (only the test for the UNSET marker decides "
                      "whether the value is decoded) / const "
                      "comparison that raises under every condition of the template (required and optional property alike); encode is "
                      ".value or identity in every encoder macro of the enum template - an encoder that writes str(<member>) instead "
                      "relies on the generated class, whose __str__ must then return the value")
    et = jx.templates.get("property_templates/enum_property.py.jinja")
    lt = jx.templates.get("property_templates/literal_enum_property.py.jinja")
    ct = jx.templates.get("property_templates/const_property.py.jinja")
    le = jx.templates.get("literal_enum.py.jinja")
    rep.require(et and lt and ct and le, "enum / const templates")
    # what a macro generates is read per valuation of the template conditions, macro calls / call blocks followed, `set` variables
    # read as their definitions (c10.generated_variants): the text is the same however the template is cut into pieces
    def decoder_calls(ti: Any, callee_ok: Any) -> "tuple[bool, list[str]]":
        m_ = ti.macros.get("construct_function")
        vs = generated_variants(m_, ti, jx, _roles({"source": "SOURCE", "property.class_info.name": "CLASS"})) if m_ is not None else None
        shown_, ok_ = [], bool(vs)
        for _, text in vs or []:
            shown_.append(" ".join(text.split())[:80])
            try:
                e = ast.parse(text.strip(), mode="eval").body
            except SyntaxError:
                ok_ = False
                continue
            ok_ = ok_ and isinstance(e, ast.Call) and not e.keywords and len(e.args) == 1 and isinstance(e.args[0], ast.Name) and \
                e.args[0].id == "SOURCE" and isinstance(e.func, ast.Name) and callee_ok(e.func.id)
        return ok_, shown_[:2]

    ok, shown = decoder_calls(et, lambda fn_: fn_ == "CLASS")
    rep.check(ok, "R14.3", "enum_property::construct_function",
              "decoding an enum no longer calls the enum class on the wire value", where=f"{PKG}/templates/{et.name}", lhs=shown,
              rhs="<Class>(<source>)")
    ok, shown = _present_value_decoded(et, jx, lambda fn_: fn_ == "CLASS")
    rep.check(ok, "R14.3", "enum_property::construct::present-value-decoded",
              "the generated decoder of an enum property does not hand every value that is present to the enum class: a test that "
              "depends on the value itself (not on its being the UNSET marker) decides whether it is decoded, so a listed value can "
              "end up as something else than its member", where=f"{PKG}/templates/{et.name}", lhs=shown,
              rhs="value present (not the UNSET marker) -> <property> = <Class>(<value>) on every path")
    _enum_encoders(rep, jx, et)
    ok, shown = decoder_calls(lt, lambda fn_: fn_.startswith("check_"))
    rep.check(ok, "R14.3", "literal_enum_property::construct_function",
              "decoding a literal enum no longer goes through its check_ function", where=f"{PKG}/templates/{lt.name}", lhs=shown,
              rhs="check_<name>(<source>)")
    ok, shown = _present_value_decoded(lt, jx, lambda fn_: fn_.startswith("check_"))
    rep.check(ok, "R14.3", "literal_enum_property::construct::present-value-decoded",
              "the generated decoder of a literal-enum property does not hand every value that is present to the check_ function: a "
              "test that depends on the value itself (not on its being the UNSET marker) decides whether it is checked, so a listed "
              "value can end up as something else than itself, an unlisted one can get past the check",
              where=f"{PKG}/templates/{lt.name}", lhs=shown,
              rhs="value present (not the UNSET marker) -> <property> = check_<name>(<value>) on every path")
    # the check function itself, read as the Python it is (template expressions stand for a name): on every path a value that is in
    # the value set is returned and a value that is not ends in a raise - whatever the order of the two and the polarity of the test
    ok, shown = _check_function_closed(le)
    rep.check(ok, "R14.3", "literal_enum.py.jinja::check-function", "the literal-enum check function does not return exactly the values that "
              "are in the value set and raise for the others", where=f"{PKG}/templates/{le.name}", lhs=shown, rhs="member -> returned, else raise")
    # the const decoder, read as the Python it is under every assignment of the template's conditions: with a value present that
    # differs from the constant every path ends in a raise - wherever the guard for an unset optional value is written, whatever
    # the polarity of the comparison
    ok, shown = _const_check_closed(ct, jx)
    rep.check(ok, "R14.3", "const_property::construct", "decoding a const does not, under every condition of the template, compare the "
              "value with the constant and raise when they differ", where=f"{PKG}/templates/{ct.name}", lhs=shown,
              rhs="required and optional alike: value present and != <const> -> raise")

    # ---- R14.4 values intact ---------------------------------------------------------------------------------------------
    rep.rule("R14.4", "member values are emitted in a string context with a single escaping (str) or as numbers; Literal members "
                      "through %r of the raw value")
    it, ji = ctx.flow
    n_v = 0
    per_class: dict[str, int] = {"str_enum.py.jinja": 0, "int_enum.py.jinja": 0}
    for e in ji.emissions.values():
        # the member value: second component of the loop over enum.values (canonical loop variable `ITER[*].1`)
        # (in the literal template every expression that reads the member set emits values, whatever it converts them with)
        if e.template in ("str_enum.py.jinja", "int_enum.py.jinja") and re.search(r"enum\.values[^ ]*?\[\*\]\.1\b", e.expr) or \
                (e.template == "literal_enum.py.jinja" and "enum.values" in e.expr):
            n_v += 1
            if e.template in per_class:
                per_class[e.template] += 1
            dbl = {l for l in e.labels if l.startswith("REPR_OF_ESC")}
            rep.check(not dbl, "R14.4", f"{e.template}::{e.expr}#{e.ordinal}@{e.kind}",
                      "an enum value is escaped twice on its way into the generated class: the member's wire value differs from the "
                      "document's", where=f"{PKG}/templates/{e.template}:{e.line}", lhs=sorted(e.labels), rhs="single escaping")
            if e.template == "str_enum.py.jinja" and not dbl:
                rep.check(e.kind.endswith('STR1"') and any(is_esc(l) for l in e.labels), "R14.4", f"{e.template}::{e.expr}::context",
                          "string enum value is not emitted as escaped text inside a \"...\" literal",
                          where=f"{PKG}/templates/{e.template}:{e.line}", lhs=[e.kind, sorted(e.labels)], rhs='ESC in STR1"')
    rep.floor("enum_value_emissions", n_v, 2)
    for tname, k in per_class.items():
        # every class template writes its members somewhere: when no emission of a member value is found for it the walk over the
        # template did not get there (a construct the interpreter does not follow), which is not the same as "nothing is wrong"
        rep.require(k > 0, f"an emission of the member values in {tname}")
    # Literal[...] arguments and the members of the VALUES set are Python source: the only conversion that writes every str / int as
    # a Python literal denoting the same value is repr (`"%r"|format(x)`); str() leaves strings unquoted and tojson writes JSON text
    # (other escapes: characters outside the BMP become surrogate pairs, which a Python literal does not recombine)
    from jinja2 import nodes as jn

    n_lit = 0
    for out in le.tree.find_all(jn.Output):
        for c in out.nodes:
            if isinstance(c, jn.TemplateData) or "enum.values" not in norm_j(c):
                continue
            n_lit += 1
            conv = _conversions(c)
            rep.check(conv == ["format:%r"], "R14.4", f"{le.name}::{norm_j(c)}::python-literal",
                      "a member value reaches the generated Literal / VALUES set through a conversion that does not produce the Python "
                      f"literal of the value: {conv or 'none (str())'}", where=f"{PKG}/templates/{le.name}:{c.lineno}", lhs=conv, rhs=["format:%r"])
    rep.floor("literal_value_outputs", n_lit, 1)
    _declared_values_not_extended(rep, ctx)
    _closed_members_of_unions(rep, jx)
    rep.not_decided.append("behaviour of Enum(value) itself (CPython)")
    return LEVEL


def _check_function_closed(le: Any) -> "tuple[bool, str | None]":
    from jinja2 import nodes as jn

    text = "".join(f_.text if f_.kind == "data" else (f_.node.value if isinstance(f_.node, jn.Const) and isinstance(f_.node.value, str) else "X")
                   for f_ in tplq.frags(le.tree.body))
    try:
        tree = ast.parse(text)
    except SyntaxError:
        return False, "generated module does not parse with placeholders: " + text.strip()[:80]
    fns = [n for n in tree.body if isinstance(n, ast.FunctionDef) and n.name.startswith("check_") and n.args.args]
    if len(fns) != 1:
        return False, f"{len(fns)} check_ functions"
    fn = fns[0]
    arg = fn.args.args[0].arg

    def ends(member: bool) -> list[SimPath]:
        def leaf(e: ast.expr, st: dict, sim: PathSim) -> "bool | None":
            if isinstance(e, ast.Compare) and len(e.ops) == 1 and isinstance(e.ops[0], (ast.In, ast.NotIn)) and isinstance(e.left, ast.Name) and \
                    e.left.id == arg:
                return member == isinstance(e.ops[0], ast.In)
            return None

        return PathSim(fn, leaf).paths()

    def returns_value(p: SimPath) -> bool:
        if not isinstance(p.end, ast.Return) or p.end.value is None:
            return False
        v = PathSim(fn).resolve(p.end.value, p.end_state)
        while isinstance(v, ast.Call) and call_name(v).rsplit(".", 1)[-1] == "cast" and len(v.args) == 2:
            v = v.args[1]
        return isinstance(v, ast.Name) and v.id == arg

    tests = [n for n in ast.walk(fn) if isinstance(n, ast.Compare) and isinstance(n.ops[0], (ast.In, ast.NotIn)) and isinstance(n.left, ast.Name)
             and n.left.id == arg]
    yes, no = ends(True), ends(False)
    ok = bool(tests) and bool(yes) and bool(no) and all(returns_value(p) for p in yes) and all(isinstance(p.end, ast.Raise) for p in no)
    return ok, ast.unparse(fn)[:160]


def _sym_text(text: str, names: dict[str, str]) -> str:
    """what a template expression writes, as far as it can be told: a name from `names` is its identifier, a string constant its
    text, a concatenation (+) of such the concatenation - `"str(" + source + ")"` writes str(SOURCE); anything else is X"""
    try:
        tree = ast.parse(text.strip(), mode="eval").body
    except SyntaxError:
        return "X"

    def go(e: ast.expr) -> "str | None":
        if isinstance(e, ast.Constant) and isinstance(e.value, str):
            return e.value
        if isinstance(e, (ast.Name, ast.Attribute)) and ast.unparse(e) in names:
            return names[ast.unparse(e)]
        if isinstance(e, ast.BinOp) and isinstance(e.op, ast.Add):
            a_, b_ = go(e.left), go(e.right)
            return None if a_ is None or b_ is None else a_ + b_
        return None

    return go(tree) or "X"


def _as_python(frs: list[Any], env: "dict[str, bool] | None", names: "dict[str, str] | None" = None) -> str:
    """the text a list of template fragments produces (under the assignment env of the template conditions, all of them when env is
    None), with every output expression replaced by what it writes as far as that is known (see _sym_text), X otherwise"""
    from jinja2 import nodes as jn

    out = []
    for f_ in frs:
        if env is not None and not tplq.guard_holds(f_, env):
            continue
        if f_.kind == "data":
            out.append(f_.text)
        elif isinstance(f_.node, jn.Const) and isinstance(f_.node.value, str):
            out.append(f_.node.value)
        else:
            out.append(_sym_text(f_.text, names or {}))
    return "".join(out)


def _roles(table: dict[str, str]) -> Any:
    """role function for c10.generated_variants: an expression whose text (parentheses of a canonical `set` name apart) is in the
    table reads as that placeholder"""
    def role(e: Any, text: str, at: int, tev: Any) -> "str | None":
        t = text.strip()
        while t.startswith("(") and t.endswith(")") and t[1:-1] in table:
            t = t[1:-1]
        return table.get(t)

    return role


def _present_value_decoded(ti: Any, jx: Any, callee_ok: Any) -> "tuple[bool, str | None]":
    """The decoder a closed-value template generates for a property (its `construct` macro, read as the Python it is under every
    valuation of the template conditions, macro calls followed): on every path on which the wire value is present - the tests that
    ask whether a value is the UNSET marker (isinstance(x, Unset), x is UNSET) answered "no", every other test free to go either way,
    since it depends on the value - the property's variable ends up bound to the decoding call (the template's construct_function
    macro, or what that macro writes: <Class>(..) / check_<name>(..)) applied to the wire value itself.  Whether the marker test is
    written first or last, positively or negatively, as a statement or as a conditional expression, in this template or in a
    shared macro is all the same; a test of the value's truthiness, type or anything else in front of the decoding call is not."""
    from jinja2 import nodes as jn
    import textwrap

    m = ti.macros.get("construct")
    if m is None:
        return False, "no construct macro"
    names = {"property.python_name": "VALUE", "source": "SOURCE", "property.class_info.name": "CLASS"}
    table = _roles(names)

    def role(e: Any, text: str, at: int, tev: Any) -> "str | None":
        if isinstance(e, jn.Call) and isinstance(e.node, jn.Name) and e.node.name == "construct_function" and e.node.name in ti.macros and \
                e.args and not e.kwargs:
            # the decoding macro, handed to a shared wrapper as an argument and called there: its argument in the caller's terms
            ps = [a.name for a in ti.macros[e.node.name].args]
            k = ps.index("source") if "source" in ps and ps.index("source") < len(e.args) else len(e.args) - 1
            return "DECODE(" + _sym_text(norm_j(e.args[k]), names) + ")"
        return table(e, text, at, tev)

    vs = generated_variants(m, ti, jx, role, limit=8)
    if not vs:
        return False, "construct macro depends on too many conditions"

    for env, body in vs:
        shown = ", ".join(f"{k}={v}" for k, v in env.items()) or "always"
        body = textwrap.dedent("\n".join(ln for ln in body.splitlines() if ln.strip()))
        text = "def f(SOURCE):\n" + "".join("    " + ln + "\n" for ln in body.splitlines()) + "    return VALUE\n"
        try:
            fn = ast.parse(text).body[0]
        except SyntaxError:
            return False, f"[{shown}] generated decoder does not parse: {' '.join(body.split())[:80]}"

        def is_source(e: ast.expr, st: dict, sim: PathSim) -> bool:
            e = _strip(sim.resolve(e, st))
            return isinstance(e, ast.Name) and e.id == "SOURCE"

        def leaf(e: ast.expr, st: dict, sim: PathSim) -> "bool | None":
            if isinstance(e, ast.Call) and call_name(e) == "isinstance" and len(e.args) == 2 and is_source(e.args[0], st, sim) and \
                    _class_names(e.args[1]) == ["Unset"]:
                return False
            if isinstance(e, ast.Compare) and len(e.ops) == 1 and isinstance(e.ops[0], (ast.Is, ast.IsNot)):
                a, b = e.left, e.comparators[0]
                for x, y in ((a, b), (b, a)):
                    if is_source(x, st, sim) and isinstance(y, ast.Name) and y.id == "UNSET":
                        return isinstance(e.ops[0], ast.IsNot)
            return None

        sim = PathSim(fn, leaf)
        paths = sim.paths()
        if not paths:
            return False, f"[{shown}] no path"
        for p_ in paths:
            v = sim.resolve(p_.end.value, p_.end_state) if isinstance(p_.end, ast.Return) and p_.end.value is not None else None
            ok = isinstance(v, ast.Call) and isinstance(v.func, ast.Name) and (v.func.id == "DECODE" or callee_ok(v.func.id)) and \
                len(v.args) == 1 and not v.keywords and is_source(v.args[0], p_.end_state, sim)
            if not ok:
                via = [norm(t)[:40] for t in p_.undecided()]
                return False, f"[{shown}] value present" + (f", after {via}" if via else "") + ": " + \
                    (f"<property> = {norm(v)[:50]}" if v is not None else norm(p_.end)[:50] if p_.end is not None else "?")
    return True, None


def _const_check_closed(ct: Any, jx: Any) -> "tuple[bool, str | None]":
    m = ct.macros.get("construct")
    vs = generated_variants(m, ct, jx, _roles({"property.python_name": "VALUE", "source": "SOURCE", "property.value.python_code": "CONST"}),
                            limit=8) if m is not None else None
    if not vs:
        return False, "construct macro missing or too many conditions"

    def subject(e: ast.expr) -> bool:
        e = _strip(e)
        return isinstance(e, ast.Name) and e.id in ("VALUE", "SOURCE")

    for env, body in vs:
        import textwrap

        body = textwrap.dedent("\n".join(ln for ln in body.splitlines() if ln.strip()))
        text = "def f():\n" + "".join("    " + ln + "\n" for ln in body.splitlines()) + "    pass\n"
        shown = ", ".join(f"{k}={v}" for k, v in env.items())
        try:
            fn = ast.parse(text).body[0]
        except SyntaxError:
            return False, f"[{shown}] generated decoder does not parse: {body.strip()[:80]}"
        compared = [False]

        def leaf(e: ast.expr, st: dict, sim: PathSim, compared: list = compared) -> "bool | None":
            if isinstance(e, ast.Compare) and len(e.ops) == 1:
                a, b, op = sim.resolve(e.left, st), sim.resolve(e.comparators[0], st), e.ops[0]
                for x, y in ((a, b), (b, a)):
                    if subject(x) and isinstance(y, ast.Name) and y.id == "CONST" and isinstance(op, (ast.Eq, ast.NotEq)):
                        compared[0] = True
                        return isinstance(op, ast.NotEq)
                if subject(a) and isinstance(op, (ast.In, ast.NotIn)) and isinstance(b, (ast.Tuple, ast.List, ast.Set)) and \
                        [n.id for n in b.elts if isinstance(n, ast.Name)] == ["CONST"] and len(b.elts) == 1:
                    compared[0] = True
                    return isinstance(op, ast.NotIn)
                # the value is present: not the UNSET marker
                if subject(a) and isinstance(op, (ast.Is, ast.IsNot)) and isinstance(b, ast.Name) and b.id == "UNSET":
                    return isinstance(op, ast.IsNot)
            if isinstance(e, ast.Call) and call_name(e) == "isinstance" and len(e.args) == 2 and subject(sim.resolve(e.args[0], st)) and \
                    _class_names(e.args[1]) == ["Unset"]:
                return False
            return None

        paths = PathSim(fn, leaf).paths()
        if not (paths and compared[0] and all(isinstance(p_.end, ast.Raise) for p_ in paths)):
            return False, f"[{shown}] " + " ".join(body.split())[:120]
    return True, None


def _member_uses(text: str) -> "set[str] | None":
    """how the Python text uses SOURCE (the member to encode): 'value' (reads .value), 'str' (str(SOURCE) / format(SOURCE)), 'other';
    tests whether it is there at all (isinstance / is) do not count.  None: the text does not parse"""
    try:
        tree = ast.parse("".join(ln + "\n" for ln in text.splitlines() if ln.strip()))
    except SyntaxError:
        try:
            import textwrap

            tree = ast.parse(textwrap.dedent(text))
        except SyntaxError:
            return None
    parent: dict[int, ast.AST] = {}
    for n in ast.walk(tree):
        for c in ast.iter_child_nodes(n):
            parent[id(c)] = n
    out: set[str] = set()
    for n in ast.walk(tree):
        if not (isinstance(n, ast.Name) and n.id == "SOURCE"):
            continue
        up = parent.get(id(n))
        if isinstance(up, ast.Attribute) and up.attr in ("value", "_value_"):
            out.add("value")
        elif isinstance(up, ast.Call) and call_name(up) in ("str", "format") and up.args == [n] and not up.keywords:
            out.add("str")
        elif isinstance(up, ast.FormattedValue) and up.format_spec is None:
            out.add("str")
        elif isinstance(up, ast.Call) and call_name(up) == "isinstance":
            continue
        elif isinstance(up, ast.Compare) and all(isinstance(o, (ast.Is, ast.IsNot)) for o in up.ops):
            continue
        else:
            out.add("other")
    return out


def _enum_encoders(rep: Report, jx: Any, et: Any) -> None:
    """every encoder of the enum property template (the macros that turn a member into what is sent: transform*) writes the member's
    `.value` - under every valuation of the template's conditions (required and optional property alike).  One that writes
    str(<member>) leaves the conversion to the generated class, so the class templates must define __str__ and return the value from it
    (str() of an Enum member is otherwise not its value); `transform` builds the JSON value, where str() of an integer member would not
    do: it needs `.value`"""
    n_enc = 0
    relies_on_str: list[str] = []
    for name in sorted(et.macros):
        if not name.startswith("transform"):
            continue
        vs = generated_variants(et.macros[name], et, jx, _roles({"source": "SOURCE", "destination": "DEST"}), limit=8)
        rep.require(vs is not None, f"an encoder `{name}` of the enum template that depends on at most 8 conditions")
        bad = []
        for env, text in vs or []:
            uses = _member_uses(text)
            if uses is None:
                flat = re.sub(r"\s", "", text)
                uses = ({"value"} if "SOURCE.value" in flat else set()) | ({"str"} if "str(SOURCE)" in flat else set())
                uses = uses or {"other"}
            if "str" in uses:
                relies_on_str.append(name)
            if "other" in uses or not uses or (name == "transform" and uses != {"value"}):
                bad.append((", ".join(f"{k}={v}" for k, v in env.items()) or "always") + ": " + " ".join(text.split())[:60])
        n_enc += 1
        if name == "transform":
            rep.check(not bad, "R14.3", "enum_property::transform", "encoding an enum no longer uses `.value`",
                      where=f"{PKG}/templates/{et.name}", lhs=bad[:2], rhs="<destination> = <source>.value, required and optional alike")
            continue
        rep.check(not bad, "R14.3", f"enum_property::{name}", "an encoder of the enum template writes neither the member's `.value` nor "
                  "str(<member>): what is sent is not the listed value", where=f"{PKG}/templates/{et.name}", lhs=bad, rhs=".value / str(member)")
    rep.floor("enum_encoders", n_enc, 1)
    # path parameters are written into the URL as they are (formatted by the generated code, no encoder macro in between): a member
    # that is a path parameter is converted by format() / str(), too
    em = jx.templates.get("endpoint_module.py.jinja")
    if em is not None and any(fr.kind == "expr" and "endpoint.path_parameters" in fr.loops and
                              fr.text.strip("()").endswith("endpoint.path_parameters[*].python_name") for fr in tplq.frags(em.tree.body)):
        relies_on_str.append("<url: path parameters formatted as they are>")
    for tname in ("str_enum.py.jinja", "int_enum.py.jinja"):
        ti = jx.templates.get(tname)
        rep.require(ti, tname)
        ok, shown = _str_is_value(ti, jx)
        rep.check(ok or not relies_on_str, "R14.3", f"{tname}::__str__", f"the encoders {sorted(set(relies_on_str))} send str(<member>), but the "
                  "generated enum class does not define __str__ to return the member's value: 'ClassName.MEMBER' is sent instead of the "
                  "listed value", where=f"{PKG}/templates/{tname}", lhs=shown, rhs="def __str__(self): return str(self.value)")


def _str_is_value(ti: Any, jx: Any) -> "tuple[bool, str | None]":
    """the generated class defines __str__ and every path of it returns the member's value (as text); the class is the module the
    template renders (the index holds a template that extends another one as the inherited layout with its blocks filled in)"""
    text = _as_python(list(tplq.frags(ti.tree.body)), None)
    try:
        tree = ast.parse(text)
    except SyntaxError:
        return False, "generated module does not parse with placeholders"
    classes = [n for n in tree.body if isinstance(n, ast.ClassDef)]
    if len(classes) != 1:
        return False, f"{len(classes)} classes"
    fns = [n for n in classes[0].body if isinstance(n, ast.FunctionDef) and n.name == "__str__" and n.args.args]
    if len(fns) != 1:
        return False, "no __str__"
    me = fns[0].args.args[0].arg

    def is_value(e: "ast.expr | None") -> bool:
        if isinstance(e, ast.Call) and call_name(e) in ("str", "format") and len(e.args) == 1 and not e.keywords:
            return is_value(e.args[0])
        if isinstance(e, ast.JoinedStr) and len(e.values) == 1 and isinstance(e.values[0], ast.FormattedValue) and e.values[0].format_spec is None:
            return is_value(e.values[0].value)
        return isinstance(e, ast.Attribute) and e.attr in ("value", "_value_") and isinstance(e.value, ast.Name) and e.value.id == me

    paths = PathSim(fns[0]).paths()
    ok = bool(paths) and all(isinstance(p_.end, ast.Return) and is_value(PathSim(fns[0]).resolve(p_.end.value, p_.end_state) if p_.end.value is not None else None)
                             for p_ in paths)
    return ok, ast.unparse(fns[0])[:100]


# =====================================================================================================================
# R14.6: a closed member of a union stays closed
# =====================================================================================================================
CLOSED_TEMPLATES = ("const_property.py.jinja", "enum_property.py.jinja", "literal_enum_property.py.jinja")


def _closed_members_of_unions(rep: Report, jx: Any) -> None:
    """An enum or a const that is a member of a union (a nullable enum is one) is decoded by the union's decoder, which writes the
    member's own decoder into its body.  The member's decoder rejects an unlisted value by raising (R14.3); that is worth nothing
    when the union wraps it in a handler that discards the exception and then hands the value back as it came (the pass-through
    return for the members that need no decoding - null, string, number ...).  Read on the code the union's construct macro
    generates (c10.generated_variants: once per valuation of the template conditions, macro calls and call blocks followed, `set`
    variables read as their definitions - however the template is cut into pieces), per member template with the template's own
    fact "has a check_type_for_construct macro": in the generated decoder function the member's construct must not sit in a `try`
    whose handlers do not all re-raise when a return of the undecoded argument follows that `try`."""
    from jinja2 import nodes as jn

    rep.rule("R14.6", "for the templates that decode a closed set of values (const, enum, literal enum): with the template's own fact "
                      "(has check_type_for_construct or not) the union decoder never writes the member's construct inside a try whose "
                      "handlers discard the exception when the pass-through return of the undecoded value follows - an unlisted value "
                      "would be handed back as it came instead of being rejected")
    ut = jx.templates.get("property_templates/union_property.py.jinja")
    cm = ut.macros.get("construct") if ut is not None else None
    rep.require(cm, "union construct macro")

    def role(e: Any, text: str, at: int, tev: Any) -> "str | None":
        n = e
        while isinstance(n, jn.Filter) and n.node is not None:
            n = n.node
        if isinstance(n, jn.Call) and isinstance(n.node, (jn.Getattr, jn.Getitem)) and \
                (n.node.attr if isinstance(n.node, jn.Getattr) else getattr(n.node.arg, "value", None)) == "construct":
            return "MEMBER_CONSTRUCT"
        return None

    vs = generated_variants(cm, ut, jx, role, limit=10)
    rep.require(vs, "a union construct macro that depends on at most 10 conditions")
    rep.require(any("MEMBER_CONSTRUCT" in text for _, text in vs), "call of the member template's construct macro in the union decoder")
    fact = re.compile(r"(\.check_type_for_construct|\[['\"]check_type_for_construct['\"]\])$")
    check_atoms = sorted({a for env, _ in vs for a in env if fact.search(a)})

    def swallowed_then_passed(text: str) -> bool:
        import textwrap

        try:
            tree = ast.parse(textwrap.dedent("\n".join(ln for ln in text.splitlines() if ln.strip())))
        except SyntaxError:
            raise _Unparsed(" ".join(text.split())[:100])
        for fn in [n for n in ast.walk(tree) if isinstance(n, ast.FunctionDef) and n.args.args]:
            arg = fn.args.args[0].arg
            passes = []
            for r in ast.walk(fn):
                if isinstance(r, ast.Return) and r.value is not None:
                    v = r.value
                    while isinstance(v, ast.Call) and call_name(v).rsplit(".", 1)[-1] == "cast" and len(v.args) == 2:
                        v = v.args[1]
                    if isinstance(v, ast.Name) and v.id == arg:
                        passes.append(r)
            for tr in [n for n in ast.walk(fn) if isinstance(n, ast.Try)]:
                if not any(isinstance(n, ast.Name) and n.id == "MEMBER_CONSTRUCT" for st in tr.body for n in ast.walk(st)):
                    continue
                discards = False
                for h in tr.handlers:
                    ends = PathSim(ast.FunctionDef(name="h", body=h.body, args=fn.args, decorator_list=[], lineno=1, col_offset=0)).paths()  # type: ignore[call-overload]
                    discards = discards or any(not isinstance(p_.end, ast.Raise) for p_ in ends)
                if discards and any(r.lineno > (tr.end_lineno or tr.lineno) for r in passes):
                    return True
        return False

    n_tpl = 0
    for short_name in CLOSED_TEMPLATES:
        t = jx.templates.get(f"property_templates/{short_name}")
        if t is None or "construct" not in t.macros:
            continue
        n_tpl += 1
        checked = "check_type_for_construct" in t.macros
        bad_env = None
        try:
            for env, text in vs:
                if any(env[a] != checked for a in check_atoms) or "MEMBER_CONSTRUCT" not in text:
                    continue
                if swallowed_then_passed(text):
                    bad_env = {k: v for k, v in env.items() if k not in check_atoms and v}
                    break
        except _Unparsed as ex:
            rep.require(False, f"a generated union decoder that reads as Python ({ex})")
        rep.check(bad_env is None, "R14.6", f"union_property.py.jinja::construct::member[{short_name}]::rejection-kept",
                  f"a union member rendered by {short_name} ({'with' if checked else 'without'} check_type_for_construct) gets its construct "
                  "inside a try whose handler discards the exception, and the union's pass-through return of the undecoded value follows: a "
                  "value the member rejects is returned as it came - a nullable enum / const accepts every value",
                  where=f"{PKG}/templates/{ut.name}", lhs={"check_type_for_construct": checked, "when": sorted(bad_env or {})},
                  rhs="the member's rejection leaves the decoder, or nothing is passed through unchecked")
    rep.floor("closed_member_templates", n_tpl, 3)


class _Unparsed(Exception):
    pass


# =====================================================================================================================
# R14.5: nobody adds to the declared values
# =====================================================================================================================
_SELECTING = {"cast", "typing.cast", "list", "tuple", "sorted", "set", "frozenset", "reversed", "filter", "copy", "deepcopy", "copy.copy",
              "copy.deepcopy"}
ENUM_FIELD = "enum"


def _declared_values_not_extended(rep: Report, ctx: Any) -> None:
    rep.rule("R14.5", "the list of declared values is never added to: every write to the `enum` field of a document schema - an "
                      "assignment to <schema>.enum, the `enum` entry of a model_copy(update=...) / evolve, an in-place append / extend / "
                      "insert / += on it - stores None or a selection of the values that were there (the list itself, a filter over it; "
                      "a parameter of a private helper is what its callers hand over).  What the builders admit is what the document lists")
    ix = ctx.py
    schema_classes = {c.name for c in ix.classes.values() if ENUM_FIELD in ix.all_fields(c) and
                      (c.module.name == f"{PKG}.schema" or c.module.name.startswith(f"{PKG}.schema."))}
    rep.require(schema_classes, f"a class of the document model with a field `{ENUM_FIELD}`")

    def of_schema(f: Any, recv: ast.AST) -> bool:
        known = receiver_classes(ix, f, recv)
        return not known or bool(known & schema_classes)

    def selection(f: Any, e: "ast.AST | None", busy: frozenset = frozenset(), depth: int = 2) -> bool:
        if e is None:
            return False
        if isinstance(e, ast.Constant):
            return e.value is None
        if isinstance(e, ast.Attribute):
            return e.attr == ENUM_FIELD
        if isinstance(e, ast.BoolOp):
            return all(selection(f, v, busy, depth) or (isinstance(v, (ast.List, ast.Tuple)) and not v.elts) for v in e.values)
        if isinstance(e, ast.IfExp):
            return selection(f, e.body, busy, depth) and selection(f, e.orelse, busy, depth)
        if isinstance(e, ast.Subscript):
            return isinstance(e.slice, ast.Slice) and selection(f, e.value, busy, depth)
        if isinstance(e, (ast.List, ast.Tuple)):
            return not e.elts or (len(e.elts) == 1 and isinstance(e.elts[0], ast.Starred) and selection(f, e.elts[0].value, busy, depth))
        if isinstance(e, (ast.ListComp, ast.GeneratorExp, ast.SetComp)):
            g = e.generators
            return len(g) == 1 and isinstance(g[0].target, ast.Name) and isinstance(e.elt, ast.Name) and e.elt.id == g[0].target.id and \
                selection(f, g[0].iter, busy, depth)
        if isinstance(e, ast.Call):
            cn = call_name(e)
            if cn in _SELECTING and e.args and not e.keywords:
                return selection(f, e.args[-1], busy, depth)
            last = cn.rsplit(".", 1)[-1]
            if last.startswith("_") and not last.startswith("__") and depth > 0:
                # a private helper of the same module / class: a selection when everything it returns is one (its parameters are what
                # its callers hand over)
                hs = [g for g in region(ix, f, depth=1) if g is not f and g.name == last]
                rets = [r.value for g in hs for r in _own_nodes(g.node) if isinstance(r, ast.Return)]
                return len(hs) == 1 and bool(rets) and all(selection(hs[0], r, frozenset(), depth) for r in rets)
            return False
        if isinstance(e, ast.Name):
            if e.id in busy:
                return True
            ds = _locals(f.node).defs.get(e.id, [])
            if e.id in {x.arg for x in f.params}:
                # what a private helper is handed: every call site hands over a selection
                if ds or depth <= 0 or not f.name.startswith("_"):
                    return False
                sites = callers_of(ix, f)
                return bool(sites) and all(e.id in _bind_full(f, c) and selection(g, _bind_full(f, c)[e.id], frozenset(), depth - 1)
                                           for g, c in sites)
            return bool(ds) and all(k.startswith(("assign", "for")) and v is not None and
                                    (selection(f, v, busy | {e.id}, depth) if k == "assign" else False) for k, _, v in ds)
        return False

    n = 0
    for f in ix.all_functions:
        lnames = local_names(f.node)
        for node in _own_nodes(f.node):
            writes: list[tuple[ast.AST, "ast.AST | None", str]] = []
            if isinstance(node, (ast.Assign, ast.AnnAssign)) and node.value is not None:
                for t in (node.targets if isinstance(node, ast.Assign) else [node.target]):
                    if isinstance(t, ast.Attribute) and t.attr == ENUM_FIELD and of_schema(f, t.value):
                        writes.append((node, node.value, "="))
            elif isinstance(node, ast.AugAssign) and isinstance(node.target, ast.Attribute) and node.target.attr == ENUM_FIELD and \
                    of_schema(f, node.target.value):
                writes.append((node, None, "+="))
            elif isinstance(node, ast.Call) and isinstance(node.func, ast.Attribute):
                recv = node.func.value
                if node.func.attr in ("append", "extend", "insert", "add", "update") and isinstance(recv, ast.Attribute) and \
                        recv.attr == ENUM_FIELD and of_schema(f, recv.value):
                    writes.append((node, None, node.func.attr))
                if node.func.attr in ("model_copy", "copy") and of_schema(f, recv):
                    for k in node.keywords:
                        if k.arg == "update" and isinstance(k.value, ast.Dict):
                            for dk, dv in zip(k.value.keys, k.value.values):
                                if isinstance(dk, ast.Constant) and dk.value == ENUM_FIELD:
                                    writes.append((node, dv, "update"))
            if isinstance(node, ast.Call) and call_name(node).rsplit(".", 1)[-1] in ("evolve", "replace") and node.args and \
                    of_schema(f, node.args[0]) and receiver_classes(ix, f, node.args[0]) & schema_classes:
                for k in node.keywords:
                    if k.arg == ENUM_FIELD:
                        writes.append((node, k.value, "evolve"))
            for at, value, how in writes:
                n += 1
                ok = value is not None and selection(f, value)
                rep.check(ok, "R14.5", f"{short(f)}::{ENUM_FIELD} {how} {anon(value, lnames) if value is not None else '...'}",
                          "the list of declared values of a schema is written with something that is not a selection of the values it "
                          "had: a value the document does not list can become a member (or turn the property nullable)",
                          where(f, at), lhs=norm(at)[:80], rhs="None / the old list / a filter over it")
    rep.floor("declared_value_writes", n, 2)


def norm_j(n: Any) -> str:
    from ..jinja_interp import expr_text

    return expr_text(n)


# filters that select / order / collect elements without touching their text
_STRUCTURAL = {"list", "sort", "unique", "reverse", "dictsort", "items", "batch", "slice", "select", "reject", "first", "last", "join", "trim",
               "indent", "safe"}


def _conversions(n: Any) -> list[str]:
    """the conversions applied to the member values on their way from `enum.values` to the output, outermost first"""
    from jinja2 import nodes as jn

    def reads(x: Any) -> bool:
        return x is not None and "enum.values" in norm_j(x)

    out: list[str] = []
    while True:
        if isinstance(n, jn.Filter):
            if n.name == "format" and isinstance(n.node, jn.Const) and isinstance(n.node.value, str) and any(reads(a) for a in n.args):
                specs = set(re.findall(r"%[^%]", n.node.value))
                out.append("format:" + "".join(sorted(specs)))
                n = next(a for a in n.args if reads(a))
                continue
            if reads(n.node):
                if n.name == "map":
                    out.append("map:" + ",".join(norm_j(a).strip("'") for a in n.args) + "".join(f",{k.key}={norm_j(k.value)}" for k in n.kwargs))
                elif n.name not in _STRUCTURAL:
                    out.append(n.name)
                n = n.node
                continue
            out.append(f"{n.name}(<values as argument>)")
            return out
        if isinstance(n, (jn.Name, jn.Getattr, jn.Getitem)):
            return out
        out.append(type(n).__name__)
        return out


# =====================================================================================================================
# R14.2: the member table of EnumProperty.values_from_list
# =====================================================================================================================
# Roles, never spellings: the *table* is the local that starts as an empty dict and is returned; a *store* puts a member into it
# (`t[K] = V`, t.setdefault(K, V), t.update({K: V})); a *duplicate test* asks whether a key is in the table (`K in t`, t.get(K));
# the function's decisions are simulated (PathSim) under two scenarios - the member is an int / is not - times the outcome of the
# duplicate test, so that early `continue` versus `else`, merged or split stores, keys held in locals or written as conditional
# expressions all read alike.

def _parts(e: ast.expr) -> "list[Any] | None":
    """a string-building expression as a sequence of constant texts and holes (the expressions converted with str()):
    f-strings, `+` chains, "...%d" % x, "...{}".format(x); None: not of this kind"""
    if isinstance(e, ast.Constant) and isinstance(e.value, str):
        return [e.value]
    if isinstance(e, ast.JoinedStr):
        out: list[Any] = []
        for v in e.values:
            if isinstance(v, ast.Constant) and isinstance(v.value, str):
                out.append(v.value)
            elif isinstance(v, ast.FormattedValue) and v.format_spec is None and v.conversion in (-1, 115, 114):
                out.append(v.value)
            else:
                return None
        return out
    if isinstance(e, ast.BinOp) and isinstance(e.op, ast.Add):
        a, b = _parts(e.left), _parts(e.right)
        return None if a is None or b is None else a + b
    if isinstance(e, ast.Call) and call_name(e) in ("str", "repr") and len(e.args) == 1 and not e.keywords:
        return [e.args[0]]
    fmt = args = None
    if isinstance(e, ast.BinOp) and isinstance(e.op, ast.Mod) and isinstance(e.left, ast.Constant) and isinstance(e.left.value, str):
        fmt, args = re.split(r"%[dis]", e.left.value), (list(e.right.elts) if isinstance(e.right, ast.Tuple) else [e.right])
        if "%" in "".join(fmt):
            return None
    elif isinstance(e, ast.Call) and isinstance(e.func, ast.Attribute) and e.func.attr == "format" and not e.keywords and \
            isinstance(e.func.value, ast.Constant) and isinstance(e.func.value.value, str):
        fmt, args = e.func.value.value.split("{}"), list(e.args)
        if "{" in "".join(fmt) or "}" in "".join(fmt):
            return None
    if fmt is not None and args is not None and len(fmt) == len(args) + 1:
        out = [fmt[0]]
        for a_, t in zip(args, fmt[1:]):
            out += [a_, t]
        return out
    return None


def _int_name_form(e: ast.expr) -> "tuple[str, int, str, ast.expr] | None":
    """(prefix, sign, suffix, x) when e builds the text  prefix + str(x) + suffix  or  prefix + str(-x) + suffix : an injective
    function of the integer x"""
    ps = _parts(e)
    if ps is None:
        return None
    holes = [x for x in ps if not isinstance(x, str)]
    if len(holes) != 1:
        return None
    k = next(i for i, x in enumerate(ps) if not isinstance(x, str))
    h, sign = holes[0], 1
    while isinstance(h, ast.UnaryOp) and isinstance(h.op, (ast.USub, ast.UAdd)):
        sign, h = (-sign if isinstance(h.op, ast.USub) else sign), h.operand
    return ("".join(ps[:k]), sign, "".join(ps[k + 1:]), h)


def _names_disjoint(a: tuple[str, int, str], b: tuple[str, int, str]) -> bool:
    """two injective name forms never give the same name to different integers"""
    if a == b:
        return True
    (p1, _, s1), (p2, _, s2) = a, b
    if not (p1.startswith(p2) or p2.startswith(p1)):
        return True
    if p1 == p2 or s1 or s2:
        return False
    rest = p1[len(p2):] or p2[len(p1):]
    return re.fullmatch(r"-?\d*", rest) is None  # `rest + digits` is never the text of an integer


def _member_names(rep: Report, ctx: Any) -> None:
    rep.rule("R14.2", "in values_from_list every store of a member is, on every path, either preceded by a duplicate test on the very "
                      "key that is stored, or stores an integer member under a name that is an injective function of the integer "
                      "(constant text around str(x) or str(-x), forms pairwise disjoint); a duplicate that is found ends in a "
                      "diagnostic before anything is stored")
    ix = ctx.py
    f = ix.func("EnumProperty.values_from_list")
    fn = inline_tail_calls(ix, f)
    lnames = local_names(fn)
    lc = Locals(fn)
    errs = error_names(fn)
    helpers = {h.name: h for h in region(ix, f)[1:]}
    empty = {nm for nm, ds in lc.defs.items() if any(k == "assign" and v is not None and norm(v) in ("{}", "dict()") for k, _, v in ds)}
    returned = {r.value.id for r in ast.walk(fn) if isinstance(r, ast.Return) and isinstance(r.value, ast.Name)} & empty
    rep.require(len(returned) == 1, "the returned member table of values_from_list")
    table = next(iter(returned))

    def is_table(e: ast.expr) -> bool:
        e = _strip(e)
        if isinstance(e, ast.Call) and isinstance(e.func, ast.Attribute) and e.func.attr == "keys" and not e.args:
            e = e.func.value
        return isinstance(e, ast.Name) and e.id == table

    def stores_of(s: ast.AST) -> list[tuple[ast.expr, ast.expr]]:
        out = []
        for n in walk_own(s):
            if isinstance(n, (ast.Assign, ast.AnnAssign)) and n.value is not None:
                for t in (n.targets if isinstance(n, ast.Assign) else [n.target]):
                    if isinstance(t, ast.Subscript) and is_table(t.value):
                        out.append((t.slice, n.value))
            elif isinstance(n, ast.Call) and isinstance(n.func, ast.Attribute) and is_table(n.func.value):
                if n.func.attr == "setdefault" and len(n.args) == 2:
                    out.append((n.args[0], n.args[1]))
                elif n.func.attr == "update" and len(n.args) == 1 and isinstance(n.args[0], ast.Dict):
                    out += [(k, v) for k, v in zip(n.args[0].keys, n.args[0].values) if k is not None]
            elif isinstance(n, ast.AugAssign) and isinstance(n.op, ast.BitOr) and is_table(n.target) and isinstance(n.value, ast.Dict):
                out += [(k, v) for k, v in zip(n.value.keys, n.value.values) if k is not None]
        return out

    def tests_of(e: ast.AST) -> list[ast.expr]:
        """keys whose presence in the table the expression asks for"""
        out = []
        for n in ast.walk(e):
            if isinstance(n, ast.Compare) and len(n.ops) == 1 and isinstance(n.ops[0], (ast.In, ast.NotIn)) and is_table(n.comparators[0]):
                out.append(n.left)
            elif isinstance(n, ast.Call) and isinstance(n.func, ast.Attribute) and n.func.attr == "get" and n.args and is_table(n.func.value):
                out.append(n.args[0])
        return out

    def typed(e: ast.expr) -> "tuple[ast.expr, bool] | None":
        """(x, True) for `x is an int`, (x, False) for `x is a str` (the members are one or the other)"""
        if isinstance(e, ast.Call) and call_name(e) == "isinstance" and len(e.args) == 2:
            kinds = set(_class_names(e.args[1]))
            if kinds and kinds <= {"int", "bool"} and "int" in kinds:
                return (e.args[0], True)
            if kinds == {"str"}:
                return (e.args[0], False)
        if isinstance(e, ast.Compare) and len(e.ops) == 1 and isinstance(e.ops[0], (ast.Is, ast.IsNot, ast.Eq, ast.NotEq)) and \
                isinstance(e.left, ast.Call) and call_name(e.left) == "type" and len(e.left.args) == 1 and norm(e.comparators[0]) in ("int", "str"):
            pos = isinstance(e.ops[0], (ast.Is, ast.Eq))
            return (e.left.args[0], (norm(e.comparators[0]) == "int") == pos)
        return None

    def rtext(e: ast.AST, st: dict, depth: int = 0) -> str:
        """the expression with its locals replaced by what they are bound to on this path"""
        import copy

        class R(ast.NodeTransformer):
            def visit_Name(self, n: ast.Name) -> ast.AST:
                v = st.get(("v", n.id))
                if isinstance(n.ctx, ast.Load) and v is not None and depth < 4 and not (isinstance(v, ast.Name) and v.id == n.id):
                    return ast.parse(rtext(v, st, depth + 1), mode="eval").body
                return n

        return norm(R().visit(copy.deepcopy(e)))

    def forms(e: ast.expr, st: dict, sim: PathSim, depth: int = 0) -> list[ast.expr]:
        """the expressions a key can stand for on this path: locals resolved, both arms of an undecided conditional expression,
        the returned expressions of a private helper without locals of its own (parameters replaced by the arguments)"""
        e = sim.resolve(e, st)
        if isinstance(e, ast.IfExp):
            return forms(e.body, st, sim, depth) + forms(e.orelse, st, sim, depth)
        if isinstance(e, ast.Call) and depth < 2 and not e.keywords:
            h = helpers.get(call_name(e).rsplit(".", 1)[-1])
            if h is not None and not local_names(h.node) and not h.node.args.vararg and not h.node.args.kwarg:
                ps = [p.arg for p in h.params if p.arg not in ("self", "cls")]
                rets = [r.value for r in ast.walk(h.node) if isinstance(r, ast.Return) and r.value is not None]
                if len(ps) == len(e.args) and rets:
                    import copy

                    class S(ast.NodeTransformer):
                        def visit_Name(self, n: ast.Name) -> ast.AST:
                            return copy.deepcopy(e.args[ps.index(n.id)]) if n.id in ps else n  # type: ignore[union-attr]

                    return [x for r in rets for x in forms(S().visit(copy.deepcopy(r)), st, sim, depth + 1)]
        return [e]

    # per store statement: what happened on the paths that reach it
    seen: dict[int, dict[str, Any]] = {}
    int_forms: dict[tuple[str, int, str], ast.AST] = {}
    undiagnosed: list[ast.AST] = []
    n_tests = 0
    roles: set[tuple[int, bool]] = set()
    for is_int in (True, False):
        for dup in (False, True):
            def leaf(e: ast.expr, st: dict, sim: PathSim, is_int: bool = is_int, dup: bool = dup) -> "bool | None":
                t = typed(e)
                if t is not None and names_of(t[0]) & lnames:
                    return is_int == t[1]
                if isinstance(e, ast.Compare) and len(e.ops) == 1 and isinstance(e.ops[0], (ast.In, ast.NotIn)) and is_table(e.comparators[0]):
                    return dup == isinstance(e.ops[0], ast.In)
                return None

            def none_of(e: ast.expr, st: dict, sim: PathSim, dup: bool = dup) -> "bool | None":
                if isinstance(e, ast.Call) and isinstance(e.func, ast.Attribute) and e.func.attr == "get" and len(e.args) == 1 and is_table(e.func.value):
                    return not dup
                return None

            sim = PathSim(fn, leaf, none_of)
            for p in sim.paths():
                asked: list[tuple[ast.expr, dict]] = []     # duplicate tests evaluated so far: (key, state)
                ints: set[str] = set()                       # what has been tested to be an int on this path
                for ev in p.events:
                    for n in ast.walk(ev.node):
                        t = typed(n) if isinstance(n, ast.expr) else None
                        if t is not None and is_int:
                            ints.add(rtext(t[0], ev.state))   # whatever is asked for its type on this path is the (integer) member
                    if ev.kind == "stmt":
                        for key, val in stores_of(ev.node):
                            d = seen.setdefault(id(ev.node), {"node": ev.node, "key": key, "int": [], "str": []})
                            roles.add((id(ev.node), is_int))
                            same = any(rtext(k, st_) == rtext(key, ev.state) for k, st_ in asked)
                            inj = False
                            if is_int:
                                fs = [_int_name_form(x) for x in forms(key, ev.state, sim)]
                                inj = bool(fs) and all(x is not None and rtext(x[3], ev.state) in ints for x in fs) and rtext(val, ev.state) in ints
                                if inj:
                                    for x in fs:
                                        int_forms.setdefault(x[:3], ev.node)  # type: ignore[index]
                            d["int" if is_int else "str"].append((inj, bool(asked), same))
                            if dup and asked:
                                undiagnosed.append(ev.node)   # stored although a duplicate was found
                    asked += [(k, ev.state) for k in tests_of(ev.node)]
                if asked:
                    n_tests += 1
                    if dup and not (isinstance(p.end, ast.Raise) or (p.end is not None and returns_error(p.end, errs))):
                        undiagnosed.append(p.end if p.end is not None else fn)
    rep.floor("member_stores", len(roles), 1)
    rep.require(any(d["str"] for d in seen.values()), "a store of a string member into the member table of values_from_list")
    rep.require(n_tests, "a duplicate test on the member table of values_from_list")
    for d in seen.values():
        ckey = f"{short(f)}::<local dict>[{anon(d['key'], lnames)}]"
        if d["int"]:
            bad = [x for x in d["int"] if not (x[0] or (x[1] and x[2]))]
            rep.check(not bad, "R14.2", ckey + "::int-member",
                      "an integer member is stored under a name that is neither an injective function of the integer nor checked for "
                      "duplicates", where(f, d["node"]), lhs=norm(d["node"])[:70], rhs="prefix + str(+-x), or dominated by a duplicate test")
        if d["str"]:
            rep.check(all(x[1] for x in d["str"]), "R14.2", ckey + "::dominated", "a member name is stored on a path that skips the duplicate test",
                      where(f, d["node"]), lhs=norm(d["node"])[:70], rhs="dominated by `if <key> in output`")
            rep.check(all(x[2] for x in d["str"] if x[1]), "R14.2", ckey + "::same-key",
                      f"the duplicate test does not ask for the key that is stored (`{norm(d['key'])}`): names that only coincide after "
                      "sanitising are merged silently", where(f, d["node"]), lhs=norm(d["key"]), rhs="the tested key")
    fl = sorted(int_forms)
    clash = [(a, b) for i_, a in enumerate(fl) for b in fl[i_ + 1:] if not _names_disjoint(a, b)]
    rep.check(not clash, "R14.2", f"{short(f)}::int-names-disjoint", "two naming schemes of integer members can give the same name to different "
              f"integers: {clash[:1]}", where(f, fn), lhs=[x[0] for x in fl], rhs="pairwise disjoint")
    rep.check(not undiagnosed, "R14.2", f"{short(f)}::duplicate-test-diagnosed", "a detected duplicate is not reported (the path goes on to "
              "store the member, or ends without a diagnostic)", where(f, undiagnosed[0] if undiagnosed else fn),
              lhs=[norm(x)[:60] for x in undiagnosed[:2]], rhs="raise / error return")


def names_of(e: ast.AST) -> set[str]:
    return {n.id for n in ast.walk(e) if isinstance(n, ast.Name)}
