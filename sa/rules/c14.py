"""C14 - enumerations and constants admit exactly the declared values."""
from __future__ import annotations

import ast
import re
from typing import Any

from .. import tplq
from ..astutil import cfg_of, norm, short, where
from ..cfg import CFG
from ..core import PKG, Report
from ..domain import is_esc
from .registries import REGISTRIES, _membership_tests, _registry_stores
from .siblings import enum_builder_parity, enum_merge_parity

LEVEL = ("structural clauses: semantic facts of each enum builder and of each enum merge function, checked per sibling by simulating "
         "its control flow under scenarios (null extraction by identity, only-null -> NoneProperty, single supported value type, null "
         "member -> nullable union, members from the null-free list, a taken class name reused only by the same class with the same "
         "member table, default converted before registration; subset merge in both directions, value-type compatibility); "
         "member-name stores dominated by a duplicate test on the same key; closed decode (enum construct calls the class, the "
         "literal check function tests membership and its fall-through raises, const construct compares and raises), encode is "
         ".value / identity; member values reach the class through a string context with a single escaping (label analysis of the "
         "emission site), Literal members through repr only.")


def run(rep: Report, ctx: Any) -> str:
    ix = ctx.py
    jx = ctx.jinja
    enum_builder_parity(rep, ctx, "R14.1")
    enum_merge_parity(rep, ctx, "R14.1m")

    # ---- R14.2 member names unique or reported ---------------------------------------------------------------------
    rep.rule("R14.2", "in values_from_list every member-name store is dominated by a duplicate test, and the tested key is the "
                      "stored key")
    f = ix.func("EnumProperty.values_from_list")
    cfg = CFG(f.node)
    # the member table (any spelling) is the local dict the function returns
    from ..astutil import anon, local_names
    from .registries import FROZEN, local_registries, registry_label

    locs = local_registries(f)
    returned = {norm(r.value) for r in ast.walk(f.node) if isinstance(r, ast.Return) and r.value is not None} & set(locs)
    rep.require(len(returned) == 1, "the returned member table of values_from_list")
    table = next(iter(returned))
    stores = [s for s in _registry_stores(f, {table})]
    tests = _membership_tests(f, table)
    rep.floor("member_stores", len(stores), 2)
    lnames = local_names(f.node)

    for st, reg, key, kind in stores:
        ckey = f"{short(f)}::{registry_label(reg, locs)}[{anon(key, lnames)}]"
        if ckey in FROZEN:
            rep.ok("R14.2", ckey, "frozen", FROZEN[ckey], nontrivial=False)
            continue
        dom = [t for t, k in tests if cfg.is_dominated_by(st, lambda n, t=t: n is t)]
        rep.check(bool(dom), "R14.2", ckey + "::dominated", "a member name is stored on a path that skips the duplicate test",
                  where(f, st), lhs=norm(st)[:70], rhs="dominated by `if <key> in output`")
        same = [k for t, k in tests if k == norm(key)]
        rep.check(bool(same), "R14.2", ckey + "::same-key",
                  f"the duplicate test uses {sorted({k for _, k in tests})} but the store uses `{norm(key)}`: names that only "
                  "coincide after sanitising are merged silently", where(f, st), lhs=sorted({k for _, k in tests}), rhs=norm(key))
    # the duplicate test leads to a diagnostic (raise or error return)
    for t, k in tests:
        reach = cfg.reachable_from(t, avoid=lambda n: any(n is s for s, *_ in stores))
        rep.check(any(isinstance(n, (ast.Raise,)) or (isinstance(n, ast.Return) and "Error" in norm(n)) for n in reach if isinstance(n, ast.stmt)),
                  "R14.2", f"{short(f)}::duplicate-test-diagnosed", "a detected duplicate is not reported", where(f, t))

    # ---- R14.3 closed decode -----------------------------------------------------------------------------------------
    rep.rule("R14.3", "decode is closed: Enum(value) / check_<name>(value) with membership test and raising fall-through / const "
                      "comparison that raises; encode is .value or identity")
    et = jx.templates.get("property_templates/enum_property.py.jinja")
    lt = jx.templates.get("property_templates/literal_enum_property.py.jinja")
    ct = jx.templates.get("property_templates/const_property.py.jinja")
    le = jx.templates.get("literal_enum.py.jinja")
    rep.require(et and lt and ct and le, "enum / const templates")
    cf = tplq.macro_frags(et, "construct_function")
    txt = "".join(f_.text if f_.kind == "data" else "{" + f_.text + "}" for f_ in cf)
    rep.check(bool(re.fullmatch(r"\s*\{property\.class_info\.name\}\(\{source\}\)\s*", txt)), "R14.3", "enum_property::construct_function",
              "decoding an enum no longer calls the enum class on the wire value", where=f"{PKG}/templates/{et.name}", lhs=txt.strip(),
              rhs="<Class>(<source>)")
    tr = "".join(f_.text for f_ in tplq.macro_frags(et, "transform") if f_.kind == "data")
    sets = [expr for expr in (n for n in et.macros["transform"].find_all(__import__("jinja2").nodes.Assign))]
    ok = any("'.value'" in norm_j(a.node) or ".value" in norm_j(a.node) for a in sets)
    rep.check(ok, "R14.3", "enum_property::transform", "encoding an enum no longer uses `.value`", where=f"{PKG}/templates/{et.name}",
              lhs=[norm_j(a.node) for a in sets][:2], rhs="source + '.value'")
    cf2 = tplq.macro_frags(lt, "construct_function")
    txt2 = "".join(f_.text if f_.kind == "data" else "{" + f_.text + "}" for f_ in cf2)
    rep.check("check_{" in txt2 and "({source})" in txt2, "R14.3", "literal_enum_property::construct_function",
              "decoding a literal enum no longer goes through its check_ function", where=f"{PKG}/templates/{lt.name}", lhs=txt2.strip(),
              rhs="check_<name>(<source>)")
    # the check function itself: membership test, return under it, raise as fall-through
    data = "".join(f_.text if f_.kind == "data" else "X" for f_ in tplq.frags(le.tree.body))
    m = re.search(r"def check_X\(value[^\n]*\n((?:\s+[^\n]*\n?)+)", data)
    ok = False
    if m:
        body = m.group(1)
        lines = [l.strip() for l in body.splitlines() if l.strip()]
        ok = len(lines) >= 3 and lines[0].startswith("if value in ") and lines[1].startswith("return ") and lines[-1].startswith("raise ")
    rep.check(ok, "R14.3", "literal_enum.py.jinja::check-function", "the literal-enum check function is not `if value in VALUES: return ...; raise`",
              where=f"{PKG}/templates/{le.name}", lhs=(m.group(1).strip()[:120] if m else None), rhs="membership test, raising fall-through")
    cons = tplq.macro_frags(ct, "construct")
    ctxt = "".join(f_.text if f_.kind == "data" else "{" + f_.text + "}" for f_ in cons)
    ok = "!= {property.value.python_code}" in ctxt and "raise ValueError" in ctxt
    rep.check(ok, "R14.3", "const_property::construct", "decoding a const no longer compares with the constant and raises",
              where=f"{PKG}/templates/{ct.name}", lhs=ctxt.strip()[:120], rhs="if x != <const>: raise ValueError")

    # ---- R14.4 values intact ---------------------------------------------------------------------------------------------
    rep.rule("R14.4", "member values are emitted in a string context with a single escaping (str) or as numbers; Literal members "
                      "through %r of the raw value")
    it, ji = ctx.flow
    n_v = 0
    for e in ji.emissions.values():
        # the member value: second component of the loop over enum.values (canonical loop variable `ITER[*].1`)
        # (in the literal template every expression that reads the member set emits values, whatever it converts them with)
        if e.template in ("str_enum.py.jinja", "int_enum.py.jinja") and re.search(r"enum\.values[^ ]*?\[\*\]\.1\b", e.expr) or \
                (e.template == "literal_enum.py.jinja" and "enum.values" in e.expr):
            n_v += 1
            dbl = {l for l in e.labels if l.startswith("REPR_OF_ESC")}
            rep.check(not dbl, "R14.4", f"{e.template}::{e.expr}#{e.ordinal}@{e.kind}",
                      "an enum value is escaped twice on its way into the generated class: the member's wire value differs from the "
                      "document's", where=f"{PKG}/templates/{e.template}:{e.line}", lhs=sorted(e.labels), rhs="single escaping")
            if e.template == "str_enum.py.jinja" and not dbl:
                rep.check(e.kind.endswith('STR1"') and any(is_esc(l) for l in e.labels), "R14.4", f"{e.template}::{e.expr}::context",
                          "string enum value is not emitted as escaped text inside a \"...\" literal",
                          where=f"{PKG}/templates/{e.template}:{e.line}", lhs=[e.kind, sorted(e.labels)], rhs='ESC in STR1"')
    rep.floor("enum_value_emissions", n_v, 3)
    # Literal[...] arguments and the members of the VALUES set are Python source: the only conversion that writes every str / int as
    # a Python literal denoting the same value is repr (`"%r"|format(x)`); str() leaves strings unquoted and tojson writes JSON text
    # (other escapes: characters outside the BMP become surrogate pairs, which a Python literal does not recombine)
    from jinja2 import nodes as jn

    n_lit = 0
    for out in le.tree.find_all(jn.Output):
        for c in out.nodes:
            if isinstance(c, jn.TemplateData) or "enum.values" not in norm_j(c):
                continue
            n_lit += 1
            conv = _conversions(c)
            rep.check(conv == ["format:%r"], "R14.4", f"{le.name}::{norm_j(c)}::python-literal",
                      "a member value reaches the generated Literal / VALUES set through a conversion that does not produce the Python "
                      f"literal of the value: {conv or 'none (str())'}", where=f"{PKG}/templates/{le.name}:{c.lineno}", lhs=conv, rhs=["format:%r"])
    rep.floor("literal_value_outputs", n_lit, 2)
    rep.not_decided.append("behaviour of Enum(value) itself (CPython)")
    return LEVEL


def norm_j(n: Any) -> str:
    from ..jinja_interp import expr_text

    return expr_text(n)


# filters that select / order / collect elements without touching their text
_STRUCTURAL = {"list", "sort", "unique", "reverse", "dictsort", "items", "batch", "slice", "select", "reject", "first", "last", "join", "trim",
               "indent", "safe"}


def _conversions(n: Any) -> list[str]:
    """the conversions applied to the member values on their way from `enum.values` to the output, outermost first"""
    from jinja2 import nodes as jn

    def reads(x: Any) -> bool:
        return x is not None and "enum.values" in norm_j(x)

    out: list[str] = []
    while True:
        if isinstance(n, jn.Filter):
            if n.name == "format" and isinstance(n.node, jn.Const) and isinstance(n.node.value, str) and any(reads(a) for a in n.args):
                specs = set(re.findall(r"%[^%]", n.node.value))
                out.append("format:" + "".join(sorted(specs)))
                n = next(a for a in n.args if reads(a))
                continue
            if reads(n.node):
                if n.name == "map":
                    out.append("map:" + ",".join(norm_j(a).strip("'") for a in n.args) + "".join(f",{k.key}={norm_j(k.value)}" for k in n.kwargs))
                elif n.name not in _STRUCTURAL:
                    out.append(n.name)
                n = n.node
                continue
            out.append(f"{n.name}(<values as argument>)")
            return out
        if isinstance(n, (jn.Name, jn.Getattr, jn.Getitem)):
            return out
        out.append(type(n).__name__)
        return out
