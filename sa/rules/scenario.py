"""Feasible-path walker: which ends of a function can be reached, with what known, when a *scenario* holds.

Rules of the form "when <condition> the function must (not) do <something>" used to look for one `if` of a given shape (a test whose
positive arm returns the right thing).  That is a statement about today's layout: the same decision can be taken by an early return,
by nesting the rest under the negated test, by leaving a local at its `None` default that a later test picks up, by a flag that is
set in an if/elif chain and tested once afterwards, or inside a private helper.  The walker states the rule on paths instead:

  * a scenario is given as `axiom(expr) -> V | None` (what is known about the value of an expression whenever it is evaluated, e.g.
    "every read of `.content` yields a falsy value") and `raises(expr) -> exception name | None` (evaluating this expression raises);
  * the function's statements are walked in program order with an abstract environment (per local: truthy? / None? / an error value? /
    a known constant / the elements of a tuple literal).  A test whose truth value follows from what is known selects one arm, any other
    test is followed both ways with the environment refined by the outcome (`x is None`, `x`, `not x`, `isinstance(x, <Error>)`,
    and / or / not of these, walrus targets);
  * assignments, for / while (one symbolic iteration from a state in which everything the loop rebinds is unknown; `else`, break,
    continue), try / except (scenario raises go to the innermost handler that catches them, any statement of a try body may also reach
    every handler), with, match are followed; calls to the private helpers handed in as `inline` are walked with their parameters
    bound to the argument values (context-sensitive, depth-limited), every other call is unknown;
  * `event(expr, state, walker) -> flags` lets a rule mark paths ("the lookup was evaluated", "a diagnostic was recorded").

The result is the list of path ends (`Outcome`): explicit returns with the abstract value returned, falling off the end, raises,
uncaught scenario exceptions, and the ends of loop iterations (fall-through / continue, and break) - each with the flags and the environment of the path.  Nothing of the
analysed program is executed; values are never concrete except for literals written in the source.  The walk over-approximates
feasibility (unknown tests go both ways), so "no path end with property P" is a sound verdict and "some path end lacks Q" may be a
false alarm only where a test is undecidable for the abstraction.
"""
from __future__ import annotations

import ast
import dataclasses
from typing import Any, Callable, Iterable

from ..astutil import ERROR_CLASSES, ERROR_ONLY_HELPERS, call_name, calls_in
from ..pyindex import FuncInfo, dotted
from .c06 import is_sub


class TooComplex(Exception):
    """the walk exceeded its budget: the rule cannot give a verdict (ANALYSIS-ERROR)"""


@dataclasses.dataclass(frozen=True)
class V:
    """what is known about a value (None = not known)"""
    truthy: "bool | None" = None
    none: "bool | None" = None
    err: "bool | None" = None               # an instance of one of the repository's error classes
    const: "tuple | None" = None            # (value,) of a literal
    elts: "tuple[V, ...] | None" = None     # elements of a tuple / list literal
    tag: "str | None" = None                # a label an axiom attached to the value (provenance); copied with the value, dropped by None
    item: "V | None" = None                 # an iterable built by a comprehension: what is known about each of its elements
    iflags: "frozenset[str]" = frozenset()  # a lazy iterable (generator expression): the events of producing one element
    fn: "tuple | None" = None               # a callable held by a local: (name of the function it calls | id of the lambda / nested def in
                                            # Walker.closures, bound positional values, bound (keyword, value) pairs) - functools.partial

    def tags(self) -> "set[str]":
        out = {self.tag} if self.tag is not None else set()
        for x in [*(self.elts or ()), *([self.item] if self.item is not None else [])]:
            out |= x.tags()
        return out

    def is_error(self) -> bool:
        """an error value, or a tuple that carries one (the parser's `return <Error>, schemas` convention)"""
        return self.err is True or (self.elts is not None and any(x.err is True for x in self.elts))


UNKNOWN = V()
OBJECT = V(truthy=None, none=False)          # some object, not None


def const(v: Any) -> V:
    return V(truthy=bool(v), none=v is None, err=False, const=(v,))


NONE = const(None)
ERROR = V(truthy=True, none=False, err=True)
UNKNOWN_BOOL = V(None, False, False)         # the result of a test


def join(a: V, b: V) -> V:
    if a == b:
        return a
    elts = None
    if a.elts is not None and b.elts is not None and len(a.elts) == len(b.elts):
        elts = tuple(join(x, y) for x, y in zip(a.elts, b.elts))
    return V(a.truthy if a.truthy == b.truthy else None, a.none if a.none == b.none else None, a.err if a.err == b.err else None,
             a.const if a.const == b.const else None, elts, a.tag if a.tag == b.tag else None,
             join(a.item, b.item) if a.item is not None and b.item is not None else None, a.iflags | b.iflags,
             a.fn if a.fn == b.fn else None)


def meet(a: V, b: V) -> "V | None":
    """both descriptions hold; None when they contradict each other"""
    out = {}
    for fld in ("truthy", "none", "err"):
        x, y = getattr(a, fld), getattr(b, fld)
        if x is not None and y is not None and x != y:
            return None
        out[fld] = x if x is not None else y
    if out["none"] is True:
        if out["truthy"] is True or out["err"] is True:
            return None
        return NONE
    if a.const is not None and b.const is not None and a.const != b.const:
        return None
    return V(out["truthy"], out["none"], out["err"], a.const or b.const, a.elts or b.elts, a.tag or b.tag, a.item or b.item, a.iflags | b.iflags,
             a.fn or b.fn)


class St:
    """state of one path: abstract environment + flags (events seen on the path)"""
    __slots__ = ("env", "flags")

    def __init__(self, env: "dict[str, V] | None" = None, flags: "frozenset[str]" = frozenset()) -> None:
        self.env = dict(env or {})
        self.flags = frozenset(flags)

    def copy(self) -> "St":
        return St(self.env, self.flags)

    def key(self) -> tuple:
        return (frozenset(self.env.items()), self.flags)

    def set(self, name: str, v: V) -> None:
        if v == UNKNOWN:
            self.env.pop(name, None)
        else:
            self.env[name] = v

    def kill(self, names: Iterable[str]) -> "St":
        for n in names:
            self.env.pop(n, None)
        return self

    def flag(self, *names: str) -> None:
        self.flags = self.flags | frozenset(names)


@dataclasses.dataclass
class Outcome:
    kind: str            # return | end | raise | uncaught | iter-end | break (the last two: node is the loop; the path goes on)
    node: ast.AST        # the return / raise statement, the function (end), the raising expression, the loop
    value: V             # value returned (return / end); for raise / uncaught: UNKNOWN
    st: St
    exc: str = ""        # raise / uncaught: the exception's class name

    @property
    def flags(self) -> "frozenset[str]":
        return self.st.flags

    @property
    def final(self) -> bool:
        """the path leaves the function here (the ends of loop iterations are reported, too, but the path goes on)"""
        return self.kind not in ("iter-end", "break")


class _Raise(Exception):
    def __init__(self, exc: str, node: ast.AST, scenario: bool) -> None:
        self.exc, self.node, self.scenario = exc, node, scenario


class _TryFrame:
    def __init__(self, handlers: list[ast.ExceptHandler]) -> None:
        self.handlers = handlers
        self.explicit: dict[int, list[St]] = {}
        self.generic: list[St] = []


class _LoopFrame:
    def __init__(self, node: ast.AST) -> None:
        self.node = node
        self.breaks: list[St] = []
        self.continues: list[St] = []


def _stores(st: ast.AST) -> set[str]:
    """names (re)bound anywhere inside the statement"""
    out = {n.id for n in ast.walk(st) if isinstance(n, ast.Name) and isinstance(n.ctx, (ast.Store, ast.Del))}
    out |= {h.name for h in ast.walk(st) if isinstance(h, ast.ExceptHandler) and h.name}
    out |= {a.asname or a.name.split(".")[0] for n in ast.walk(st) if isinstance(n, (ast.Import, ast.ImportFrom)) for a in n.names}
    out |= {n.name for n in ast.walk(st) if isinstance(n, (ast.FunctionDef, ast.AsyncFunctionDef, ast.ClassDef)) and n is not st}
    return out


def _handler_names(h: ast.ExceptHandler) -> list[str]:
    if h.type is None:
        return ["BaseException"]
    ts = h.type.elts if isinstance(h.type, ast.Tuple) else [h.type]
    return [dotted(t) or "" for t in ts]


MAX_STATES = 400       # states alive at one program point
MAX_FORKS = 96         # alternatives of one statement's expressions
MAX_DEPTH = 3          # nesting of inlined helpers


class Walker:
    def __init__(self, f: FuncInfo, *, axiom: "Callable[[ast.AST, St, Walker], V | None] | None" = None,
                 raises: "Callable[[ast.AST], str | None] | None" = None,
                 event: "Callable[[ast.AST, St, Walker], Iterable[str] | None] | None" = None,
                 inline: Iterable[FuncInfo] = (), per_iteration: Iterable[str] = (), _stack: "tuple[str, ...]" = (),
                 _cache: "dict | None" = None) -> None:
        self.f = f
        self.axiom, self.raises, self.event = axiom, raises, event
        self.inline = {g.name: g for g in inline if g.qual != f.qual}
        self._inline_all = list(inline)
        self.per_iteration = frozenset(per_iteration)
        self.outcomes: list[Outcome] = []
        self.vals: dict[int, V] = {}            # last value computed for an expression node (for event callbacks)
        self._tries: list[_TryFrame] = []
        self._loops: list[_LoopFrame] = []
        self._stack = _stack + (f.qual,)
        self._cache: dict = _cache if _cache is not None else {}
        self._prefix: tuple[int, ...] = ()
        self._taken: list[int] = []
        self._width: list[int] = []
        self._quiet = 0
        self.closures: dict[int, ast.AST] = {}  # id -> lambda / nested def a local may hold (V.fn)

    # ---- entry -----------------------------------------------------------------------------------------------------------
    def run(self, env: "dict[str, V] | None" = None, flags: Iterable[str] = ()) -> list[Outcome]:
        out = self._block(self.f.node.body, [St(env, frozenset(flags))])
        for s in out:
            self._end("end", self.f.node, NONE, s)
        uniq: dict[tuple, Outcome] = {}
        for o in self.outcomes:
            uniq.setdefault((o.kind, id(o.node), o.value, o.exc, o.st.key()), o)
        self.outcomes = list(uniq.values())
        return self.outcomes

    def _end(self, kind: str, node: ast.AST, value: V, st: St, exc: str = "") -> None:
        self.outcomes.append(Outcome(kind, node, value, st.copy(), exc))
        if len(self.outcomes) > 20 * MAX_STATES:
            raise TooComplex(f"path ends of {self.f.name}")

    # ---- forks -----------------------------------------------------------------------------------------------------------
    def choose(self, n: int) -> int:
        """a point where evaluation can continue in n ways: the alternatives are explored by replaying the statement"""
        if n <= 1:
            return 0
        i = len(self._taken)
        c = self._prefix[i] if i < len(self._prefix) else 0
        self._taken.append(c)
        self._width.append(n)
        return c

    def _forked(self, st: St, fn: "Callable[[St], Any]") -> "list[tuple[St, Any]]":
        """every way of evaluating fn from (a copy of) st: (resulting state, result or the _Raise that ended it)"""
        results: list[tuple[St, Any]] = []
        pending: list[tuple[int, ...]] = [()]
        saved = (self._prefix, self._taken, self._width)
        try:
            while pending:
                prefix = pending.pop()
                s = st.copy()
                self._prefix, self._taken, self._width = prefix, [], []
                try:
                    r: Any = fn(s)
                except _Raise as e:
                    r = e
                for i in range(len(prefix), len(self._taken)):
                    for alt in range(1, self._width[i]):
                        pending.append(tuple(self._taken[:i]) + (alt,))
                results.append((s, r))
                if len(results) > MAX_FORKS:
                    raise TooComplex(f"alternatives of one statement in {self.f.name}")
        finally:
            self._prefix, self._taken, self._width = saved
        return results

    # ---- expressions -------------------------------------------------------------------------------------------------------
    def _fire(self, e: ast.AST, st: St) -> None:
        if self.event is not None and not self._quiet:
            fl = self.event(e, st, self)
            if fl:
                st.flag(*([fl] if isinstance(fl, str) else list(fl)))

    def _touch(self, e: ast.AST, st: St) -> None:
        """the subtree is evaluated in some way the walker does not follow: its events may happen"""
        for n in ast.walk(e):
            if isinstance(n, ast.expr):
                self._fire(n, st)

    def ev(self, e: "ast.AST | None", st: St) -> V:
        if e is None:
            return UNKNOWN
        a = self.axiom(e, st, self) if self.axiom is not None else None
        if a is not None:
            self._touch(e, st)
            v = a
        else:
            v = self._ev(e, st)
            exc = self.raises(e) if self.raises is not None and not self._quiet else None
            if exc:
                raise _Raise(exc, e, True)
            self._fire(e, st)
        self.vals[id(e)] = v
        return v

    def peek(self, e: ast.AST, st: St) -> V:
        """the value of an expression in a state, without events, raises or lasting effects"""
        self._quiet += 1
        saved = (self._prefix, self._taken, self._width)
        try:
            self._prefix, self._taken, self._width = (), [], []
            return self.ev(e, st.copy())
        except _Raise:
            return UNKNOWN
        finally:
            self._prefix, self._taken, self._width = saved
            self._quiet -= 1

    def _ev(self, e: ast.AST, st: St) -> V:  # noqa: PLR0911, PLR0912
        if isinstance(e, ast.Constant):
            try:
                hash(e.value)
                return const(e.value) if isinstance(e.value, (str, int, bool, bytes, type(None))) else V(bool(e.value), False, False)
            except TypeError:
                return OBJECT
        if isinstance(e, ast.Name):
            return st.env.get(e.id, UNKNOWN)
        if isinstance(e, ast.NamedExpr):
            v = self.ev(e.value, st)
            self.bind(e.target, v, st)
            return v
        if isinstance(e, ast.JoinedStr):
            nonempty = False
            for p in e.values:
                if isinstance(p, ast.FormattedValue):
                    self.ev(p.value, st)
                elif isinstance(p, ast.Constant) and p.value:
                    nonempty = True
            return V(True if nonempty else None, False, False)
        if isinstance(e, (ast.Tuple, ast.List, ast.Set)):
            vs = [self.ev(x.value if isinstance(x, ast.Starred) else x, st) for x in e.elts]
            starred = any(isinstance(x, ast.Starred) for x in e.elts)
            return V(None if starred else bool(e.elts), False, False, None, tuple(vs) if not starred and not isinstance(e, ast.Set) else None)
        if isinstance(e, ast.Dict):
            for k, v_ in zip(e.keys, e.values):
                if k is not None:
                    self.ev(k, st)
                self.ev(v_, st)
            return V(None if any(k is None for k in e.keys) else bool(e.keys), False, False)
        if isinstance(e, ast.UnaryOp) and isinstance(e.op, ast.Not):
            t = self.ev(e.operand, st).truthy
            return UNKNOWN_BOOL if t is None else const(not t)
        if isinstance(e, ast.BoolOp):
            is_and = isinstance(e.op, ast.And)
            undecided = False
            last = UNKNOWN
            for x in e.values:
                last = self.ev(x, st)
                if last.truthy is None:
                    undecided = True
                elif last.truthy != is_and:
                    # short circuit: the result is this operand - or an earlier, undecided one that ended the evaluation the same way
                    return last if not undecided else V(truthy=not is_and)
            return UNKNOWN if undecided else last
        if isinstance(e, ast.IfExp):
            t = self.ev(e.test, st).truthy
            if t is None:
                t = self.choose(2) == 0
                r = self.refine(e.test, t, st)
                if r is not None:
                    st.env = r.env
            return self.ev(e.body if t else e.orelse, st)
        if isinstance(e, ast.Compare):
            return self._compare(e, st)
        if isinstance(e, ast.Call):
            return self._call(e, st)
        if isinstance(e, ast.Subscript):
            b = self.ev(e.value, st)
            i = self.ev(e.slice, st)
            if b.elts is not None and i.const is not None and type(i.const[0]) is int and -len(b.elts) <= i.const[0] < len(b.elts):
                return b.elts[i.const[0]]
            return UNKNOWN
        if isinstance(e, ast.Attribute):
            self.ev(e.value, st)
            return UNKNOWN
        if isinstance(e, (ast.ListComp, ast.SetComp, ast.GeneratorExp)):
            # the element, evaluated once with the targets bound to what is known about the iterables' elements and the filters passed
            # (its events may happen; its scope is its own, except that walrus targets are the enclosing function's)
            inner: "St | None" = st.copy()
            for gen in e.generators:
                it = self.ev(gen.iter, inner)
                self.bind(gen.target, it.item if it.item is not None else UNKNOWN, inner)
                for cond in gen.ifs:
                    self.ev(cond, inner)
                    inner = self.refine(cond, True, inner) if inner is not None else None
                    if inner is None:
                        break
                if inner is None:
                    break
            if inner is None:
                return V(truthy=False, none=False, err=False)       # nothing passes the filters
            elt = self.ev(e.elt, inner)
            if isinstance(e, ast.GeneratorExp):
                return V(None, False, False, item=elt, iflags=inner.flags - st.flags)     # nothing happens until it is consumed
            st.flags = inner.flags
            return V(None, False, False, item=elt)
        if isinstance(e, (ast.DictComp, ast.Lambda)):
            for ch in ast.iter_child_nodes(e):
                self._touch(ch, st)
            if isinstance(e, ast.Lambda):
                self.closures[id(e)] = e
                return V(True, False, False, fn=(id(e), (), ()))
            return OBJECT
        if isinstance(e, ast.Await):
            return self.ev(e.value, st)
        for ch in ast.iter_child_nodes(e):
            if isinstance(ch, ast.expr):
                self.ev(ch, st)
            elif isinstance(ch, (ast.keyword, ast.FormattedValue, ast.Slice)):
                self._ev(ch, st)
        return UNKNOWN

    def _compare(self, e: ast.Compare, st: St) -> V:
        vals = [self.ev(e.left, st)] + [self.ev(c, st) for c in e.comparators]
        if len(e.ops) != 1:
            return UNKNOWN_BOOL
        op, l, r = e.ops[0], vals[0], vals[1]
        t: "bool | None" = None
        if isinstance(op, (ast.Is, ast.IsNot, ast.Eq, ast.NotEq)):
            neg = isinstance(op, (ast.IsNot, ast.NotEq))
            if l.none is True and r.none is not None:
                t = r.none
            elif r.none is True and l.none is not None:
                t = l.none
            elif l.const is not None and r.const is not None and (isinstance(op, (ast.Eq, ast.NotEq)) or
                                                                  all(isinstance(x.const[0], (bool, type(None))) for x in (l, r))):
                t = (l.const[0] == r.const[0]) and type(l.const[0]) is type(r.const[0]) if isinstance(op, (ast.Is, ast.IsNot)) else l.const[0] == r.const[0]
            if t is not None:
                t = t != neg
        elif isinstance(op, (ast.Lt, ast.LtE, ast.Gt, ast.GtE)) and l.const is not None and r.const is not None:
            a, b = l.const[0], r.const[0]
            if type(a) is int and type(b) is int:
                t = a < b if isinstance(op, ast.Lt) else a <= b if isinstance(op, ast.LtE) else a > b if isinstance(op, ast.Gt) else a >= b
        return UNKNOWN_BOOL if t is None else const(t)

    def _call(self, c: ast.Call, st: St) -> V:  # noqa: PLR0911, PLR0912
        if isinstance(c.func, ast.Attribute):
            self.ev(c.func.value, st)
        args = [self.ev(a.value if isinstance(a, ast.Starred) else a, st) for a in c.args]
        kwargs = {k.arg: self.ev(k.value, st) for k in c.keywords}
        name = call_name(c)
        last = name.rsplit(".", 1)[-1]
        plain = isinstance(c.func, ast.Name)
        simple = not any(isinstance(a, ast.Starred) for a in c.args) and None not in kwargs
        held = st.env.get(c.func.id) if plain else None
        if held is not None and held.fn is not None and simple:
            # a local that holds a callable: the call reaches the function it wraps, with the bound arguments in front
            target, pargs, pkw = held.fn
            args = [*pargs, *args]
            kwargs = {**dict(pkw), **kwargs}
            if isinstance(target, int):
                return self._call_closure(c, target, args, kwargs, st)
            last = target
        if last == "partial" and simple and c.args:
            first = c.args[0]
            if args[0].fn is not None:
                return V(True, False, False, fn=(args[0].fn[0], args[0].fn[1] + tuple(args[1:]), args[0].fn[2] + tuple(kwargs.items())))
            if isinstance(first, (ast.Name, ast.Attribute)) and dotted(first) and not (isinstance(first, ast.Name) and first.id in st.env):
                return V(True, False, False, fn=(dotted(first).rsplit(".", 1)[-1], tuple(args[1:]), tuple(kwargs.items())))
        if plain and last == "isinstance" and len(args) == 2 and simple:
            ks = c.args[1].elts if isinstance(c.args[1], ast.Tuple) else [c.args[1]]
            names = [(dotted(k) or ast.unparse(k)).rsplit(".", 1)[-1] for k in ks]
            x = args[0]
            if x.none is True:
                return const(any(n in ("NoneType",) or n == "None" for n in names))
            if names and all(n in ERROR_CLASSES for n in names) and x.err is not None:
                return const(x.err)
            if x.err is True and not any(n in ERROR_CLASSES or n in ("object", "Exception", "BaseException") for n in names):
                return UNKNOWN_BOOL
            return UNKNOWN_BOOL
        if plain and last == "bool" and len(args) == 1 and simple:
            return UNKNOWN_BOOL if args[0].truthy is None else const(args[0].truthy)
        if plain and last == "len" and len(args) == 1 and simple:
            x = args[0]
            if x.elts is not None:
                return const(len(x.elts))
            if x.truthy is False and x.none is False:
                return const(0)
            return V(x.truthy if x.none is False else None, False, False)
        if plain and last == "cast" and len(args) == 2 and simple:
            return args[1]
        if plain and last in ("iter", "reversed") and len(args) == 1 and simple and args[0].item is not None:
            return V(args[0].truthy, False, False, item=args[0].item, iflags=args[0].iflags)
        if plain and last in ("list", "tuple", "sorted", "set", "frozenset") and len(args) == 1 and simple and args[0].item is not None:
            st.flag(*args[0].iflags)
            return V(args[0].truthy, False, False, item=args[0].item)
        if plain and last == "next" and len(args) in (1, 2) and simple and args[0].item is not None:
            # the first element, or the default when there is none (without a default: StopIteration)
            if self.choose(2) == 0:
                st.flag(*args[0].iflags)
                return args[0].item
            if len(args) == 2:
                return args[1]
            raise _Raise("StopIteration", c, False)
        if last in ERROR_CLASSES or last in ERROR_ONLY_HELPERS:
            return ERROR
        g = self.inline.get(last)
        if g is not None and simple and self._inlinable(c, g):
            return self._inline_call(c, g, args, kwargs, st)
        return UNKNOWN

    def callee(self, c: ast.Call, st: St) -> str:
        """last component of the name of the function a call reaches: a local that holds functools.partial(f, ...) reads as f"""
        if isinstance(c.func, ast.Name):
            v = st.env.get(c.func.id)
            if v is not None and v.fn is not None and isinstance(v.fn[0], str):
                return v.fn[0]
        return call_name(c).rsplit(".", 1)[-1]

    def _call_closure(self, c: ast.Call, key: int, args: list[V], kwargs: "dict[str | None, V]", st: St) -> V:
        """a call of a lambda / nested function held by a local: its body is followed in the caller's environment (free variables are
        read when the call happens), parameters bound to the argument values"""
        node = self.closures.get(key)
        a = getattr(node, "args", None)
        if node is None or a is None or a.vararg or a.kwarg:
            return UNKNOWN
        pos = [p.arg for p in [*a.posonlyargs, *a.args]]
        bound = dict(zip(pos, args))
        bound.update({k: v for k, v in kwargs.items() if k is not None})
        if isinstance(node, ast.Lambda):
            params = [*pos, *[p.arg for p in a.kwonlyargs]]
            saved = {p: st.env.get(p) for p in params}
            for p in params:
                st.set(p, bound.get(p, UNKNOWN))
            try:
                return self.ev(node.body, st)
            finally:
                for p, v in saved.items():
                    st.set(p, v if v is not None else UNKNOWN)
        g = FuncInfo(name=node.name, qual=f"{self.f.qual}.<locals>.{node.name}", module=self.f.module, cls=None, node=node, parent=self.f)
        if g.qual in self._stack or len(self._stack) > MAX_DEPTH:
            return UNKNOWN
        return self._inline_call(c, g, args, kwargs, st, base_env={k: v for k, v in st.env.items() if k not in _stores(node)})

    def _inlinable(self, c: ast.Call, g: FuncInfo) -> bool:
        if g.qual in self._stack or len(self._stack) > MAX_DEPTH or g.node.args.vararg or g.node.args.kwarg:
            return False
        if isinstance(c.func, ast.Name):
            return g.cls is None
        # a method: called on some object / the class (the receiver is not followed)
        return isinstance(c.func, ast.Attribute) and g.cls is not None

    def _inline_call(self, c: ast.Call, g: FuncInfo, args: list[V], kwargs: "dict[str | None, V]", st: St,
                     base_env: "dict[str, V] | None" = None) -> V:
        a = g.node.args
        pos = [p.arg for p in [*a.posonlyargs, *a.args]]
        if g.cls is not None and g.kind in ("method", "classmethod", "property") and pos:
            pos = pos[1:]                     # self / cls: bound to the receiver
        env: dict[str, V] = dict(base_env or {})
        for p in [*a.posonlyargs, *a.args, *a.kwonlyargs]:
            env.pop(p.arg, None)
        allpos = [*a.posonlyargs, *a.args]
        quiet = Walker(g, _stack=self._stack)
        for p, d in zip(allpos[len(allpos) - len(a.defaults):], a.defaults):
            env[p.arg] = quiet.peek(d, St())
        for p, d in zip(a.kwonlyargs, a.kw_defaults):
            if d is not None:
                env[p.arg] = quiet.peek(d, St())
        for name, v in zip(pos, args):
            env[name] = v
        for k, v in kwargs.items():
            if k is not None:
                env[k] = v
        env = {k: v for k, v in env.items() if v != UNKNOWN}
        key = (g.qual, frozenset(env.items()), st.flags)
        if key not in self._cache:
            sub = Walker(g, axiom=self.axiom, raises=self.raises, event=self.event, inline=self._inline_all,
                         per_iteration=self.per_iteration, _stack=self._stack, _cache=self._cache)
            sub.closures = self.closures
            self._cache[key] = sub.run(env, st.flags)
        outs: list[Outcome] = self._cache[key]
        alts: list[tuple[str, V, frozenset, str, ast.AST]] = []
        for o in outs:
            if not o.final:
                # the end of an iteration of a helper's loop is a path end of the caller's walk, too
                self.outcomes.append(o)
                continue
            alt = ("ok" if o.kind in ("return", "end") else "exc" if o.kind == "raise" else "scn", o.value, o.flags, o.exc, o.node)
            if not any(x[:4] == alt[:4] for x in alts):
                alts.append(alt)
        if not alts:
            raise _Raise("<diverges>", c, False)
        kind, v, flags, exc, node = alts[self.choose(len(alts))]
        st.flags = flags
        if kind != "ok":
            raise _Raise(exc or "Exception", node if kind == "scn" else c, kind == "scn")
        return v

    # ---- binding, refinement -------------------------------------------------------------------------------------------------
    def bind(self, t: ast.AST, v: V, st: St) -> None:
        if isinstance(t, ast.Name):
            st.set(t.id, v)
        elif isinstance(t, (ast.Tuple, ast.List)):
            plain = not any(isinstance(x, ast.Starred) for x in t.elts)
            for i, x in enumerate(t.elts):
                self.bind(x.value if isinstance(x, ast.Starred) else x,
                          v.elts[i] if plain and v.elts is not None and len(v.elts) == len(t.elts) else UNKNOWN, st)
        elif isinstance(t, (ast.Attribute, ast.Subscript)):
            self.ev(t.value, st)
            if isinstance(t, ast.Subscript):
                self.ev(t.slice, st)

    def refine(self, t: ast.AST, pol: bool, st: St) -> "St | None":
        """the state in which test t has come out as pol (None: cannot happen in this state)"""
        if isinstance(t, ast.UnaryOp) and isinstance(t.op, ast.Not):
            return self.refine(t.operand, not pol, st)
        if isinstance(t, ast.BoolOp):
            if isinstance(t.op, ast.And) == pol:
                cur: "St | None" = st
                for x in t.values:
                    cur = self.refine(x, pol, cur) if cur is not None else None
                return cur
            return st
        subject: "ast.AST | None" = None
        fact: "V | None" = None
        if isinstance(t, ast.Name):
            subject, fact = t, V(truthy=True, none=False) if pol else V(truthy=False)
        elif isinstance(t, ast.NamedExpr):
            subject, fact = t.target, V(truthy=True, none=False) if pol else V(truthy=False)
        elif isinstance(t, ast.Compare) and len(t.ops) == 1 and isinstance(t.ops[0], (ast.Is, ast.IsNot, ast.Eq, ast.NotEq)):
            l, r = t.left, t.comparators[0]
            if isinstance(l, ast.Constant) and l.value is None:
                l, r = r, l
            if isinstance(r, ast.Constant) and r.value is None:
                is_none = pol == isinstance(t.ops[0], (ast.Is, ast.Eq))
                subject, fact = l, NONE if is_none else V(none=False)
        elif isinstance(t, ast.Call) and isinstance(t.func, ast.Name) and t.func.id == "isinstance" and len(t.args) == 2 and not t.keywords:
            ks = t.args[1].elts if isinstance(t.args[1], ast.Tuple) else [t.args[1]]
            names = [(dotted(k) or ast.unparse(k)).rsplit(".", 1)[-1] for k in ks]
            all_err = bool(names) and all(n in ERROR_CLASSES for n in names)
            if pol:
                subject, fact = t.args[0], V(none=False if not any(n in ("NoneType", "None", "object") for n in names) else None,
                                             err=True if all_err else None, truthy=True if all_err else None)
            elif all_err:
                subject, fact = t.args[0], V(err=False)
        elif isinstance(t, ast.Call) and isinstance(t.func, ast.Name) and t.func.id == "bool" and len(t.args) == 1 and not t.keywords:
            return self.refine(t.args[0], pol, st)
        if isinstance(subject, ast.NamedExpr):
            subject = subject.target
        if isinstance(subject, ast.Name) and fact is not None:
            m = meet(st.env.get(subject.id, UNKNOWN), fact)
            if m is None:
                return None
            st.set(subject.id, m)
        return st

    # ---- statements ----------------------------------------------------------------------------------------------------------
    def _dedupe(self, states: list[St]) -> list[St]:
        seen: dict[tuple, St] = {}
        for s in states:
            seen.setdefault(s.key(), s)
        if len(seen) > MAX_STATES:
            raise TooComplex(f"states in {self.f.name}")
        return list(seen.values())

    def _block(self, body: list[ast.stmt], states: list[St]) -> list[St]:
        cur = self._dedupe(states)
        for st in body:
            if not cur:
                break
            nxt: list[St] = []
            for s in cur:
                nxt += self._stmt(st, s)
            cur = self._dedupe(nxt)
        return cur

    def _route(self, r: _Raise, s: St) -> None:
        """an exception raised in state s: to the innermost enclosing handler that catches it, else out of the function"""
        if r.exc == "<diverges>":
            return
        if r.scenario:
            s.flag("raised")
        for fr in reversed(self._tries):
            for h in fr.handlers:
                if any(is_sub(r.exc, n) for n in _handler_names(h)):
                    fr.explicit.setdefault(id(h), []).append(s)
                    return
        self._end("uncaught" if r.scenario else "raise", r.node, UNKNOWN, s, r.exc)

    def _simple(self, s: St, fn: "Callable[[St], Any]") -> list[St]:
        out = []
        for s2, r in self._forked(s, fn):
            if isinstance(r, _Raise):
                self._route(r, s2)
            else:
                out.append(s2)
        return out

    def _stmt(self, st: ast.stmt, s: St) -> list[St]:  # noqa: PLR0911, PLR0912, PLR0915
        for fr in self._tries:
            fr.generic.append(s.copy().kill(_stores(st) if not isinstance(st, (ast.If, ast.For, ast.While, ast.Try, ast.With)) else ()))
        if isinstance(st, ast.Expr):
            return self._simple(s, lambda x: self.ev(st.value, x))
        if isinstance(st, ast.Assign):
            def assign(x: St) -> None:
                v = self.ev(st.value, x)
                for t in st.targets:
                    self.bind(t, v, x)
            return self._simple(s, assign)
        if isinstance(st, ast.AnnAssign):
            if st.value is None:
                return [s]
            return self._simple(s, lambda x: self.bind(st.target, self.ev(st.value, x), x))
        if isinstance(st, ast.AugAssign):
            def aug(x: St) -> None:
                self.ev(st.value, x)
                self.bind(st.target, UNKNOWN, x)
            return self._simple(s, aug)
        if isinstance(st, ast.Return):
            for s2, r in self._forked(s, lambda x: self.ev(st.value, x) if st.value is not None else NONE):
                if isinstance(r, _Raise):
                    self._route(r, s2)
                else:
                    self._end("return", st, r, s2)
            return []
        if isinstance(st, ast.Raise):
            for s2, r in self._forked(s, lambda x: self.ev(st.exc, x) if st.exc is not None else UNKNOWN):
                if isinstance(r, _Raise):
                    self._route(r, s2)
                else:
                    e = st.exc.func if isinstance(st.exc, ast.Call) else st.exc
                    self._route(_Raise((dotted(e) or "Exception").rsplit(".", 1)[-1] if e is not None else "Exception", st, False), s2)
            return []
        if isinstance(st, ast.If):
            out: list[St] = []
            for s2, r in self._forked(s, lambda x: self.ev(st.test, x)):
                if isinstance(r, _Raise):
                    self._route(r, s2)
                    continue
                if r.truthy is not False:
                    a = self.refine(st.test, True, s2.copy())
                    if a is not None:
                        out += self._block(st.body, [a])
                if r.truthy is not True:
                    b = self.refine(st.test, False, s2.copy())
                    if b is not None:
                        out += self._block(st.orelse, [b])
            return out
        if isinstance(st, (ast.For, ast.AsyncFor)):
            out = []
            for s2, r in self._forked(s, lambda x: self.ev(st.iter, x)):
                if isinstance(r, _Raise):
                    self._route(r, s2)
                    continue

                def body(head: St, r: V = r) -> "tuple[list[St], _LoopFrame]":
                    self.bind(st.target, r.item if r.item is not None else UNKNOWN, head)
                    head.flag(*r.iflags)
                    lf = _LoopFrame(st)
                    self._loops.append(lf)
                    try:
                        falls = self._block(st.body, [head])
                    finally:
                        self._loops.pop()
                    return self._dedupe(falls + lf.continues), lf

                ends, lf = body(self._loop_head(st, s2, lambda h: body(h)[0]))
                for x in ends:
                    self._end("iter-end", st, UNKNOWN, x)
                exhausted = ([] if r.truthy is True and r.elts is not None else [s2]) + [self._next_round(x) for x in ends]
                out += self._block(st.orelse, exhausted) + lf.breaks
            return out
        if isinstance(st, ast.While):
            def rounds(head: St) -> "tuple[list[St], _LoopFrame]":
                lf = _LoopFrame(st)
                ends: list[St] = []
                for s2, r in self._forked(head, lambda x: self.ev(st.test, x)):
                    if isinstance(r, _Raise):
                        self._route(r, s2)
                        continue
                    if r.truthy is not False:
                        a = self.refine(st.test, True, s2.copy())
                        if a is not None:
                            self._loops.append(lf)
                            try:
                                ends += self._block(st.body, [a])
                            finally:
                                self._loops.pop()
                return self._dedupe(ends + lf.continues), lf

            ends, lf = rounds(self._loop_head(st, s, lambda h: rounds(h)[0]))
            for x in ends:
                self._end("iter-end", st, UNKNOWN, x)
            exhausted: list[St] = []
            for x in [s] + [self._next_round(y) for y in ends]:
                for s2, r in self._forked(x, lambda y: self.ev(st.test, y)):
                    if isinstance(r, _Raise):
                        continue        # reported from the head state
                    if r.truthy is not True:
                        b = self.refine(st.test, False, s2)
                        if b is not None:
                            exhausted.append(b)
            return self._block(st.orelse, exhausted) + lf.breaks
        if isinstance(st, ast.Break):
            if self._loops:
                self._loops[-1].breaks.append(s)
                self._end("break", self._loops[-1].node, UNKNOWN, s)
            return []
        if isinstance(st, ast.Continue):
            if self._loops:
                self._loops[-1].continues.append(s)
            return []
        if isinstance(st, ast.Try):
            fr = _TryFrame(list(st.handlers))
            self._tries.append(fr)
            try:
                body_out = self._block(st.body, [s])
            finally:
                self._tries.pop()
            out = self._block(st.orelse, body_out)
            generic = [x.copy() for x in fr.generic]
            for h in st.handlers:
                entry = [x.copy() for x in fr.explicit.get(id(h), [])] + [x.copy() for x in generic]
                for x in entry:
                    if h.name:
                        x.set(h.name, V(True, False, False))
                out += self._block(h.body, entry)
            if st.finalbody:
                out = self._block(st.finalbody, out)
            return out
        if isinstance(st, (ast.With, ast.AsyncWith)):
            def enter(x: St) -> None:
                for it in st.items:
                    self.ev(it.context_expr, x)
                    if it.optional_vars is not None:
                        self.bind(it.optional_vars, UNKNOWN, x)
            return self._block(st.body, self._simple(s, enter))
        if isinstance(st, ast.Match):
            out = []
            for s2 in self._simple(s, lambda x: self.ev(st.subject, x)):
                total = False
                for case in st.cases:
                    out += self._block(case.body, [s2.copy().kill(_stores(case.pattern))])
                    total = total or (isinstance(case.pattern, ast.MatchAs) and case.pattern.pattern is None and case.guard is None)
                if not total:
                    out.append(s2)
            return out
        if isinstance(st, ast.Assert):
            out = []
            for s2 in self._simple(s, lambda x: self.ev(st.test, x)):
                a = self.refine(st.test, True, s2)
                if a is not None:
                    out.append(a)
            return out
        if isinstance(st, ast.Delete):
            return [s.kill(_stores(st))]
        if isinstance(st, ast.FunctionDef):
            self.closures[id(st)] = st
            s.set(st.name, V(True, False, False, fn=(id(st), (), ())))
            return [s]
        if isinstance(st, (ast.AsyncFunctionDef, ast.ClassDef)):
            return [s.kill([st.name])]
        if isinstance(st, (ast.Import, ast.ImportFrom)):
            return [s.kill(_stores(st))]
        return [s]          # pass, global, nonlocal

    def _loop_head(self, st: ast.stmt, entry: St, one_round: "Callable[[St], list[St]]") -> St:
        """A state that covers the head of every iteration.  First the body is walked on trial from the most general head (everything
        the loop rebinds unknown); whatever a rebound name holds at the end of every such iteration and at the loop's entry alike, it
        holds at every head (what the trial reports is discarded).  A name that is `None` before the loop and only ever set to `None`
        in it stays `None`; provenance tags of an iteration do not survive, the entry has none."""
        stored = _stores(st)
        snap = (len(self.outcomes), [(fr, {k: len(v) for k, v in fr.explicit.items()}, len(fr.generic)) for fr in self._tries])
        try:
            ends = one_round(entry.copy().kill(stored))
        finally:
            del self.outcomes[snap[0]:]
            for fr, exp, gen in snap[1]:
                for k in list(fr.explicit):
                    if k in exp:
                        del fr.explicit[k][exp[k]:]
                    else:
                        del fr.explicit[k]
                del fr.generic[gen:]
        head = entry.copy()
        for n in stored:
            v = entry.env.get(n, UNKNOWN)
            for x in ends:
                v = join(v, x.env.get(n, UNKNOWN))
            head.set(n, v)
        return head

    def _next_round(self, s: St) -> St:
        """the state with which a loop goes on after one iteration: what concerns the finished iteration's item is forgotten"""
        x = s.copy()
        x.flags = x.flags - self.per_iteration
        return x


def private_callees(ix: Any, f: FuncInfo, depth: int = 2) -> list[FuncInfo]:
    """the private helpers f delegates to, for inlining: functions of f's module and methods of f's class whose name starts with one
    underscore, called from f (or from such a helper) by plain name or on any receiver, transitively"""
    out: list[FuncInfo] = []
    seen = {f.qual}
    frontier = [f]
    for _ in range(depth):
        nxt: list[FuncInfo] = []
        for g in frontier:
            plain, attr = set(), set()
            for c in calls_in(g.node):
                last = call_name(c).rsplit(".", 1)[-1]
                if last.startswith("_") and not last.startswith("__"):
                    (plain if isinstance(c.func, ast.Name) else attr).add(last)
            for h in ix.all_functions:
                if h.qual in seen or h.module is not g.module or h.parent is not None:
                    continue
                if (h.cls is None and h.name in plain) or (h.cls is not None and h.name in attr and (g.cls is None or h.cls is g.cls)):
                    seen.add(h.qual)
                    out.append(h)
                    nxt.append(h)
        frontier = nxt
    return out
