"""C18 - document names cannot capture the generated code's own names."""
from __future__ import annotations

import ast
import keyword
import re
from typing import Any

from ..astutil import Locals, norm, region, resolved_text
from ..core import PKG, Report
from ..skeleton import Event, Scope, SkelWalker, scan

LEVEL = ("def-use analysis on the template flow graph: each generated scope (class body, every def, nested defs) of "
         "model.py.jinja and endpoint_module.py.jinja is unrolled into a stream of BIND/READ events of (a) identifiers written "
         "by template text and (b) name holes filled from document-derived python names (with their affixes); for every fixed "
         "name that a hole can produce (statically evaluated reserved list, snake-case fixed points, per-root name languages) "
         "the collision must be harmless. For-all over names: the set of fixed names is read from the templates on every run. "
         "The same stream decides the lexical position of every name hole (code / string literal that is data / documentation), "
         "the collisions of two holes of different name languages, and - with a flow-insensitive dependence closure over the "
         "parser's syntax trees - where the fields of a prepared format string come from.")

TEMPLATES = ("model.py.jinja", "endpoint_module.py.jinja")


def type_idents(ix: Any) -> frozenset[str]:
    """identifiers that type strings / defaults emitted by the Python model can mention"""
    out: set[str] = set()
    for c in ix.property_classes() + [ix.cls("PropertyProtocol")]:
        for nm in ("_type_string", "_json_type_string"):
            cv = c.classvars.get(nm)
            if isinstance(cv, ast.Constant) and isinstance(cv.value, str):
                out |= set(re.findall(r"(?<![\w.])[^\W\d]\w*", cv.value))
        for mname, m in c.methods.items():
            if "type_string" in mname:
                doc = {id(st.value) for st in ast.walk(m.node) if isinstance(st, ast.Expr) and isinstance(st.value, ast.Constant)}
                for n in ast.walk(m.node):
                    if isinstance(n, ast.Constant) and isinstance(n.value, str) and id(n) not in doc:
                        out |= set(re.findall(r"(?<![\w.])[^\W\d]\w*", n.value))
    return frozenset(x for x in out if x.isidentifier())


_ID = re.compile(r"(?<![\w.])[^\W\d]\w*")  # identifiers not preceded by a dot (attribute names are not reads)


def snake_fixed_point(m: str, reserved: frozenset[str]) -> bool:
    """m can be the python_name of a document name in the default (snake-case) mode"""
    if not m.isidentifier() or m.startswith("_") or m != m.lower():
        return False
    if keyword.iskeyword(m) or m in reserved:
        return False
    body = m
    if m.endswith("_"):
        if not (m[:-1] in reserved or keyword.iskeyword(m[:-1])):
            return False
        body = m[:-1]
    return all(part for part in body.split("_"))


# The names a hole can hold, by what its root ranges over (frozen, one reason each): the fixed names the parser gives
FIXED_NAMES = {
    "response": ("response_200",),                      # response_from_data: name = f"response_{status_code}" (any status code)
    "body": ("body",),                                  # body_from_data: name="body"
    "additional": ("additional", "additional_property"),  # ANY_ADDITIONAL_PROPERTY / name="AdditionalProperty"
}


def name_language(root: str) -> tuple[str, int]:
    """(which names the root ranges over - a key of FIXED_NAMES, or "name": the document's own names -, how many item / member
    derivations follow)"""
    n_inner = len(re.findall(r"inner_propert", root))
    if re.search(r"response", root):
        return "response", n_inner
    if re.search(r"\bbod(y|ies)\b", root):
        return "body", n_inner
    if "additional_properties" in root:
        return "additional", n_inner
    return "name", n_inner


def could_be(root: str, m: str, reserved: frozenset[str], endpoint_reserved: set[str], template: str) -> bool:
    """Can a hole rooted at `root` hold the python name m ?"""
    kind, n_inner = name_language(root)
    for _ in range(n_inner):
        # list items are named <name>_item, union members <name>_type_<i> (ListProperty.build / UnionProperty.build)
        mm = re.fullmatch(r"(.+?)(_item|_type_\d+)", m)
        if not mm:
            return False
        m = mm.group(1)
    if kind == "response":
        return bool(re.fullmatch(r"response_\d+", m))
    if kind != "name":
        return m in FIXED_NAMES[kind]
    if not snake_fixed_point(m, reserved):
        return False
    if template.startswith("endpoint") and m in endpoint_reserved:
        return False  # renamed by Endpoint._check_parameters_for_conflicts
    return True


def producible(t: str, ev: Event, reserved: frozenset[str], endpoint_reserved: set[str], template: str) -> bool:
    pre, _, suf = ev.name.partition("\x00")
    if not (t.startswith(pre) and t.endswith(suf) and len(t) > len(pre) + len(suf)):
        return False
    m = t[len(pre):len(t) - len(suf)] if suf else t[len(pre):]
    return could_be(ev.root, m, reserved, endpoint_reserved, template)


def writer(site: str, tn: str) -> str:
    """Who writes a hole, as construct keys name it.  A hole is written either by the text of the analysed template tn or by a macro
    of another template that tn reaches (an import, the dispatch over the property templates): the other template's macro is named
    - it is the interface through which that text is obtained -, while everything tn writes itself is one writer: how a template
    divides its own text into local macros (one extracted, one inlined, renamed) is layout, like the private helpers of a function."""
    return f"{tn}::<top>" if site.split("::")[0] == tn else site


def _own_fixed_binds(sc: Scope, t: str) -> bool:
    return any((not e.hole) and e.kind in ("BIND", "PARAM") and e.name == t for e in sc.events)


def attributed_events(fn: Scope) -> list[Event]:
    """events of fn plus reads in nested functions that resolve to fn (not bound by template text in the nested scope)"""
    out = list(fn.events)

    def rec(g: Scope) -> None:
        for e in g.events:
            if e.kind == "READ":
                if not e.hole and _own_fixed_binds(g, e.name):
                    continue
                out.append(e)
        for ch in g.children:
            if ch.kind == "function":
                rec(ch)

    for ch in fn.children:
        if ch.kind == "function":
            rec(ch)
    out.sort(key=lambda e: e.pos)
    return out


class CanonWalker(SkelWalker):
    """The skeleton lays the branches of an `if` out one after the other, so which binding is the latest before a read depends on
    their order. `if not C: A else: B` and `if C: B else: A` are the same decision (as are `a != b` / `a == b` and `a not in b` /
    `a in b`): the branches are laid out in the order of the positive test, whichever way the template spells it."""

    # what the parser guarantees about the item of a list / the members of a union (`inner_property`, `inner_properties[*]`): they are
    # built with required=True (read from the build methods by `inner_properties_required`), so a test of `.required` on them is
    # decided - the branch for optional properties is never written for them
    inner_required = False

    def _const_test(self, test: Any, env: dict[str, Any]) -> "bool | None":  # type: ignore[override]
        from jinja2 import nodes

        got = SkelWalker._const_test(test, env)
        if got is not None or not self.inner_required:
            return got
        t, neg = (test.node, True) if isinstance(test, nodes.Not) else (test, False)
        if isinstance(t, nodes.Getattr) and t.attr == "required" and re.search(r"\.inner_propert(y|ies\[\*\])$", self.root_of(t.node, env)):
            return not neg
        return None

    @staticmethod
    def _positive(test: Any) -> "tuple[Any, bool]":
        """(the test stated positively, whether the given test is its negation)"""
        from jinja2 import nodes

        if isinstance(test, nodes.Not):
            t, neg = CanonWalker._positive(test.node)
            return t, not neg
        if isinstance(test, nodes.Compare) and len(test.ops) == 1 and test.ops[0].op in ("ne", "notin"):
            op = nodes.Operand({"ne": "eq", "notin": "in"}[test.ops[0].op], test.ops[0].expr, lineno=test.lineno)
            return nodes.Compare(test.expr, [op], lineno=test.lineno), True
        return test, False

    def stmt(self, n: Any, env: dict[str, Any], tname: str) -> None:
        from jinja2 import nodes

        if isinstance(n, nodes.If) and n.else_ and not n.elif_:
            test, neg = self._positive(n.test)
            if neg:
                n = nodes.If(test, n.else_, [], n.body, lineno=n.lineno)
        super().stmt(n, env, tname)

    def sym(self, e: Any, env: dict[str, Any], tname: str) -> Any:
        from jinja2 import nodes

        if isinstance(e, nodes.CondExpr) and e.expr2 is not None:
            test, neg = self._positive(e.test)
            if neg:
                e = nodes.CondExpr(test, e.expr2, e.expr1, lineno=e.lineno)
        return super().sym(e, env, tname)


def inner_properties_required(ix: Any) -> bool:
    """Every property that a property class with an `inner_property` / `inner_properties` field builds for that field (in `build` or
    the private helpers it delegates to) is built with the literal required=True."""
    n = 0
    for c in ix.property_classes():
        fields = ix.all_fields(c)
        if not ({"inner_property", "inner_properties"} & set(fields)):
            continue
        b = ix.find_method(c, "build")
        if b is None:
            return False
        calls = [k for g in region(ix, b) for k in ast.walk(g.node) if isinstance(k, ast.Call)
                 and norm(k.func).rsplit(".", 1)[-1] == "property_from_data"]
        if not calls:
            return False
        for k in calls:
            req = next((kw.value for kw in k.keywords if kw.arg == "required"), None)
            vals = [req]
            if isinstance(req, ast.Name):
                vals = [v for g in region(ix, b) for v in Locals(g.node).values_of(req.id)] or [req]
            if not all(isinstance(v, ast.Constant) and v.value is True for v in vals):
                return False
            n += 1
    return n > 0


def class_reads(rep: Report, sc: Scope, tn: str, path: str, reserved: frozenset[str], endpoint_reserved: set[str],
                module_names: set[str]) -> None:
    """Decided for the names the template text itself binds at module level (its imports, assignments and defs: the names it could
    protect by an alias); names that reach the class body through document-dependent import lines are not decided here."""
    holes = [e for e in sc.events if e.hole and e.kind in ("ATTRBIND", "BIND")]
    for t in sorted({e.name for e in sc.events if not e.hole and e.kind == "READ"} & module_names):
        hb = [h for h in holes if producible(t, h, reserved, endpoint_reserved, tn)]
        tb = [e for e in sc.events if not e.hole and e.kind in ("ATTRBIND", "BIND") and e.name == t]
        binds = sorted(hb + tb, key=lambda e: e.pos)
        found: dict[str, Event] = {}
        for r in sc.events:
            if r.kind == "READ" and not r.hole and r.name == t:
                prev = [b for b in binds if b.pos < r.pos]
                if prev and prev[-1].hole:
                    found.setdefault("class-body-reads-document-value", r)  # (no site in the key: which branch is laid out last is layout)
        base = f"{tn}::{path}::{t}"
        if not found:
            rep.ok("R18.1", f"{base}::class-body-read", f"`{t}`", "no document-named attribute is assigned before the read",
                   nontrivial=bool(hb))
        for kind, ev in sorted(found.items()):
            rep.fail("R18.1", f"{base}::{kind}",
                     f"a property named `{t}` is assigned in the class body before the template's own `{t}` is read there "
                     f"(e.g. skeleton line {ev.line}: `{ev.text}`): the class statement evaluates the document's value",
                     where=f"{PKG}/templates/{tn} (scope {path})", lhs=f"fixed name `{t}`", rhs="not producible, or read before any "
                     "document-named assignment", example=ev.text)


# ---- R18.3: the two spellings of a document name keep to their roles ------------------------------------------------------
CODE_KINDS = ("BIND", "READ", "PARAM", "ATTRBIND")


def spelling_roles(rep: Report, tn: str, scopes: "list[Scope]") -> tuple[int, int]:
    """Every document entity has two spellings: its own name (what is on the wire: dict keys, header / cookie / query names) and the
    Python identifier made from it (`python_name`, which the generator renames freely: reserved words, conflicts, prefixes).  A
    renaming changes only the identifier as long as the identifier is never written where data is written - inside a string
    literal - and the document's own name never where code is written.  Decided on the skeleton, so however the text reaches the
    line (inline, through `set`, concatenation, a helper macro, a call block)."""
    evs = [(sc, e) for sc in scopes for e in sc.events]
    sites = sorted({writer(e.site, tn) for _sc, e in evs if e.hole and e.site and e.kind in CODE_KINDS + ("STRHOLE",)})
    for site in sites:
        bad = [(sc, e) for sc, e in evs if e.kind == "STRHOLE" and writer(e.site, tn) == site]
        key = f"{tn}::{site}::identifier-in-string"
        if not bad:
            rep.ok("R18.3", key, f"python names written in {site}", "stand in code, never inside a string literal")
            continue
        sc, e = bad[0]
        rep.fail("R18.3", key, f"the Python identifier of a document name ({e.root}) is written inside a string literal of the generated "
                               f"code (scope {sc.path()}, skeleton line {e.line}: `{_show(e.text)}`): what the string holds - a key, a wire "
                               f"name - then changes whenever the generator renames the identifier",
                 where=f"{PKG}/templates/{site.split('::')[0]} ({site.split('::')[-1]})", lhs=e.root, rhs="inside string literals "
                 "the document's own name (`.name`)", example=_show(e.text))
    carriers = {e.root[:-len(".python_name")] for _sc, e in evs if e.hole and e.kind in CODE_KINDS + ("STRHOLE",)
                and e.root.endswith(".python_name")}
    raws = sorted({e.root for _sc, e in evs if e.kind in ("RAWCODE", "RAWSTR") and e.root.endswith(".name")
                   and e.root[:-len(".name")] in carriers})
    for raw in raws:
        bad = [(sc, e) for sc, e in evs if e.kind == "RAWCODE" and e.root == raw]
        key = f"{tn}::{raw}::raw-name-in-code"
        if not bad:
            rep.ok("R18.3", key, f"`{raw}`", "stands inside string literals only")
            continue
        sc, e = bad[0]
        rep.fail("R18.3", key, f"the document's own spelling of a name (`{raw}`) is written into code, outside every string literal (scope "
                               f"{sc.path()}, skeleton line {e.line}: `{_show(e.text)}`): no renaming protects it from the generated "
                               f"code's own names, keywords included",
                 where=f"{PKG}/templates/{tn} (scope {sc.path()})", lhs=raw, rhs="in code the identifier made from it (`.python_name`)",
                 example=_show(e.text))
    return len(sites), len(raws)


def _show(text: str) -> str:
    return re.sub("[\ue000\ue001]\\d+[\ue000\ue001]", "<..>", text)


# ---- R18.4: two document names, one identifier -------------------------------------------------------------------------------
def hole_class(e: Event) -> tuple[str, int, str]:
    """Holes of one class spell different document entities differently (names are unique within their name space, and one
    derivation with one affix keeps them so): only holes of different classes can spell two entities alike."""
    kind, n = name_language(e.root)
    return kind, n, e.name


def class_text(c: tuple[str, int, str]) -> str:
    kind, n, pat = c
    base = {"name": "<name>", "response": "response_<code>"}.get(kind) or FIXED_NAMES[kind][-1]
    pre, _, suf = pat.partition("\x00")
    return pre + base + ("(_item|_type_<i>)+" if n else "") + suf  # (how deep the items are nested is no part of the key)


def _base(e: Event) -> str:
    r = e.root
    k = r.find(".inner_propert")
    r = r[:k] if k >= 0 else r
    return r[:-len(".python_name")] if r.endswith(".python_name") else r


def _nested(a: str, b: str) -> bool:
    """one of the two lists of loop rounds continues the other (the same round of the loops they share)"""
    x, y = (a.split("/") if a else []), (b.split("/") if b else [])
    n = min(len(x), len(y))
    return x[:n] == y[:n]


def same_base(a: Event, b: Event) -> bool:
    """both holes are derived from one document entity (one object, the same round of the template loops): their spellings differ
    by construction"""
    return _base(a) == _base(b) and _nested(a.inst, b.inst)


def same_entity(a: Event, b: Event) -> bool:
    return a.root == b.root and a.name == b.name and _nested(a.inst, b.inst)


def witnesses(patterns: "set[str]") -> list[str]:
    """candidate spellings: a plain name and the fixed names of the other name spaces, under up to three of the derivations
    (item / member suffix, each affix written by the template)"""
    ops = [("", "_item"), ("", "_type_0")] + sorted(tuple(p.split("\x00", 1)) for p in patterns if "\x00" in p and p != "\x00")
    level = {"x"} | {t for ts in FIXED_NAMES.values() for t in ts}
    out = set(level)
    for _ in range(3):
        level = {pre + w + suf for w in level for pre, suf in ops} - out
        out |= level
    return sorted(out, key=lambda t: (len(t), t))


def collisions(sc: Scope, tn: str, path: str, reserved: frozenset[str], endpoint_reserved: set[str]) -> tuple[int, dict[str, list]]:
    """Within one generated function, two holes of different classes whose name languages overlap can be the same identifier for
    two different document entities (a property `a_item` and the items of a list `a`; a property `a_data` and the raw value of `a`).
    Harmful when a read through one class can come after a binding through the other with no binding of its own in between.
    -> (pairs of overlapping classes examined, verdict per construct key)"""
    binds = [e for e in sc.events if e.hole and e.kind in ("BIND", "PARAM")]
    reads = [e for e in sc.events if e.hole and e.kind == "READ"]

    def nested(g: Scope) -> None:
        # a read in a nested function is a read of this function's local unless the nested function binds that spelling itself
        own = {hole_class(e) for e in g.events if e.hole and e.kind in ("BIND", "PARAM")}
        reads.extend(e for e in g.events if e.hole and e.kind == "READ" and hole_class(e) not in own)
        for ch in g.children:
            if ch.kind == "function":
                nested(ch)

    for ch in sc.children:
        if ch.kind == "function":
            nested(ch)
    reads.sort(key=lambda e: e.pos)
    classes: dict[tuple[str, int, str], Event] = {}
    for e in binds + reads:
        classes.setdefault(hole_class(e), e)
    cands = witnesses({c[2] for c in classes})
    lang = {c: {t for t in cands if producible(t, rep_ev, reserved, endpoint_reserved, tn)} for c, rep_ev in classes.items()}
    n_pairs = 0
    verdicts: dict[str, list] = {}  # key -> [classes as text, example spelling, (binding, read) that shows the harm | None, parameters]
    for ca in sorted(classes):
        reads_a = [e for e in reads if hole_class(e) == ca]
        binds_a = [e for e in binds if hole_class(e) == ca]
        if not reads_a or not binds_a:
            continue
        first_a = min(e.pos for e in binds_a)
        for cb in sorted(classes):
            common = lang[ca] & lang[cb]
            binds_b = [e for e in binds if hole_class(e) == cb]
            if cb == ca or not common or not binds_b:
                continue
            n_pairs += 1
            t = min(common, key=lambda x: (len(x), x))
            v = verdicts.setdefault(f"{tn}::{path}::{class_text(ca)}~{class_text(cb)}", [(class_text(ca), class_text(cb)), t, None, None])
            for r in reads_a:
                prior = [b for b in binds_b if first_a < b.pos < r.pos and not same_base(b, r)]
                if not prior:
                    continue
                b = max(prior, key=lambda e: e.pos)
                if any(b.pos < a.pos < r.pos and same_entity(a, r) for a in binds_a):
                    continue
                if v[2] is None or len(t) < len(v[1]):
                    v[1], v[2] = t, (b, r)
                break
            pa = [e for e in binds_a if e.kind == "PARAM"]
            pb = [e for e in binds_b if e.kind == "PARAM"]
            if pa and pb and ca < cb and v[3] is None:
                v[3] = (pa[0], pb[0], t)
    return n_pairs, verdicts


def hole_collisions(rep: Report, sc: Scope, tn: str, path: str, reserved: frozenset[str], endpoint_reserved: set[str]) -> int:
    n_pairs, verdicts = collisions(sc, tn, path, reserved, endpoint_reserved)
    for base, ((ta, tb), t, harm, params) in sorted(verdicts.items()):
        if params is not None:
            rep.fail("R18.4", f"{base}::duplicate-parameter",
                     f"two document names can give one parameter name in {path} (e.g. `{params[2]}`)",
                     where=f"{PKG}/templates/{tn} (scope {path})", lhs=ta, rhs=tb, example=params[2])
        if harm is None:
            rep.ok("R18.4", base, f"{ta} / {tb} (e.g. `{t}`)", "no read through the first can follow a binding through the second "
                   "without a binding of its own in between")
            continue
        b, r = harm
        rep.fail("R18.4", f"{base}::document-value-clobbered",
                 f"in {path} a document name spelled {ta} and another one spelled {tb} can be the same identifier (e.g. `{t}`), and the "
                 f"value bound for the first is overwritten through the second before it is read (written in {b.site}, skeleton line "
                 f"{b.line}: `{_show(b.text)}` ... line {r.line}: `{_show(r.text)}`)",
                 where=f"{PKG}/templates/{tn} (scope {path})", lhs=f"{ta} = `{t}`", rhs="no other hole of the scope can spell it, or no "
                 "read of it follows the other's binding", example=_show(b.text))
    return n_pairs


# ---- R18.5: fields of a prepared format string ----------------------------------------------------------------------------------
def _callee(ix: Any, f: Any, c: ast.Call) -> Any:
    """the function of f's module (or a method of f's class) that the call names, if any"""
    last = (norm(c.func).rsplit(".", 1)[-1])
    hits = [h for h in ix.all_functions if h.name == last and h.module is f.module and h is not f]
    return hits[0] if len(hits) == 1 else None


def _bound_args(h: Any, c: ast.Call) -> dict[str, ast.AST]:
    names = [a.arg for a in [*h.node.args.posonlyargs, *h.node.args.args]]
    if h.cls is not None and names and names[0] in ("self", "cls"):
        names = names[1:]
    out: dict[str, ast.AST] = {n: a for n, a in zip(names, c.args)}
    out.update({k.arg: k.value for k in c.keywords if k.arg})
    return out


def depends_on(ix: Any, f: Any, e: ast.AST, hit: Any, args: "dict[str, tuple[Any, ast.AST, dict]] | None" = None, depth: int = 0) -> bool:
    """Does the value of expression e of function f depend - through locals (every binding of them), comprehensions, lambdas, the
    arguments it was called with (`args`: parameter -> (calling function, expression, its own args)) and the return values of the
    functions of the module that it calls - on a sub-expression for which hit(function, node, args) holds?  Flow-insensitive."""
    args = args or {}
    lc = Locals(f.node)
    seen: set[str] = set()
    work = [e]
    while work:
        x = work.pop()
        for n in ast.walk(x):
            if hit(f, n, args):
                return True
            if isinstance(n, ast.Name) and n.id not in seen:
                seen.add(n.id)
                work.extend(lc.values_of(n.id))
                if n.id in args and depth < 4:
                    g, a, ga = args[n.id]
                    if depends_on(ix, g, a, hit, ga, depth + 1):
                        return True
            if isinstance(n, ast.Call) and depth < 4:
                h = _callee(ix, f, n)
                if h is not None:
                    ha = {k: (f, v, args) for k, v in _bound_args(h, n).items()}
                    for r in ast.walk(h.node):
                        if isinstance(r, ast.Return) and r.value is not None and depends_on(ix, h, r.value, hit, ha, depth + 1):
                            return True
    return False


def python_name_of_members(ix: Any, coll: str) -> Any:
    """hit predicate: `<x>.python_name` where x is the variable of a loop / comprehension over something that depends on `<..>.coll`"""
    def over_coll(f: Any, n: ast.AST, args: dict) -> bool:
        return isinstance(n, ast.Attribute) and n.attr == coll

    def hit(f: Any, n: ast.AST, args: dict) -> bool:
        if not (isinstance(n, ast.Attribute) and n.attr == "python_name" and isinstance(n.value, ast.Name)):
            return False
        for kind, _st, it in Locals(f.node).defs.get(n.value.id, []):
            if kind.startswith("for") and it is not None and depends_on(ix, f, it, over_coll, args, 1):
                return True
        return False
    return hit


def format_fields(rep: Report, ix: Any, tn: str, scopes: "list[Scope]") -> int:
    """`"<prepared string>".format(<python_name of each member of a collection>=...)`: the fields of the prepared string have to be
    spelled exactly like the keywords, so whatever the generator does to an identifier (reserved words, conflicts between locations,
    prefixes) it has to do to the field - the string is written from the `python_name` of the members of that same collection."""
    sites: dict[tuple[str, str], tuple[Scope, Event]] = {}
    for sc in scopes:
        for e in sc.events:
            if e.kind == "FMTKW":
                sites.setdefault((e.ref, e.root), (sc, e))
    for (ref, root), (sc, e) in sorted(sites.items()):
        m1 = re.fullmatch(r"(\w+)\.(\w+)", ref)
        m2 = re.fullmatch(r"(\w+)\.(\w+)\[\*\]\.python_name", root)
        rep.require(m1 and m2 and m1.group(1) == m2.group(1), f"format string `{ref}` and keywords `{root}` of one template object")
        attr, coll = m1.group(2), m2.group(2)
        owners = [c for c in ix.classes.values() if attr in ix.all_fields(c) and coll in ix.all_fields(c)]
        rep.require(owners, f"a class with the fields {attr} and {coll}")
        hit = python_name_of_members(ix, coll)
        stores = []
        for c in owners:
            for f in ix.all_functions:
                if f.module is not c.module:
                    continue
                for n in ast.walk(f.node):
                    tg = n.targets if isinstance(n, ast.Assign) else [n.target] if isinstance(n, (ast.AnnAssign, ast.AugAssign)) else []
                    if any(isinstance(t, ast.Attribute) and t.attr == attr for t in tg) and getattr(n, "value", None) is not None:
                        stores.append((f, n))
        good = [(f, n) for f, n in stores if depends_on(ix, f, n.value, hit)]
        rep.check(bool(good), "R18.5", f"{tn}::{sc.path()}::{ref}.format({root})",
                  f"the generated code formats `{ref}` with the python names of `{m2.group(1)}.{coll}` as keywords (skeleton line {e.line}), "
                  f"but no store to `.{attr}` in {owners[0].module.rel} writes a value that depends on the `python_name` of the members of "
                  f"`.{coll}`: a field keeps a spelling that differs from the keyword whenever the generator renames the identifier",
                  where=f"{owners[0].module.rel} (stores to .{attr}: lines {sorted(n.lineno for _f, n in stores)})",
                  lhs=f"stores to .{attr}: {len(stores)}", rhs=f"one written from <member of .{coll}>.python_name")
    return len(sites)


def _strings_of(ix: Any, g: Any, e: ast.AST, lc: Locals, depth: int = 0) -> "list[str] | None":
    """The strings of a collection expression: a literal list / tuple / set of string constants or a dict with such keys (possibly
    wrapped in set() / frozenset() / tuple() / list()), or a local, module constant or class constant bound to one."""
    if isinstance(e, ast.Call) and norm(e.func) in ("set", "frozenset", "tuple", "list") and len(e.args) == 1 and not e.keywords:
        e = e.args[0]
    if isinstance(e, (ast.List, ast.Tuple, ast.Set)):
        if e.elts and all(isinstance(x, ast.Constant) and isinstance(x.value, str) for x in e.elts):
            return [x.value for x in e.elts]  # type: ignore[union-attr]
        return None
    if isinstance(e, ast.Dict):  # membership in a dict is membership in its keys
        if e.keys and all(isinstance(x, ast.Constant) and isinstance(x.value, str) for x in e.keys):
            return [x.value for x in e.keys]  # type: ignore[union-attr]
        return None
    if depth > 3:
        return None
    if isinstance(e, ast.Name):
        vals = lc.values_of(e.id)
        if vals:
            got = [_strings_of(ix, g, v, lc, depth + 1) for v in vals]
            return sorted({x for r in got for x in r}) if all(r is not None for r in got) else None  # type: ignore[union-attr]
        r = ix.resolve(g.module, e.id)
        if r and r[0] == "var":
            mod, n = r[1]
            return _strings_of(ix, g, mod.variables[n], Locals(ast.Module(body=[], type_ignores=[])), depth + 1)
    if isinstance(e, ast.Attribute) and isinstance(e.value, ast.Name) and g.cls is not None and \
            (e.value.id in ("self", "cls") or e.value.id == g.cls.name):
        cv = ix.find_classvar(g.cls, e.attr)
        if cv is not None:
            return _strings_of(ix, g, cv[1], Locals(ast.Module(body=[], type_ignores=[])), depth + 1)
    return None


# ---- R18.6: every property held by a model has had its identifier compared with the others' ------------------------------------
def _own(fn: ast.AST) -> "list[ast.AST]":
    """nodes of fn outside nested functions / classes"""
    out: list[ast.AST] = []
    stack = list(ast.iter_child_nodes(fn))
    while stack:
        n = stack.pop()
        out.append(n)
        if not isinstance(n, (ast.FunctionDef, ast.AsyncFunctionDef, ast.Lambda, ast.ClassDef)):
            stack.extend(ast.iter_child_nodes(n))
    return out


def _params(g: Any) -> "list[str]":
    a = g.node.args
    return [x.arg for x in [*a.posonlyargs, *a.args, *a.kwonlyargs]]


def identifier_uniqueness(rep: Report, ctx: Any, rid: str) -> int:
    """Two spellings that are normalised to one identifier (`fooBar` / `foo_bar`) are kept apart by a comparison of the identifiers of
    the properties of one model; a model in which it was skipped for one property declares an attribute twice, so whether the class
    works depends on how the document spells its names.  Necessary, whatever the shape of the code: every statement that puts a
    property into the mapping the model's properties are collected in comes, on every path, after the identifier (`python_name`) of
    THAT property - the object stored, not the definition it was merged from - was compared with the identifier of each property
    the mapping holds (a loop / comprehension over the mapping, in the storing function, in a helper it hands property and mapping
    to, or before each call of the storing function).  -> number of stores judged"""
    from ..astutil import anon, cfg_of, local_names, short, stmt_of, where

    ix = ctx.py
    pp = ix.func("model_property._process_properties")
    reg = region(ix, pp)
    funcs: list[Any] = list(reg)
    # ... their closures, and the methods of the private classes of the module that they instantiate (a collector object)
    for c in ix.classes.values():
        if c.module is pp.module and c.name.startswith("_") and any(isinstance(k, ast.Call) and norm(k.func) == c.name
                                                                     for g in reg for k in ast.walk(g.node)):
            funcs += [m for m in c.methods.values() if not any(m is g for g in funcs)]
    for h in ix.all_functions:
        q = h.parent
        while q is not None:
            if any(q is g for g in funcs) and not any(h is g for g in funcs):
                funcs.append(h)
            q = q.parent
    cfgs: dict = {}

    def calls_to(h: Any) -> "list[tuple[Any, ast.Call]]":
        return [(g, c) for g in funcs if g is not h for c in _own(g.node) if isinstance(c, ast.Call)
                and norm(c.func).rsplit(".", 1)[-1] == h.name]

    def stores_of(g: Any) -> "list[tuple[ast.stmt, ast.AST, ast.AST, ast.AST]]":
        """(statement, mapping, key, value) of the statements of g that put something into a mapping"""
        out = []
        for st in _own(g.node):
            if isinstance(st, (ast.Assign, ast.AnnAssign)) and getattr(st, "value", None) is not None:
                tg = st.targets if isinstance(st, ast.Assign) else [st.target]
                out += [(st, t.value, t.slice, st.value) for t in tg if isinstance(t, ast.Subscript)]
            elif isinstance(st, ast.Expr) and isinstance(st.value, ast.Call) and isinstance(st.value.func, ast.Attribute) \
                    and st.value.func.attr in ("setdefault", "__setitem__") and len(st.value.args) == 2:
                out.append((st, st.value.func.value, st.value.args[0], st.value.args[1]))
        return out

    # the mapping, by role: what a property is stored in under its own document name (`<m>[<p>.name] = <p>`), as the functions that
    # do so refer to it (a local that closures share, an attribute of the collector object); a helper that is handed it knows it by
    # a parameter
    shared = {norm(m) for g in funcs for _st, m, k, v in stores_of(g)
              if isinstance(v, ast.Name) and isinstance(k, ast.Attribute) and k.attr == "name" and isinstance(k.value, ast.Name) and k.value.id == v.id}
    rep.require(shared, "a statement that stores a property under its document name (`<mapping>[<p>.name] = <p>`) in _process_properties, "
                        "its closures and helpers")

    def mapping_names(g: Any, depth: int = 2) -> "set[str]":
        out = set(shared) - set(_params(g))
        if depth > 0:
            for h, c in calls_to(g):
                for prm, a in _bound_args(g, c).items():
                    if norm(a) in mapping_names(h, depth - 1):
                        out.add(prm)
        return out

    def sources(e: ast.AST, g: Any, depth: int = 0) -> "set[str]":
        """what the iterable e is drawn from: the names and attribute paths in it (through locals bound to views / copies)"""
        out = {norm(n) for n in ast.walk(e) if isinstance(n, (ast.Name, ast.Attribute))}
        if depth < 2:
            lc = Locals(g.node)
            for n in [x.id for x in ast.walk(e) if isinstance(x, ast.Name)]:
                for v in lc.values_of(n):
                    out |= sources(v, g, depth + 1)
        return out

    def compares(g: Any, nodes_: "list[ast.AST]", prop: str, depth: int = 1) -> bool:
        """among the nodes: a comparison of `<prop>.python_name` with another object's `.python_name` - or the call of a function of
        the region that makes one for the parameter prop is handed to"""
        for n in nodes_:
            for x in ast.walk(n):
                if isinstance(x, ast.Compare):
                    ids = [a for a in ast.walk(x) if isinstance(a, ast.Attribute) and a.attr == "python_name"]
                    if len(ids) >= 2 and any(isinstance(a.value, ast.Name) and a.value.id == prop for a in ids) \
                            and any(not (isinstance(a.value, ast.Name) and a.value.id == prop) for a in ids):
                        return True
                if isinstance(x, ast.Call) and depth > 0:
                    for h in funcs:
                        if h is not g and norm(x.func).rsplit(".", 1)[-1] == h.name:
                            for prm, a in _bound_args(h, x).items():
                                if isinstance(a, ast.Name) and a.id == prop and compares(h, [h.node], prm, depth - 1):
                                    return True
        return False

    def checks(g: Any, prop: str, depth: int = 1) -> "list[ast.stmt]":
        """the statements of g after which prop's identifier has been compared with that of everything the mapping holds"""
        out: list[ast.stmt] = []
        mp_ = mapping_names(g)
        for n in _own(g.node):
            if isinstance(n, (ast.For, ast.AsyncFor)) and sources(n.iter, g) & mp_ and compares(g, list(n.body), prop):
                out.append(n)
            elif isinstance(n, (ast.ListComp, ast.SetComp, ast.GeneratorExp, ast.DictComp)) and \
                    any(sources(c.iter, g) & mp_ for c in n.generators) and compares(g, [n], prop):
                st = stmt_of(g.node, n)
                if st is not None:
                    out.append(st)
            elif isinstance(n, ast.Call) and depth > 0:
                for h in funcs:
                    if h is g or norm(n.func).rsplit(".", 1)[-1] != h.name:
                        continue
                    for prm, a in _bound_args(h, n).items():
                        if isinstance(a, ast.Name) and a.id == prop and checks(h, prm, depth - 1):
                            st = stmt_of(g.node, n)
                            if st is not None:
                                out.append(st)
        return out

    def unchecked(g: Any, at: ast.stmt, prop: "str | None", depth: int = 1) -> "list[tuple[Any, ast.stmt]]":
        if prop is None:
            return [(g, at)]
        cfg = cfg_of(g, cfgs)
        if any(c is not at and cfg.is_dominated_by(at, lambda n, c=c: n is c) for c in checks(g, prop)):
            return []
        # the property comes in as a parameter and nothing rebinds it: compared before each call of this function
        sites = calls_to(g)
        if depth > 0 and g is not pp and prop in _params(g) and prop not in local_names(g.node) and sites:
            bad: list[tuple[Any, ast.stmt]] = []
            for h, c in sites:
                a = _bound_args(g, c).get(prop)
                st = stmt_of(h.node, c)
                bad += unchecked(h, st, a.id if isinstance(a, ast.Name) else None, depth - 1) if st is not None else [(h, c)]  # type: ignore[list-item]
            return bad
        return [(g, at)]

    n = 0
    for g in funcs:
        mp_ = mapping_names(g)
        for st, m, key, val in stores_of(g):
            if norm(m) not in mp_:
                continue
            n += 1
            bad = unchecked(g, st, val.id if isinstance(val, ast.Name) else None)  # type: ignore[arg-type]
            rep.check(not bad, rid, f"{short(g)}::identifier-compared-before-store[{anon(key, local_names(g.node)) if key is not None else ''}]",
                      "a property is put into the mapping of the model's properties on a path on which the identifier of the stored object "
                      "has not been compared with the identifiers of the properties held so far: a property whose definition is replaced "
                      "(merged, inherited, rebuilt) can take the identifier of a sibling that differs only in spelling - the class then "
                      "declares one attribute twice", where(*bad[0]) if bad else where(g, st),
                      lhs=[f"{h.name}: {norm(x)[:70]}" for h, x in bad] or norm(st)[:70],
                      rhs="dominated by a comparison of <stored>.python_name with the python_name of every property in the mapping")
    return n


# ---- R18.2: the reservation of the endpoint functions' own argument names -----------------------------------------------------
class NameTest:
    """a comparison of a value made from a document name with a table of strings"""

    def __init__(self, g: Any, node: ast.AST, strings: "list[str]", level: str) -> None:
        self.g, self.node, self.strings, self.level = g, node, sorted(set(strings)), level


_STR_METHODS = ("lower", "upper", "casefold", "strip", "lstrip", "rstrip", "removeprefix", "removesuffix", "replace", "title")


def name_level(ix: Any, g: Any, e: ast.AST, scope: "list[Any]", depth: int = 0) -> "set[str]":
    """Which spelling of a document name the value of expression e of g IS: "identifier" - the Python identifier made from it
    (`<x>.python_name`, a PythonIdentifier built on the spot) -, "spelling" - the document's own (`<x>.name`).  The value is followed
    through locals (every binding; the members of an unpacked tuple and the elements of a comprehension one by one), conditional
    expressions, str(), string methods that keep it a name, the return values of the functions of the module and, for a parameter
    of g, the arguments g is called with.  Anything else is no name: the empty set."""
    from .registries import callers_of

    if depth > 6:
        return set()
    if isinstance(e, ast.Attribute):
        return {"identifier"} if e.attr == "python_name" else {"spelling"} if e.attr == "name" else set()
    if isinstance(e, ast.IfExp):
        return name_level(ix, g, e.body, scope, depth + 1) | name_level(ix, g, e.orelse, scope, depth + 1)
    if isinstance(e, ast.NamedExpr):
        return name_level(ix, g, e.value, scope, depth + 1)
    if isinstance(e, ast.Call):
        last = norm(e.func).rsplit(".", 1)[-1]
        if last == "PythonIdentifier":
            return {"identifier"}
        if last == "str" and len(e.args) == 1:
            return name_level(ix, g, e.args[0], scope, depth + 1)
        if isinstance(e.func, ast.Attribute) and last in _STR_METHODS:
            return name_level(ix, g, e.func.value, scope, depth + 1)
        h = _callee(ix, g, e)
        out: set[str] = set()
        if h is not None:
            for r in ast.walk(h.node):
                if isinstance(r, ast.Return) and r.value is not None:
                    out |= name_level(ix, h, r.value, scope, depth + 1)
        return out
    if isinstance(e, ast.Name):
        out = set()
        for kind, _st, v in Locals(g.node).defs.get(e.id, []):
            if v is None:
                continue
            idx = [int(i) for i in re.findall(r"\[(\d+)\]", kind)]
            if kind.startswith("for"):
                v = v.elt if isinstance(v, (ast.GeneratorExp, ast.ListComp, ast.SetComp)) else None
            for i in idx:
                v = v.elts[i] if isinstance(v, (ast.Tuple, ast.List)) and i < len(v.elts) else None
            if v is not None and not kind.startswith(("aug", "with", "except")):
                out |= name_level(ix, g, v, scope, depth + 1)
        if e.id in {a.arg for a in g.params}:
            for h, call in callers_of(ix, g, scope):
                a = _bound_args(g, call).get(e.id)
                if a is not None:
                    out |= name_level(ix, h, a, scope, depth + 1)
        return out
    return set()


def _case_strings(p: ast.AST) -> "list[str] | None":
    if isinstance(p, ast.MatchValue) and isinstance(p.value, ast.Constant) and isinstance(p.value.value, str):
        return [p.value.value]
    if isinstance(p, ast.MatchOr):
        got = [_case_strings(q) for q in p.patterns]
        return [x for r in got for x in r] if all(r is not None for r in got) else None  # type: ignore[union-attr]
    return None


def name_tests(ix: Any, fns: "list[Any]") -> "list[NameTest]":
    """Every test, in the given functions, of a value made from a document name against strings written in the generator: `in` /
    `not in` a collection of strings (a literal, a local, a module or class constant; a dict counts by its keys), `==` / `!=` a
    string, a `match` on string cases - whatever the tested local is called and wherever the value was read."""
    out: list[NameTest] = []
    for g in fns:
        lc = Locals(g.node)
        for c in ast.walk(g.node):
            found: list[tuple[ast.AST, list[str]]] = []
            if isinstance(c, ast.Compare):
                left = c.left
                for op, right in zip(c.ops, c.comparators):
                    if isinstance(op, (ast.In, ast.NotIn)):
                        tbl = _strings_of(ix, g, right, lc)
                        if tbl:
                            found.append((left, tbl))
                    elif isinstance(op, (ast.Eq, ast.NotEq)):
                        for x, y in ((left, right), (right, left)):
                            if isinstance(y, ast.Constant) and isinstance(y.value, str) and not isinstance(x, ast.Constant):
                                found.append((x, [y.value]))
                    left = right
            elif isinstance(c, ast.Match):
                tbl = [s_ for k in c.cases for s_ in (_case_strings(k.pattern) or [])]
                if tbl:
                    found.append((c.subject, tbl))
            for x, tbl in found:
                levels = name_level(ix, g, x, fns)
                if levels:
                    # the identifier only if on every path: one path on which the document's spelling is tested decides
                    out.append(NameTest(g, c, tbl, "spelling" if "spelling" in levels else "identifier"))
    return out


def conflict_passes(ix: Any, f: Any, tests: "list[NameTest]") -> "list[tuple[Any, ast.For, list[NameTest], list[ast.AST]]]":
    """The passes over the parameters of an operation in which each one's identifier is tested against the reserved names, in f or
    the private helpers it delegates to: (function, loop, the tests made in one round of it, where in the function they are made).  A
    test made by a helper that has no such loop itself is made where the helper is called; the pass is the outermost loop of its
    function around such a place (in its body, or in what it iterates over)."""
    reg = region(ix, f)
    by_name = {g.name: g for g in reg}
    memo: dict[str, tuple[list, list]] = {}

    def look(g: Any, stack: tuple[str, ...]) -> tuple[list, list]:
        """(the places of g where tests are made, the outermost loops of g around such places)"""
        if g.qual in memo:
            return memo[g.qual]
        here: list[tuple[ast.AST, list[NameTest]]] = [(t.node, [t]) for t in tests if t.g is g]
        for c in ast.walk(g.node):
            h = by_name.get(norm(c.func).rsplit(".", 1)[-1]) if isinstance(c, ast.Call) else None
            if h is not None and h is not g and h.qual not in stack:
                places, own_loops = look(h, stack + (g.qual,))
                if places and not own_loops:
                    here.append((c, [t for _n, ts in places for t in ts]))
        loops = []
        for lp in ast.walk(g.node):
            if isinstance(lp, (ast.For, ast.AsyncFor)):
                inside = {id(n) for s_ in [lp.iter, *lp.body] for n in ast.walk(s_)}
                at = [(n, tl) for n, tl in here if id(n) in inside]
                if at:
                    loops.append((lp, [t for _n, tl in at for t in tl], [n for n, _tl in at]))
        outer = [x for x in loops if not any(o[0] is not x[0] and any(y is x[0] for y in ast.walk(o[0])) for o in loops)]
        memo[g.qual] = (here, outer)
        return memo[g.qual]

    return [(g, lp, ts, at) for g in reg for lp, ts, at in look(g, ())[1]]


def conflict_pass_rules(rep: Report, ctx: Any, rid: str, f: Any, passes: "list[tuple[Any, ast.For, list[NameTest], list[ast.AST]]]") -> None:
    """Conflict resolution of operation parameters ends in a re-check; reserved names are examined for every parameter.  The check is
    a pass over all parameters plus something that repeats the pass while it changed anything; pass and repetition may be one
    function (the pass calls itself again) or two (a driver loop around an extracted pass): every fact is stated over the region.
    (registries.check_param_conflicts, with the pass located by what is tested in it rather than by how the test is written.)"""
    from ..astutil import anon, cfg_of, error_names, local_names, returns_error, short, stmt_calls, where
    from .registries import _adds_into, _helpers_of, _own_rerun_sets, _passes_before, modification_sets

    ix = ctx.py
    cfgs: dict = {}
    g, loop, _tests, _at = passes[0]
    reg = region(ix, f)
    renames = [(h, s) for h in reg for s in cfg_of(h, cfgs).stmts() if stmt_calls(s, "set_python_name")]
    rep.floor("parameter_renames", len(renames), 2)
    mods = modification_sets(g, ix)
    rep.require(mods, "the set in which the parameter pass records its renames and which decides the re-run")
    helpers = _helpers_of(ix, g)
    cfg_g = cfg_of(g, cfgs)

    def records_in(h: Any, hmods: set[str]) -> Any:
        hh = _helpers_of(ix, h)
        return lambda n: isinstance(n, ast.stmt) and bool(_adds_into(h, n, hh) & hmods)

    for h, s in renames:
        # every path from the rename to the next parameter records the modification (which forces another pass)
        if h is g:
            ok = bool(_adds_into(g, s, helpers) & mods) or cfg_g.every_path_passes(s, loop, records_in(g, mods))
        else:
            # renamed inside a helper of the pass: recorded before the helper returns, or after each call of it in the pass
            hm = modification_sets(h, ix) if h is not f else set()
            ok = bool(hm) and cfg_of(h, cfgs).every_path_passes(s, "EXIT", records_in(h, hm))
            if not ok:
                at = [c for c in cfg_g.stmts() if stmt_calls(c, h.name)]
                ok = bool(at) and all(bool(_adds_into(g, c, helpers) & mods) or cfg_g.every_path_passes(c, loop, records_in(g, mods))
                                      for c in at)
        rep.check(ok, rid, f"{short(h)}::rename->{anon(s, local_names(h.node))[:60]}",
                  "a parameter is renamed but the change is not recorded in modified_params on every path: no re-check runs",
                  where(h, s), lhs=norm(s)[:80], rhs="followed by <modified set>.add on every path to the next iteration")
    # the pass is repeated: it calls the check again, or the check drives it from a loop whose continuation reads the recorded set
    recursive = [s for h in reg for s in cfg_of(h, cfgs).stmts() if stmt_calls(s, f.name)]
    driven = g is not f and any(isinstance(w, ast.While) and any(stmt_calls(s, g.name) for b in w.body for s in ast.walk(b) if isinstance(s, ast.stmt))
                                for w in ast.walk(f.node)) and bool(_own_rerun_sets(f))
    looped = g is f and any(isinstance(w, ast.While) and any(x is loop for b in w.body for x in ast.walk(b)) for w in ast.walk(f.node)) \
        and bool(_own_rerun_sets(f))
    rep.check(bool(recursive) or driven or looped, rid, f"{short(f)}::re-run", "the conflict check no longer re-runs itself after modifications",
              where(f, f.node), lhs="recursive call / driver loop", rhs="present")
    # no success without the pass: in the function holding the loop every return that is not an error comes after the loop; in the
    # check itself (when the pass was extracted) every such return comes after the call of the pass
    scopes: list[tuple[Any, Any]] = [(g, lambda n: n is loop)]
    if g is not f:
        scopes.append((f, lambda n: isinstance(n, ast.stmt) and bool(stmt_calls(n, g.name))))
    for h, is_pass in scopes:
        cfg_h = cfg_of(h, cfgs)
        herrs = error_names(h.node)
        for s in cfg_h.stmts():
            if isinstance(s, ast.Return) and not returns_error(s, herrs):
                ok = _passes_before(cfg_h, h.node, s, is_pass)
                rep.check(ok, rid, f"{short(h)}::success-return", "a success return is reachable without visiting the parameters "
                                                                   "(reserved names / collisions unchecked)", where(h, s),
                          lhs=norm(s)[:60], rhs="dominated by the loop over all parameters")


def naming_conflict_recheck(rep: Report, ctx: Any, rid: str) -> None:
    """naming conflict of model attributes: the raw-name fallback is followed by an equality re-check (registries.check_param_conflicts)"""
    from ..astutil import cfg_of, error_names, returns_error, short, stmt_calls, terminals, where
    from .registries import _single_assignments

    ix = ctx.py
    g2 = ix.func("model_property._resolve_naming_conflict")
    cfg2 = cfg_of(g2, {})
    sets = [s for s in cfg2.stmts() if stmt_calls(s, "set_python_name")]

    def names_equal(t: ast.expr) -> "bool | None":
        """value of test atom t when the two python names are (still) equal; None for any other test"""
        if isinstance(t, ast.Name) and t.id in _single_assignments(g2.node):
            t = _single_assignments(g2.node)[t.id]
        if isinstance(t, ast.Compare) and len(t.ops) == 1 and isinstance(t.ops[0], (ast.Eq, ast.NotEq)) and \
                all(isinstance(y, ast.Attribute) and y.attr == "python_name" for y in (t.left, t.comparators[0])):
            return isinstance(t.ops[0], ast.Eq)
        return None

    # after the raw-name fallback the two names are compared again, and while they are equal nothing but an error comes out:
    # evaluated over the paths (early return or nested, == or != with swapped branches, the comparison kept in a local first)
    after: set[object] = set()
    for s in sets:
        after |= cfg2.reachable_from(s)
    terms, falls = terminals(g2.node.body, names_equal)
    compared = any(names_equal(x) is not None for st in after if isinstance(st, ast.If) for x in ast.walk(st.test))
    ok = bool(sets) and compared and not falls and all(isinstance(t, ast.Raise) or returns_error(t, error_names(g2.node)) for t in terms if t in after)
    rep.check(ok, rid, f"{short(g2)}::re-check", "raw-name fallback is not followed by an equality test that returns an error",
              where(g2, g2.node), lhs="set_python_name(..., skip_snake_case=True) x2", rhs="then `if first.python_name == second.python_name: return PropertyError`")


def parameter_reservation(rep: Report, ctx: Any, rid: str, own_names: "set[str]") -> "set[str]":
    """The endpoint functions declare arguments of their own next to the document's parameters; a parameter whose identifier is one
    of them has to be renamed, and - since the conflict resolution renames parameters itself - examined again after every rename.
    Necessary: the names are tested on the IDENTIFIER (what is written into the signature: any document spelling that is normalised
    to the reserved word collides, and only those), in the pass that is repeated while anything was renamed.
    -> the identifiers no parameter can have in the default naming mode"""
    from ..astutil import cfg_of, short, stmt_of, where

    ix = ctx.py
    ecls = ix.cls("Endpoint")
    ep = ecls.methods.get("_check_parameters_for_conflicts")
    rep.require(ep, "Endpoint._check_parameters_for_conflicts")
    fns: list[Any] = []
    for m in ecls.methods.values():
        for g in region(ix, m):
            if g not in fns:
                fns.append(g)
    # a test of the identifier against strings inside the conflict check is a reservation whatever the strings are; any other test
    # of a name is looked at when it is about a name the endpoint functions bind themselves (`own_names`, read from the templates)
    check_region = region(ix, ep)
    tests = [t for t in name_tests(ix, fns) if (t.level == "identifier" and t.g in check_region) or set(t.strings) & own_names]
    rep.require(tests, "a test of parameter names against strings written in the generator (the reservation of the endpoint "
                       "functions' own argument names) in the methods of Endpoint and their helpers")
    passes = conflict_passes(ix, ep, [t for t in tests if t.level == "identifier"])
    rep.require(passes or not any(t.level == "identifier" and t.g in check_region for t in tests),
                "the loop over the parameters around the test of their identifiers against the reserved names in the conflict check")
    in_pass = {id(t) for _g, _lp, ts, _at in passes for t in ts}
    reserved = {s_ for t in tests if id(t) in in_pass for s_ in t.strings}
    for t in tests:
        ok = id(t) in in_pass or (set(t.strings) & own_names) <= reserved
        if t.level == "identifier":
            msg = (f"{t.strings} are reserved by a test of a parameter's identifier outside the pass over all parameters that is repeated "
                   f"after every rename: an identifier that the conflict resolution itself produces is not examined")
        else:
            msg = (f"{t.strings} are reserved by a test of the document's spelling of a parameter: only a parameter spelled exactly like "
                   f"the reserved word is renamed, every other spelling that is normalised to the same identifier keeps it and stands next "
                   f"to the endpoint function's own argument")
        rep.check(ok, rid, f"{short(t.g)}::reserved-names[{t.level}]", msg, where(t.g, t.node),
                  lhs=f"{norm(t.node)[:80]}", rhs="a test of <parameter>.python_name inside the repeated conflict pass covers these names")
    for g, lp, _ts, at in passes:
        # no parameter slips through a round unexamined: every path from the start of a round to the next one makes the test (a round
        # that ends in an error needs none; a test made in what the loop iterates over is made for every element)
        cfg = cfg_of(g, {})
        at_stmts = {id(stmt_of(g.node, n)) for n in at}
        ok = id(lp) in at_stmts or id(lp.body[0]) in at_stmts or cfg.every_path_passes(lp.body[0], lp, lambda n: id(n) in at_stmts)
        rep.check(ok, rid, f"{short(g)}::every-parameter-examined",
                  "a round of the pass over the parameters can reach the next parameter without having tested this one's identifier against "
                  "the reserved names: a parameter that takes that path keeps a reserved identifier", where(g, lp),
                  lhs="paths through one round of the loop", rhs="each passes the reserved-name test (or ends in an error)")
    if passes:
        conflict_pass_rules(rep, ctx, rid, ep, passes)
    else:
        rep.not_decided.append("R18.2: no pass over the parameters tests their identifiers against reserved names, so the facts stated over "
                               "that pass (renames recorded, pass repeated, no success without it) were not evaluated")
    naming_conflict_recheck(rep, ctx, rid)
    rep.indexed["reserved_name_tests"] = len(tests)
    return reserved if passes else {s_ for t in tests if t.level == "identifier" for s_ in t.strings}


def run(rep: Report, ctx: Any) -> str:
    ix = ctx.py
    ch = ctx.chars
    rep.rule("R18.1", "for no fixed (template-written) name t that a name hole can produce is the collision harmful: a template "
                      "read of t whose latest binding may be the document's, a document-name read whose latest binding is the "
                      "template's (clobbered), a duplicate parameter, a duplicate class attribute, or a class-body read of a name the "
                      "template binds at module level after a document-named attribute was assigned")
    rep.rule("R18.2", "the reserved-word renaming is applied on every path of both name constructors; the arguments the endpoint functions "
                      "declare themselves are kept from the parameters by a test of each parameter's IDENTIFIER (python_name, however "
                      "the value reaches the test: locals, helper parameters, module / class constants) - never of the document's "
                      "spelling - made on every path through a round of the pass over all parameters that is repeated while anything "
                      "was renamed; every rename is recorded, the pass is repeated, and no success return avoids it")
    rep.rule("R18.3", "the two spellings of a document name keep to their roles: the Python identifier made from it (`python_name`, which "
                      "the generator renames) is never written inside a string literal of the generated code - where keys and wire names "
                      "stand - and the document's own spelling (`name` of an object that has a `python_name`) never outside one")
    rep.rule("R18.4", "within one generated function no two holes of different classes (name space, item / member derivation, affix) "
                      "whose name languages overlap are used so that a read through one can follow a binding through the other with no "
                      "binding of its own entity in between (two document names, one local), and no two such holes are parameters")
    rep.rule("R18.5", "where the generated code formats a string that the generator prepared with the python names of the members of a "
                      "collection as keywords, some store to that string's attribute writes a value that depends on the `python_name` of "
                      "the members of the same collection (through locals, comprehensions, lambdas and helper functions of the module)")
    rep.rule("R18.6", "every statement that puts a property into the mapping in which _process_properties (its closures and private helpers) "
                      "collects the properties of a model is dominated by a comparison of the python_name of the very object stored with "
                      "the python_name of each property the mapping holds (a loop or comprehension over the mapping - in the storing "
                      "function, in a helper that is handed both, or before every call of the storing function)")
    reserved = ch.reserved_words(None)
    w = CanonWalker(ctx.jinja, type_idents(ix))
    w.inner_required = inner_properties_required(ix)
    rep.indexed["inner_properties_required"] = w.inner_required
    walked: dict[str, tuple[Scope, list[Scope]]] = {}
    for tn in TEMPLATES:
        rep.require(tn in ctx.jinja.templates, f"template {tn}")
        root = scan(w.walk_template(tn), tn)
        scopes: list[Scope] = []

        def collect(s: Scope) -> None:
            scopes.append(s)
            for c in s.children:
                collect(c)

        collect(root)
        walked[tn] = (root, scopes)
    # the names the endpoint functions bind themselves (arguments, locals): what a reservation of parameter names is about
    endpoint_own = {e.name for tn, (_r, scs) in walked.items() if tn.startswith("endpoint") for sc in scs if sc.kind == "function"
                    for e in sc.events if not e.hole and e.kind in ("BIND", "PARAM")}
    # the identifiers an operation keeps from its parameters (read from the tests the parser makes, wherever they are made); with the
    # facts about the conflict pass they are made in
    endpoint_reserved: set[str] = parameter_reservation(rep, ctx, "R18.2", endpoint_own)
    rep.indexed["reserved_words"] = len(reserved)
    rep.indexed["endpoint_reserved"] = sorted(endpoint_reserved)
    rep.assumptions += [
        "names reachable only through the raw-name collision fallback (mixed-case python names) are not enumerated: "
        "producibility is decided for the default snake-case mode",
        "loop bodies are unrolled twice, branches laid out in sequence, macro recursion cut at depth 1 (may-happen-after "
        "over-approximation of the template flow graph)",
    ]

    n_scopes = 0
    n_fixed = 0
    n_events = 0
    n_sites = n_raw = n_pairs = n_fmt = 0
    for tn in TEMPLATES:
        root, scopes = walked[tn]
        got = spelling_roles(rep, tn, scopes)
        n_sites += got[0]
        n_raw += got[1]
        n_fmt += format_fields(rep, ix, tn, scopes)
        seen_scope_names: dict[str, int] = {}
        for sc in scopes:
            n_events += len(sc.events)
            if sc.kind == "module":
                continue
            path = sc.path()
            seen_scope_names[path] = seen_scope_names.get(path, 0) + 1
            n_scopes += 1
            if sc.kind == "class":
                fixed = {e.name for e in sc.events if not e.hole and e.kind in ("ATTRBIND", "BIND")}
                holes = [e for e in sc.events if e.hole and e.kind in ("ATTRBIND", "BIND")]
                for t in sorted(fixed):
                    n_fixed += 1
                    hs = [h for h in holes if producible(t, h, reserved, endpoint_reserved, tn)]
                    key = f"{tn}::{path}::{t}::duplicate-attribute"
                    if hs:
                        rep.fail("R18.1", key, f"a property named `{t}` declares a class attribute that the template itself "
                                                f"defines ({hs[0].text})", where=f"{PKG}/templates/{tn} (skeleton line {hs[0].line})",
                                 lhs=f"template member `{t}`", rhs="not producible by a property name")
                    else:
                        rep.ok("R18.1", key, f"template member `{t}`", "not producible / no hole")
                # the class body is code too: a name the template reads there (decorator arguments, attribute defaults such as
                # `= field(...)`) after a document-named attribute was assigned refers to the document's value
                class_reads(rep, sc, tn, path, reserved, endpoint_reserved,
                            {e.name for e in root.events if not e.hole and e.kind == "BIND"})
                continue
            n_pairs += hole_collisions(rep, sc, tn, path, reserved, endpoint_reserved)
            evs = attributed_events(sc)
            fixed_names = sorted({e.name for e in evs if not e.hole})
            hole_binds = [e for e in sc.events if e.hole and e.kind in ("BIND", "PARAM")]
            for t in fixed_names:
                n_fixed += 1
                hb = [h for h in hole_binds if producible(t, h, reserved, endpoint_reserved, tn)]
                base = f"{tn}::{path}::{t}"
                if not hb:
                    rep.ok("R18.1", base, f"`{t}`", "no name hole of this scope can produce it", nontrivial=bool(hole_binds))
                    continue
                found: dict[str, Event] = {}
                tb = [e for e in sc.events if not e.hole and e.kind in ("BIND", "PARAM") and e.name == t]
                if any(e.kind == "PARAM" for e in tb) and any(h.kind == "PARAM" for h in hb):
                    h0 = next(h for h in hb if h.kind == "PARAM")
                    found[f"duplicate-parameter@{writer(h0.site, tn)}"] = h0
                binds = sorted(hb + tb, key=lambda e: e.pos)
                for r in evs:
                    if r.kind != "READ":
                        continue
                    if not r.hole and r.name == t:
                        prev = [b for b in binds if b.pos < r.pos]
                        if prev and prev[-1].hole:
                            found.setdefault(f"template-reads-document-value@{writer(prev[-1].site, tn)}", r)
                        elif not prev and not tb:
                            found.setdefault(f"unbound-or-shadowed-global@{writer(hb[0].site, tn)}", r)
                    elif r.hole and producible(t, r, reserved, endpoint_reserved, tn):
                        prev = [b for b in binds if b.pos < r.pos]
                        if prev and not prev[-1].hole and any(b.hole for b in prev):
                            found.setdefault(f"document-value-clobbered@{writer(r.site, tn)}", r)
                if not found:
                    rep.ok("R18.1", base, f"`{t}` producible", "collision harmless (no read sees the other side's binding)")
                for kind, ev in sorted(found.items()):
                    rep.fail("R18.1", f"{base}::{kind}",
                             f"a document name `{t}` collides harmfully with the template's own `{t}` in {path}: {kind.split('@')[0]} "
                             f"(e.g. skeleton line {ev.line}: `{ev.text}`)",
                             where=f"{PKG}/templates/{tn} (scope {path})", lhs=f"fixed name `{t}`",
                             rhs="not producible, or harmless", example=ev.text)
    rep.floor("generated_scopes", n_scopes, 12)
    rep.floor("fixed_names_checked", n_fixed, 185)
    rep.floor("skeleton_events", n_events, 7500)
    rep.floor("identifier_hole_sites", n_sites, 10)
    rep.floor("wire_name_roots", n_raw, 3)
    rep.floor("overlapping_hole_classes", n_pairs, 59)
    rep.floor("prepared_format_strings", n_fmt, 1)
    rep.floor("model_property_stores", identifier_uniqueness(rep, ctx, "R18.6"), 1)
    rep.indexed["skeleton_truncated_recursions"] = w.truncated

    # ---- R18.2 ---------------------------------------------------------------------------------------------------
    for cls_name, modes in (("PythonIdentifier", (False, True)), ("ClassName", (None,))):
        f = ix.func(f"{cls_name}.__new__")
        for mode in modes:
            args = {"value": ch.TOP, "prefix": ch.PREFIX, "cls": None}
            if mode is not None:
                args["skip_snake_case"] = mode
            _out, paths = ch.run_function(f, args)
            for p in paths:
                rep.check(bool(p.result.nokw), "R18.2", f"{cls_name}{'' if mode is None else ('[raw]' if mode else '[snake]')}::"
                          f"{'validated' if p.result.valid else 'prefixed'}-path",
                          "a return path of the name constructor does not pass through the reserved-word renaming",
                          where=f"{f.module.rel}:{p.line}", lhs=p.desc, rhs="passes fix_reserved_words")
    # positive control: a synthetic scope in which a hole binds a name the template reads afterwards
    from ..skelscan import scan_lines

    ctl = scan_lines(["def f(src):", "    d = dict(src)", "    \ue0000\ue000 = d.pop(1)", "    \ue0001\ue000 = d.pop(2)"], [],
                     [("property.python_name", "ctl"), ("property.python_name", "ctl")], "control")
    fsc = ctl.children[0]
    hb = [e for e in fsc.events if e.hole and e.kind == "BIND"]
    reads = [e for e in fsc.events if not e.hole and e.kind == "READ" and e.name == "d"]
    fired = bool(hb) and any(r.pos > hb[0].pos for r in reads) and producible("d", hb[0], reserved, endpoint_reserved, "model.py.jinja")
    rep.control("R18.1 d-capture", fired)
    # R18.3: a python name as a key, the document's own spelling as a local
    holes3 = [("p[*].python_name", "ctl", "1.1")]
    ctl = scan_lines(["def f(src):", "    out = {}", "    out[\"\ue0000\ue000\"] = \ue0010\ue001", "    \"\"\"\ue0000\ue000\"\"\""], [frozenset()],
                     holes3, "control", ["p[*].name"])
    kinds = [e.kind for e in ctl.children[0].events]
    rep.control("R18.3 identifier as key / raw name as code", kinds.count("STRHOLE") == 1 and kinds.count("RAWCODE") == 1)
    # R18.4: the raw value of one property kept in `<name>_data` between the binding and the read of another property's local
    holes4 = [("p[*].python_name", "ctl", "1.1"), ("p[*].python_name", "ctl", "1.2"), ("p[*].python_name", "ctl", "1.2"),
              ("p[*].python_name", "ctl", "2.1")]
    ctl = scan_lines(["def f(src):", "    \ue0000\ue000 = src.pop(1)", "    \ue0001\ue000_data = src.pop(2)",
                      "    \ue0002\ue000 = g(\ue0001\ue000_data)", "    return h(\ue0003\ue000)"], [], holes4, "control")
    _n, verdicts = collisions(ctl.children[0], "model.py.jinja", "f", reserved, endpoint_reserved)
    rep.control("R18.4 <name> / <name>_data", any(v[2] is not None for v in verdicts.values()))
    # R18.5: keywords of the format call on a prepared string
    ctl = scan_lines(["def f(\ue0000\ue000):", "    return \"\ue0010\ue001\".format(", "        \ue0000\ue000=\ue0000\ue000,", "    )"],
                     [frozenset()], [("e.items[*].python_name", "ctl", "1.1")], "control", ["e.text"])
    rep.control("R18.5 keyword of a prepared format string", [(e.ref, e.root) for e in ctl.children[0].events if e.kind == "FMTKW"]
                == [("e.text", "e.items[*].python_name")])
    rep.not_decided.append("class-body reads of names that are not bound by template text at module level (e.g. helpers imported through "
                           "a property's own import lines and called in an attribute default)")
    rep.not_decided.append("R18.4 follows the unrolled layout (two rounds of a top-level loop, one of a deeper one; item nesting as deep "
                           "as macro recursion is followed) and function scopes only: two document-named class attributes of different "
                           "classes are not compared")
    rep.not_decided.append("R18.3 reads string literals of the generated code as written: a key that the generated code computes at "
                           "run time is not followed; R18.5 asks for a store that depends on the members' python_name, not that every "
                           "path to the renderer passes through it, nor that the replaced text is the whole field")
    rep.not_decided.append("code printed by a macro that is reached through a template module imported inside a branch of a non-constant "
                           "`if` and called after it (the additional-properties `construct` call of from_dict): the call stays opaque "
                           "(SkelWalker.IMPORTS_SURVIVE_IF)")
    return LEVEL
