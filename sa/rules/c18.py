"""C18 - document names cannot capture the generated code's own names."""
from __future__ import annotations

import ast
import keyword
import re
from typing import Any

from ..astutil import Locals, norm, region, resolved_text
from ..core import PKG, Report
from ..skeleton import Event, Scope, SkelWalker, scan

LEVEL = ("def-use analysis on the template flow graph: each generated scope (class body, every def, nested defs) of "
         "model.py.jinja and endpoint_module.py.jinja is unrolled into a stream of BIND/READ events of (a) identifiers written "
         "by template text and (b) name holes filled from document-derived python names (with their affixes); for every fixed "
         "name that a hole can produce (statically evaluated reserved list, snake-case fixed points, per-root name languages) "
         "the collision must be harmless. For-all over names: the set of fixed names is read from the templates on every run.")

TEMPLATES = ("model.py.jinja", "endpoint_module.py.jinja")


def type_idents(ix: Any) -> frozenset[str]:
    """identifiers that type strings / defaults emitted by the Python model can mention"""
    out: set[str] = set()
    for c in ix.property_classes() + [ix.cls("PropertyProtocol")]:
        for nm in ("_type_string", "_json_type_string"):
            cv = c.classvars.get(nm)
            if isinstance(cv, ast.Constant) and isinstance(cv.value, str):
                out |= set(re.findall(r"(?<![\w.])[^\W\d]\w*", cv.value))
        for mname, m in c.methods.items():
            if "type_string" in mname:
                doc = {id(st.value) for st in ast.walk(m.node) if isinstance(st, ast.Expr) and isinstance(st.value, ast.Constant)}
                for n in ast.walk(m.node):
                    if isinstance(n, ast.Constant) and isinstance(n.value, str) and id(n) not in doc:
                        out |= set(re.findall(r"(?<![\w.])[^\W\d]\w*", n.value))
    return frozenset(x for x in out if x.isidentifier())


_ID = re.compile(r"(?<![\w.])[^\W\d]\w*")  # identifiers not preceded by a dot (attribute names are not reads)


def snake_fixed_point(m: str, reserved: frozenset[str]) -> bool:
    """m can be the python_name of a document name in the default (snake-case) mode"""
    if not m.isidentifier() or m.startswith("_") or m != m.lower():
        return False
    if keyword.iskeyword(m) or m in reserved:
        return False
    body = m
    if m.endswith("_"):
        if not (m[:-1] in reserved or keyword.iskeyword(m[:-1])):
            return False
        body = m[:-1]
    return all(part for part in body.split("_"))


def could_be(root: str, m: str, reserved: frozenset[str], endpoint_reserved: set[str], template: str) -> bool:
    """Can a hole rooted at `root` hold the python name m ?  (name languages per root; frozen, one reason each)"""
    n_inner = len(re.findall(r"inner_propert", root))
    for _ in range(n_inner):
        # list items are named <name>_item, union members <name>_type_<i> (ListProperty.build / UnionProperty.build)
        mm = re.fullmatch(r"(.+?)(_item|_type_\d+)", m)
        if not mm:
            return False
        m = mm.group(1)
    if re.search(r"response", root):
        return bool(re.fullmatch(r"response_\d+", m))  # response_from_data: name = f"response_{status_code}"
    if re.search(r"\bbod(y|ies)\b", root):
        return m == "body"  # body_from_data: name="body"
    if "additional_properties" in root:
        return m in ("additional", "additional_property")  # ANY_ADDITIONAL_PROPERTY / name="AdditionalProperty"
    if not snake_fixed_point(m, reserved):
        return False
    if template.startswith("endpoint") and m in endpoint_reserved:
        return False  # renamed by Endpoint._check_parameters_for_conflicts
    return True


def producible(t: str, ev: Event, reserved: frozenset[str], endpoint_reserved: set[str], template: str) -> bool:
    pre, _, suf = ev.name.partition("\x00")
    if not (t.startswith(pre) and t.endswith(suf) and len(t) > len(pre) + len(suf)):
        return False
    m = t[len(pre):len(t) - len(suf)] if suf else t[len(pre):]
    return could_be(ev.root, m, reserved, endpoint_reserved, template)


def _own_fixed_binds(sc: Scope, t: str) -> bool:
    return any((not e.hole) and e.kind in ("BIND", "PARAM") and e.name == t for e in sc.events)


def attributed_events(fn: Scope) -> list[Event]:
    """events of fn plus reads in nested functions that resolve to fn (not bound by template text in the nested scope)"""
    out = list(fn.events)

    def rec(g: Scope) -> None:
        for e in g.events:
            if e.kind == "READ":
                if not e.hole and _own_fixed_binds(g, e.name):
                    continue
                out.append(e)
        for ch in g.children:
            if ch.kind == "function":
                rec(ch)

    for ch in fn.children:
        if ch.kind == "function":
            rec(ch)
    out.sort(key=lambda e: e.pos)
    return out


class CanonWalker(SkelWalker):
    """The skeleton lays the branches of an `if` out one after the other, so which binding is the latest before a read depends on
    their order. `if not C: A else: B` and `if C: B else: A` are the same decision (as are `a != b` / `a == b` and `a not in b` /
    `a in b`): the branches are laid out in the order of the positive test, whichever way the template spells it."""

    @staticmethod
    def _positive(test: Any) -> "tuple[Any, bool]":
        """(the test stated positively, whether the given test is its negation)"""
        from jinja2 import nodes

        if isinstance(test, nodes.Not):
            t, neg = CanonWalker._positive(test.node)
            return t, not neg
        if isinstance(test, nodes.Compare) and len(test.ops) == 1 and test.ops[0].op in ("ne", "notin"):
            op = nodes.Operand({"ne": "eq", "notin": "in"}[test.ops[0].op], test.ops[0].expr, lineno=test.lineno)
            return nodes.Compare(test.expr, [op], lineno=test.lineno), True
        return test, False

    def stmt(self, n: Any, env: dict[str, Any], tname: str) -> None:
        from jinja2 import nodes

        if isinstance(n, nodes.If) and n.else_ and not n.elif_:
            test, neg = self._positive(n.test)
            if neg:
                n = nodes.If(test, n.else_, [], n.body, lineno=n.lineno)
        super().stmt(n, env, tname)

    def sym(self, e: Any, env: dict[str, Any], tname: str) -> Any:
        from jinja2 import nodes

        if isinstance(e, nodes.CondExpr) and e.expr2 is not None:
            test, neg = self._positive(e.test)
            if neg:
                e = nodes.CondExpr(test, e.expr2, e.expr1, lineno=e.lineno)
        return super().sym(e, env, tname)


def class_reads(rep: Report, sc: Scope, tn: str, path: str, reserved: frozenset[str], endpoint_reserved: set[str],
                module_names: set[str]) -> None:
    """Decided for the names the template text itself binds at module level (its imports, assignments and defs: the names it could
    protect by an alias); names that reach the class body through document-dependent import lines are not decided here."""
    holes = [e for e in sc.events if e.hole and e.kind in ("ATTRBIND", "BIND")]
    for t in sorted({e.name for e in sc.events if not e.hole and e.kind == "READ"} & module_names):
        hb = [h for h in holes if producible(t, h, reserved, endpoint_reserved, tn)]
        tb = [e for e in sc.events if not e.hole and e.kind in ("ATTRBIND", "BIND") and e.name == t]
        binds = sorted(hb + tb, key=lambda e: e.pos)
        found: dict[str, Event] = {}
        for r in sc.events:
            if r.kind == "READ" and not r.hole and r.name == t:
                prev = [b for b in binds if b.pos < r.pos]
                if prev and prev[-1].hole:
                    found.setdefault("class-body-reads-document-value", r)  # (no site in the key: which branch is laid out last is layout)
        base = f"{tn}::{path}::{t}"
        if not found:
            rep.ok("R18.1", f"{base}::class-body-read", f"`{t}`", "no document-named attribute is assigned before the read",
                   nontrivial=bool(hb))
        for kind, ev in sorted(found.items()):
            rep.fail("R18.1", f"{base}::{kind}",
                     f"a property named `{t}` is assigned in the class body before the template's own `{t}` is read there "
                     f"(e.g. skeleton line {ev.line}: `{ev.text}`): the class statement evaluates the document's value",
                     where=f"{PKG}/templates/{tn} (scope {path})", lhs=f"fixed name `{t}`", rhs="not producible, or read before any "
                     "document-named assignment", example=ev.text)


def _strings_of(ix: Any, g: Any, e: ast.AST, lc: Locals, depth: int = 0) -> "list[str] | None":
    """The strings of a collection expression: a literal list / tuple / set of string constants (possibly wrapped in set() /
    frozenset() / tuple() / list()), or a local, module constant or class constant bound to one."""
    if isinstance(e, ast.Call) and norm(e.func) in ("set", "frozenset", "tuple", "list") and len(e.args) == 1 and not e.keywords:
        e = e.args[0]
    if isinstance(e, (ast.List, ast.Tuple, ast.Set)):
        if e.elts and all(isinstance(x, ast.Constant) and isinstance(x.value, str) for x in e.elts):
            return [x.value for x in e.elts]  # type: ignore[union-attr]
        return None
    if depth > 3:
        return None
    if isinstance(e, ast.Name):
        vals = lc.values_of(e.id)
        if vals:
            got = [_strings_of(ix, g, v, lc, depth + 1) for v in vals]
            return sorted({x for r in got for x in r}) if all(r is not None for r in got) else None  # type: ignore[union-attr]
        r = ix.resolve(g.module, e.id)
        if r and r[0] == "var":
            mod, n = r[1]
            return _strings_of(ix, g, mod.variables[n], Locals(ast.Module(body=[], type_ignores=[])), depth + 1)
    if isinstance(e, ast.Attribute) and isinstance(e.value, ast.Name) and g.cls is not None and \
            (e.value.id in ("self", "cls") or e.value.id == g.cls.name):
        cv = ix.find_classvar(g.cls, e.attr)
        if cv is not None:
            return _strings_of(ix, g, cv[1], Locals(ast.Module(body=[], type_ignores=[])), depth + 1)
    return None


def reserved_parameter_names(ix: Any, f: Any) -> set[str]:
    """The strings a parameter's python_name is compared with (`in` a collection of strings, `==` a string) in f or the private
    helpers it delegates to - however the collection is held and whatever the tested local is called."""
    out: set[str] = set()
    for g in region(ix, f):
        lc = Locals(g.node)

        def is_name(e: ast.AST) -> bool:
            return any(t.strip().endswith(".python_name") for t in resolved_text(e, g.node).split(" <- "))

        for c in ast.walk(g.node):
            if not isinstance(c, ast.Compare):
                continue
            left = c.left
            for op, right in zip(c.ops, c.comparators):
                if isinstance(op, (ast.In, ast.NotIn)) and is_name(left):
                    out |= set(_strings_of(ix, g, right, lc) or [])
                elif isinstance(op, (ast.Eq, ast.NotEq)):
                    for a, b in ((left, right), (right, left)):
                        if is_name(a) and isinstance(b, ast.Constant) and isinstance(b.value, str):
                            out.add(b.value)
                left = right
    return out


def run(rep: Report, ctx: Any) -> str:
    ix = ctx.py
    ch = ctx.chars
    rep.rule("R18.1", "for no fixed (template-written) name t that a name hole can produce is the collision harmful: a template "
                      "read of t whose latest binding may be the document's, a document-name read whose latest binding is the "
                      "template's (clobbered), a duplicate parameter, a duplicate class attribute, or a class-body read of a name the "
                      "template binds at module level after a document-named attribute was assigned")
    rep.rule("R18.2", "the reserved-word renaming is applied on every path of both name constructors and the operation-parameter "
                      "reservation exists")
    reserved = ch.reserved_words(None)
    # reserved parameter names of operations, read from the AST
    ep = ix.cls("Endpoint").methods.get("_check_parameters_for_conflicts")
    rep.require(ep, "Endpoint._check_parameters_for_conflicts")
    # the names it reserves (any spelling, wherever the parameter pass lives - the method or the private helpers it delegates to):
    # the strings every parameter's python_name is tested against
    from .registries import endpoint_reserved_names

    endpoint_reserved: set[str] = set(endpoint_reserved_names(ix)) or reserved_parameter_names(ix, ep)
    rep.require(endpoint_reserved, "reserved parameter names (strings a python_name is tested against) in _check_parameters_for_conflicts")
    rep.indexed["reserved_words"] = len(reserved)
    rep.indexed["endpoint_reserved"] = sorted(endpoint_reserved)
    rep.assumptions += [
        "names reachable only through the raw-name collision fallback (mixed-case python names) are not enumerated: "
        "producibility is decided for the default snake-case mode",
        "loop bodies are unrolled twice, branches laid out in sequence, macro recursion cut at depth 1 (may-happen-after "
        "over-approximation of the template flow graph)",
    ]

    w = CanonWalker(ctx.jinja, type_idents(ix))
    n_scopes = 0
    n_fixed = 0
    n_events = 0
    for tn in TEMPLATES:
        rep.require(tn in ctx.jinja.templates, f"template {tn}")
        items = w.walk_template(tn)
        root = scan(items, tn)
        scopes: list[Scope] = []

        def collect(s: Scope) -> None:
            scopes.append(s)
            for c in s.children:
                collect(c)

        collect(root)
        seen_scope_names: dict[str, int] = {}
        for sc in scopes:
            n_events += len(sc.events)
            if sc.kind == "module":
                continue
            path = sc.path()
            seen_scope_names[path] = seen_scope_names.get(path, 0) + 1
            n_scopes += 1
            if sc.kind == "class":
                fixed = {e.name for e in sc.events if not e.hole and e.kind in ("ATTRBIND", "BIND")}
                holes = [e for e in sc.events if e.hole and e.kind in ("ATTRBIND", "BIND")]
                for t in sorted(fixed):
                    n_fixed += 1
                    hs = [h for h in holes if producible(t, h, reserved, endpoint_reserved, tn)]
                    key = f"{tn}::{path}::{t}::duplicate-attribute"
                    if hs:
                        rep.fail("R18.1", key, f"a property named `{t}` declares a class attribute that the template itself "
                                                f"defines ({hs[0].text})", where=f"{PKG}/templates/{tn} (skeleton line {hs[0].line})",
                                 lhs=f"template member `{t}`", rhs="not producible by a property name")
                    else:
                        rep.ok("R18.1", key, f"template member `{t}`", "not producible / no hole")
                # the class body is code too: a name the template reads there (decorator arguments, attribute defaults such as
                # `= field(...)`) after a document-named attribute was assigned refers to the document's value
                class_reads(rep, sc, tn, path, reserved, endpoint_reserved,
                            {e.name for e in root.events if not e.hole and e.kind == "BIND"})
                continue
            evs = attributed_events(sc)
            fixed_names = sorted({e.name for e in evs if not e.hole})
            hole_binds = [e for e in sc.events if e.hole and e.kind in ("BIND", "PARAM")]
            for t in fixed_names:
                n_fixed += 1
                hb = [h for h in hole_binds if producible(t, h, reserved, endpoint_reserved, tn)]
                base = f"{tn}::{path}::{t}"
                if not hb:
                    rep.ok("R18.1", base, f"`{t}`", "no name hole of this scope can produce it", nontrivial=bool(hole_binds))
                    continue
                found: dict[str, Event] = {}
                tb = [e for e in sc.events if not e.hole and e.kind in ("BIND", "PARAM") and e.name == t]
                if any(e.kind == "PARAM" for e in tb) and any(h.kind == "PARAM" for h in hb):
                    h0 = next(h for h in hb if h.kind == "PARAM")
                    found[f"duplicate-parameter@{h0.site}"] = h0
                binds = sorted(hb + tb, key=lambda e: e.pos)
                for r in evs:
                    if r.kind != "READ":
                        continue
                    if not r.hole and r.name == t:
                        prev = [b for b in binds if b.pos < r.pos]
                        if prev and prev[-1].hole:
                            found.setdefault(f"template-reads-document-value@{prev[-1].site}", r)
                        elif not prev and not tb:
                            found.setdefault(f"unbound-or-shadowed-global@{hb[0].site}", r)
                    elif r.hole and producible(t, r, reserved, endpoint_reserved, tn):
                        prev = [b for b in binds if b.pos < r.pos]
                        if prev and not prev[-1].hole and any(b.hole for b in prev):
                            found.setdefault(f"document-value-clobbered@{r.site}", r)
                if not found:
                    rep.ok("R18.1", base, f"`{t}` producible", "collision harmless (no read sees the other side's binding)")
                for kind, ev in sorted(found.items()):
                    rep.fail("R18.1", f"{base}::{kind}",
                             f"a document name `{t}` collides harmfully with the template's own `{t}` in {path}: {kind.split('@')[0]} "
                             f"(e.g. skeleton line {ev.line}: `{ev.text}`)",
                             where=f"{PKG}/templates/{tn} (scope {path})", lhs=f"fixed name `{t}`",
                             rhs="not producible, or harmless", example=ev.text)
    rep.floor("generated_scopes", n_scopes, 12)
    rep.floor("fixed_names_checked", n_fixed, 185)
    rep.floor("skeleton_events", n_events, 19000)
    rep.indexed["skeleton_truncated_recursions"] = w.truncated

    # ---- R18.2 ---------------------------------------------------------------------------------------------------
    for cls_name, modes in (("PythonIdentifier", (False, True)), ("ClassName", (None,))):
        f = ix.func(f"{cls_name}.__new__")
        for mode in modes:
            args = {"value": ch.TOP, "prefix": ch.PREFIX, "cls": None}
            if mode is not None:
                args["skip_snake_case"] = mode
            _out, paths = ch.run_function(f, args)
            for p in paths:
                rep.check(bool(p.result.nokw), "R18.2", f"{cls_name}{'' if mode is None else ('[raw]' if mode else '[snake]')}::"
                          f"{'validated' if p.result.valid else 'prefixed'}-path",
                          "a return path of the name constructor does not pass through the reserved-word renaming",
                          where=f"{f.module.rel}:{p.line}", lhs=p.desc, rhs="passes fix_reserved_words")
    from .registries import check_param_conflicts

    check_param_conflicts(rep, ctx, "R18.2")
    # positive control: a synthetic scope in which a hole binds a name the template reads afterwards
    from ..skelscan import scan_lines

    ctl = scan_lines(["def f(src):", "    d = dict(src)", "    \ue0000\ue000 = d.pop(1)", "    \ue0001\ue000 = d.pop(2)"], [],
                     [("property.python_name", "ctl"), ("property.python_name", "ctl")], "control")
    fsc = ctl.children[0]
    hb = [e for e in fsc.events if e.hole and e.kind == "BIND"]
    reads = [e for e in fsc.events if not e.hole and e.kind == "READ" and e.name == "d"]
    fired = bool(hb) and any(r.pos > hb[0].pos for r in reads) and producible("d", hb[0], reserved, endpoint_reserved, "model.py.jinja")
    rep.control("R18.1 d-capture", fired)
    rep.not_decided.append("class-body reads of names that are not bound by template text at module level (e.g. helpers imported through "
                           "a property's own import lines and called in an attribute default)")
    rep.not_decided.append("hole-versus-hole collisions between affixed names (e.g. list `a` and a property `a_item_data`)")
    rep.not_decided.append("code printed by a macro that is reached through a template module imported inside a branch of a non-constant "
                           "`if` and called after it (the additional-properties `construct` call of from_dict): the call stays opaque "
                           "(SkelWalker.IMPORTS_SURVIVE_IF)")
    return LEVEL
