"""C04 (R04.14) - what is decoded for a document is a function of the document and the configuration of this run: no function the
response parser reaches keeps a result in an object that outlives the call.

Static: reads the functions' ASTs; nothing of the repository is imported or run."""
from __future__ import annotations

import ast
from typing import Any, Iterator

from ..astutil import Locals, call_name, calls_in, local_names, names_in, norm

# methods that change the object they are called on (dict / list / set / deque)
MUTATORS = frozenset("append extend insert add update setdefault pop popitem clear remove discard sort reverse appendleft extendleft "
                     "__setitem__ __delitem__ difference_update intersection_update symmetric_difference_update".split())


def reached(ix: Any, entries: list) -> list:
    """The functions of the package a call from one of `entries` may run, transitively: a plain or dotted name is resolved (function,
    class -> its methods that run at construction); a method call whose receiver cannot be resolved reaches every method of the
    package with that name (an over-approximation: nothing that runs is left out because of how a receiver is spelled).  Functions
    nested in a reached function are reached."""
    by_name: dict[str, list] = {}
    for f in ix.all_functions:
        by_name.setdefault(f.name, []).append(f)
    seen: dict[str, Any] = {}
    todo = list(entries)
    while todo:
        f = todo.pop()
        if f.qual in seen:
            continue
        seen[f.qual] = f
        todo += [g for g in ix.all_functions if g.parent is not None and g.parent.qual == f.qual]
        for c in calls_in(f.node):
            cn = call_name(c)
            if not cn:
                continue
            r = None
            try:
                r = ix.resolve(f.module, cn)
            except Exception:  # noqa: BLE001 - an unresolvable name is handled below
                r = None
            if r is not None and r[0] == "func":
                todo.append(r[1])
                continue
            if r is not None and r[0] == "class":
                todo += [m for k in ix.mro(r[1]) for nm, m in k.methods.items() if nm in ("__init__", "__new__", "__post_init__", "__attrs_post_init__")]
                continue
            if r is not None and r[0] == "ext":
                continue
            last = cn.rsplit(".", 1)[-1]
            if "." in cn:
                todo += [g for g in by_name.get(last, []) if g.cls is not None]
            else:
                todo += [g for g in by_name.get(last, []) if g.parent is not None and g.parent.qual == f.qual]
    return list(seen.values())


def _params(fn: ast.AST) -> list[str]:
    a = fn.args
    return [x.arg for x in [*a.posonlyargs, *a.args, *a.kwonlyargs]] + ([a.vararg.arg] if a.vararg else []) + ([a.kwarg.arg] if a.kwarg else [])


def _root(e: ast.AST) -> "tuple[ast.AST, bool]":
    """(the expression an attribute / subscript chain starts from, the chain has at least one link)"""
    linked = False
    while isinstance(e, (ast.Attribute, ast.Subscript)):
        e = e.value
        linked = True
    return e, linked


def _targets(t: ast.AST) -> Iterator[ast.AST]:
    if isinstance(t, (ast.Tuple, ast.List)):
        for x in t.elts:
            yield from _targets(x)
    elif isinstance(t, ast.Starred):
        yield from _targets(t.value)
    else:
        yield t


def process_writes(f: Any) -> "list[tuple[ast.AST, str, ast.AST | None]]":
    """(node, text of the object written, key or None) for every write in f to an object that is not created by this call of f (or of
    the function f is nested in): the root of the written attribute / subscript chain, or the receiver of a mutating method, is a
    name f does not bind - a module-level variable, a class, a function, a module - or `cls` in a classmethod, or a parameter whose
    default is a mutable display (one object for all calls); and every binding of a name f declares `global`.  key: the write is
    `T[key] = v` / `T.setdefault(key, v)` - an entry of a table."""
    fn = f.node
    own: set[str] = set()
    g = f
    while g is not None:
        own |= local_names(g.node) | set(_params(g.node))
        g = g.parent
    for sub in ast.walk(fn):
        if isinstance(sub, (ast.FunctionDef, ast.AsyncFunctionDef, ast.Lambda)) and sub is not fn:
            own |= set(_params(sub))
    declared = {n for st in ast.walk(fn) if isinstance(st, ast.Global) for n in st.names}
    own -= declared
    a = fn.args
    pos = [*a.posonlyargs, *a.args]
    shared_defaults = {p.arg for p, d in list(zip(pos[len(pos) - len(a.defaults):], a.defaults)) + [(p, d) for p, d in zip(a.kwonlyargs, a.kw_defaults) if d is not None]
                       if isinstance(d, (ast.Dict, ast.List, ast.Set)) or (isinstance(d, ast.Call) and call_name(d) in ("dict", "list", "set", "defaultdict", "collections.defaultdict"))}
    class_state = {_params(fn)[0]} if getattr(f, "kind", "") == "classmethod" and _params(fn) else set()

    def outlives(e: ast.AST) -> bool:
        r, linked = _root(e)
        if not isinstance(r, ast.Name):
            return False   # the result of a call, a literal: an object of this call (or unknown)
        if r.id in class_state:
            return linked
        if r.id in shared_defaults:
            return True
        return r.id not in own

    out: list[tuple[ast.AST, str, ast.AST | None]] = []
    for n in ast.walk(fn):
        tgts: list[ast.AST] = []
        if isinstance(n, ast.Assign):
            tgts = [x for t in n.targets for x in _targets(t)]
        elif isinstance(n, (ast.AnnAssign, ast.AugAssign)):
            tgts = list(_targets(n.target))
        elif isinstance(n, ast.Delete):
            tgts = [x for t in n.targets for x in _targets(t)]
        elif isinstance(n, (ast.For, ast.AsyncFor, ast.comprehension)):
            tgts = list(_targets(n.target))
        elif isinstance(n, ast.NamedExpr):
            tgts = [n.target]
        for t in tgts:
            if isinstance(t, ast.Name):
                if t.id in declared:
                    out.append((n, t.id, None))
            elif isinstance(t, (ast.Attribute, ast.Subscript)) and outlives(t):
                key = t.slice if isinstance(t, ast.Subscript) and isinstance(n, (ast.Assign, ast.AnnAssign)) else None
                out.append((n, norm(t.value), key))
        if isinstance(n, ast.Call) and isinstance(n.func, ast.Attribute) and n.func.attr in MUTATORS and outlives(n.func.value) \
                and (isinstance(_root(n.func.value)[0], ast.Name)):
            r, _ = _root(n.func.value)
            # a method of that name called on a module / class of the package is a call, not a container being changed
            key = n.args[0] if n.func.attr == "setdefault" and n.args else None
            out.append((n, norm(n.func.value), key))
    return out


def key_covers_inputs(f: Any, key: ast.AST) -> "list[str]":
    """the parameters f reads that the key of a table entry does not name (locals in the key followed to what they are bound from):
    an entry found again under a key that leaves out an input is the result for another input"""
    fn = f.node
    lc = Locals(fn)
    named: set[str] = set()
    params = set(_params(fn))
    frontier = names_in(key)
    for _ in range(4):
        nxt: set[str] = set()
        for nm in frontier - named:
            named.add(nm)
            if nm in params:
                continue   # a parameter is an input by itself (whatever it is rebound to later)
            for v in lc.values_of(nm):
                nxt |= names_in(v)
        frontier = nxt
    read = {n.id for n in ast.walk(fn) if isinstance(n, ast.Name) and isinstance(n.ctx, ast.Load)}
    return [p for p in _params(fn) if p in read and p not in named]
