"""C05 - document text is only ever data, never code."""
from __future__ import annotations

import ast
from typing import Any

from .. import lexstate as LX
from ..charclass import S, members
from ..core import PKG, Report
from ..domain import (CONFIG, CONST, ENUM, IDENT, JSONREPR, NONFINITE, NUM, PYREPR, RAW, RAW_NONSTR, REPR_OF_ESC, UNKNOWN, WORD,
                      is_esc)
from ..astutil import Locals, local_names
from ..pyindex import dotted
from .c05_sites import SiteNames

ALWAYS_OK = {CONST, ENUM, NUM, IDENT, WORD, CONFIG}
CODE_ONLY = {PYREPR, JSONREPR, REPR_OF_ESC, "REPR_OF_ESC_T"}

LEVEL = ("static taint/context analysis over ALL interpolation sites of ALL templates: every hole of every output "
         "expression and of every string fragment built in template expressions is given (a) the lexical state of the "
         "generated language at that point and (b) the set of provenance labels of the text that can reach it "
         "(interprocedural abstract interpretation of the Python model + Jinja templates); a site is discharged iff "
         "every label is admitted by the context. A for-all over documents, because a document can only reach "
         "generated text through one of the enumerated sites.")


def breaking_for(e: Any) -> set[str]:
    """Characters that can terminate / corrupt the lexical context of emission e (R05.2 oracle)."""
    kind = e.kind.replace("TOML_", "")
    if "STR" not in kind:
        return set()
    q = kind[-1]
    triple = "STR3" in kind
    pre = kind.split("STR")[0]
    raw = "R" in pre
    f = "F" in pre
    out = {q}
    if triple:
        if not raw:
            out.add("\\")       # escape sequences are interpreted (\x.., \N{..}, \u.. can be malformed)
        elif not e.follow_ok:
            out.add("\\")       # a trailing backslash would swallow the closing quote
    else:
        out |= {"\\", "\n", "\r"}
    if f:
        out |= {"{", "}"}
    return out


def run(rep: Report, ctx: Any) -> str:
    it, ji = ctx.flow
    ix = ctx.py
    rep.rule("R05.1", "every hole of every template output expression / fragment receives only labels admitted by the "
                      "lexical context of the generated language at that point (CODE: literals, sanitised names, numbers, "
                      "reprs; string contexts: the same minus reprs, plus escaped text whose escape neutralises the "
                      "context's breaking characters)")
    rep.rule("R05.2", "the escaping primitive neutralises every character that can break each context it is used in")
    rep.rule("R05.3", "Value.python_code is built from reprs / checked numbers / sanitised names / literals, never pasted")
    rep.rule("R05.4", "escaped text is not escaped a second time by repr() (run-time value would differ from the document)")
    rep.rule("R05.5", "sanitiser alphabets (E6) contain no character that can break any context they are emitted in")
    rep.rule("R05.6", "a float is rendered into code (Value.python_code, a code-context hole) only on paths on which math.isfinite - or "
                      "isinf and isnan - has excluded infinities and NaN: their str()/repr() are the bare names `inf` / `nan`")

    rep.floor("templates", len(ctx.jinja.templates), 30)
    rep.floor("emission_holes", len(ji.emissions), 380)
    rep.floor("rendered_templates", len(ji.render_kwargs), 14)
    rep.floor("python_functions", len(ix.all_functions), 140)
    if ji.unsupported:
        rep.observe(f"template constructs interpreted conservatively: {ji.unsupported}")
    rep.indexed.update({"python_rounds": it.rounds, "resolved_calls": it.resolved_calls,
                        "unresolved_calls": sum(it.unresolved_calls.values()), "macro_contexts": sum(len(v) for v in ji.macro_ctx.values())})
    rep.assumptions += [
        "the user's own configuration, CLI arguments and working directory are not hostile (label CONFIG admitted everywhere)",
        "Python / TOML lexical rules as encoded in sa/lexstate.py",
        "label transfer functions of sa/absint.py (repr -> PYREPR, str(number) -> NUM, escaping replace-chains -> ESC:<chars>)",
    ]

    # ---- escape primitive anchor -------------------------------------------------------------------------------
    esc_sites = it.escape_sites
    rep.require(esc_sites, "no escaping replace-chain found (utils.remove_string_escapes gone or no longer escapes)")
    esc_funcs = sorted({v["func"] for v in esc_sites.values()})
    rep.indexed["escape_primitives"] = esc_funcs

    # ---- R05.5 sanitiser alphabets -------------------------------------------------------------------------------
    danger = set("\"'\\\n\r#()[]{};:=,@`$!%^&*+<>?|~/\t\x0b\x0c\x00")
    dbits = 0
    for ch in danger:
        dbits |= 1 << ord(ch)
    for q, cs in sorted(ctx.sanitizer_charsets.items()):
        bad = cs & dbits
        rep.check(not bad, "R05.5", q, f"sanitiser output may contain {[chr(c) for c in members(bad)]}",
                  lhs=f"alphabet of {q.rsplit('.', 1)[-1]} (E6, all code points)", rhs="no context-breaking character")
    rep.floor("sanitisers_proved", len(ctx.sanitizer_charsets), 3)
    # PythonIdentifier / ClassName (label IDENT)
    ch = ctx.chars
    for cls_name, modes in (("PythonIdentifier", (False, True)), ("ClassName", (None,))):
        f = ix.func(f"{cls_name}.__new__")
        for mode in modes:
            args = {"value": ch.TOP, "prefix": ch.PREFIX, "cls": None}
            if mode is not None:
                args["skip_snake_case"] = mode
            out, _ = ch.run_function(f, args)
            rep.require(isinstance(out, S), f"E6 result for {cls_name}")
            bad = out.any & dbits
            rep.check(not bad, "R05.5", f"{cls_name}.__new__" + (f"[skip_snake_case={mode}]" if mode is not None else ""),
                      f"identifier constructor output may contain {[chr(c) for c in members(bad)]}",
                      lhs="alphabet of constructor result (E6, all code points)", rhs="no context-breaking character")

    # ---- R05.1 / R05.2 per emission --------------------------------------------------------------------------------
    inadequate: dict[tuple[str, str], dict[str, Any]] = {}
    unreached = 0
    int_enum_guard = _int_enum_guard(ix, it)
    sites = SiteNames(ctx.jinja)
    renamed = 0
    for ek, e in sorted(ji.emissions.items(), key=lambda kv: (kv[1].template, kv[1].macro, kv[1].expr, kv[1].ordinal, kv[1].state)):
        where = f"{PKG}/templates/{e.template}:{e.line}"
        if not e.labels:
            unreached += 1
            continue
        # a hole that prints a field of a macro parameter is named where its callers name the object (c05_sites): the finding does not
        # move when the line is extracted into a macro, inlined, or moved to an imported template
        keys = [f"{t}::{m}::{x}#{e.ordinal}@{e.kind}<{h}>" for t, m, x, h in sites.names(e.template, e.macro, e.expr, e.hole)]
        renamed += keys != [f"{e.template}::{e.macro}::{e.expr}#{e.ordinal}@{e.kind}<{e.hole}>"]
        if e.kind in ("INERT",):
            for key in keys:
                rep.ok("R05.1", key, sorted(e.labels), "inert context", nontrivial=False)
            continue
        bad: set[str] = set()
        brk = breaking_for(e)
        for key in keys if "REPR_OF_ESC_T" in e.labels else ():
            rep.fail("R05.4", key, "a template applies %r/repr to text that was already escaped: the emitted literal "
                                   "differs from the document's text (e.g. a wire key no longer matches)", where=where,
                     lhs=sorted(e.labels), rhs="no double escaping")
        for l in e.labels:
            if l in ALWAYS_OK:
                continue
            if l == NONFINITE:
                # `inf` / `nan` are harmless as text (strings, comments) but are names, not literals, where code is expected
                if e.kind == "CODE":
                    bad.add(l)
                continue
            if l == REPR_OF_ESC and e.kind in ('STR3"', 'RSTR3"') and "'" not in e.kind:
                # repr of dq-escaped text: every '"' is preceded by a doubled backslash and the repr ends with its own
                # quote, so it can neither form '"""' nor end in a backslash; with FACT:nb it contains no quote at all
                continue
            if l in CODE_ONLY:
                if e.kind != "CODE":
                    bad.add(l)
                continue
            if is_esc(l):
                neutral = set(l[4:])
                if e.kind in ("CODE", "COMMENT", "ERR"):
                    if e.kind == "CODE" and e.template == "int_enum.py.jinja" and int_enum_guard:
                        continue  # frozen idiom, see _int_enum_guard
                    bad.add(l)
                    continue
                missing = brk - neutral
                if missing:
                    for fn in esc_funcs:
                        d = inadequate.setdefault((fn, e.kind), {"missing": set(), "sites": []})
                        d["missing"] |= missing
                        d["sites"].append(f"{e.template}:{e.line} {e.expr}")
                continue
            bad.add(l)
        for key in keys:
            if bad:
                rep.fail("R05.1", key,
                         f"text labelled {sorted(bad)} reaches a {e.kind} context (state {e.state}) in hole `{e.hole}` "
                         f"of `{{{{ {e.expr} }}}}` (written in {e.template}::{e.macro}; value origin: {e.origin or 'n/a'})",
                         where=where, lhs=sorted(e.labels), rhs=f"admitted in {e.kind}", labels=sorted(e.labels), state=e.state)
            else:
                rep.ok("R05.1", key, sorted(e.labels), f"admitted in {e.kind}")
    rep.indexed["unreached_holes"] = unreached
    rep.observe(f"{renamed} holes print a field of a macro parameter and are named at the macro's callers")
    for (fn, kind), d in sorted(inadequate.items()):
        rep.fail("R05.2", f"{fn}@{kind}",
                 f"escaped text reaches {kind} contexts but the escape does not neutralise {sorted(d['missing'])} "
                 f"({len(d['sites'])} sites, e.g. {d['sites'][:3]})",
                 where=next(iter(esc_sites)), lhs=sorted({v['chars'] for v in esc_sites.values()}), rhs=sorted(d["missing"]),
                 sites=d["sites"][:12])
    kinds_with_esc = {e.kind for e in ji.emissions.values() if any(is_esc(l) for l in e.labels)}
    for kind in sorted(kinds_with_esc - {k for (_, k) in inadequate} - {"CODE", "INERT"}):
        rep.ok("R05.2", f"{esc_funcs[0]}@{kind}", "escape set", f"covers breaking characters of {kind}")

    # positive control: a RAW label in a "..." context must be rejected by the admission table
    class _E:
        kind = 'STR1"'
        follow_ok = True
    rep.control("R05.1 raw-in-dq", RAW not in ALWAYS_OK and '"' in breaking_for(_E))

    # ---- R05.3 / R05.4 python_code --------------------------------------------------------------------------------
    last: dict[str, tuple[Any, str]] = {}
    for where, pc, fq in it.value_ctor_sites:
        last[where] = (pc, fq)
    rep.floor("value_constructions", len(last), 12)
    for where, (pc, fq) in sorted(last.items()):
        key = fq.replace(PKG + ".", "") + "::Value"
        line_key = key + "#" + _norm_ctor(ix, where)
        pasted = {l for l in pc.labels if l in (RAW, UNKNOWN, RAW_NONSTR) or is_esc(l)}
        rep.check(not pasted, "R05.3", line_key,
                  f"python_code contains text labelled {sorted(pasted)} (document text pasted into code)", where=where,
                  lhs=sorted(pc.labels), rhs="PYREPR/NUM/IDENT/CONST only")
        rep.check(NONFINITE not in pc.labels, "R05.6", line_key,
                  "python_code is str()/repr() of a float that is not known to be finite on this path: an infinity or NaN in the document "
                  "(YAML `.inf`, \"1e999\") is pasted as the bare name `inf` / `nan`", where=where,
                  lhs=sorted(pc.labels), rhs="math.isfinite (or isinf and isnan) excluded before the value is rendered")
        rep.check(REPR_OF_ESC not in pc.labels, "R05.4", line_key,
                  "repr() is applied to text that was already escaped: the run-time value differs from the document's",
                  where=where, lhs=sorted(pc.labels), rhs="no REPR_OF_ESC")
    _document_models_keep_text(rep, ix)
    _rendered_text_is_written_as_rendered(rep, ix, it)
    rep.not_decided += ["nothing about run-time values is needed; residual trust is the admission table and the transfer functions"]
    return LEVEL


# pydantic configuration switches that rewrite or reject string values while the document is decoded, before any parser code sees them
REWRITING_MODEL_OPTIONS = {
    "str_strip_whitespace": "leading / trailing whitespace of every string field and mapping key is dropped",
    "str_to_lower": "every string is lower-cased",
    "str_to_upper": "every string is upper-cased",
    "str_max_length": "strings longer than the limit are rejected",
    "str_min_length": "strings shorter than the limit are rejected",
    "coerce_numbers_to_str": "numbers are turned into text",
    "alias_generator": "field names are rewritten by a function",
}


def _document_models_keep_text(rep: Report, ix: Any) -> None:
    """R05.7: text that is meaningful at run time is reproduced character for character - the document model may not rewrite it while
    decoding.  Every class of the schema package is inspected: `model_config = ConfigDict(...)` / a dict / `class Config:` may not
    switch on an option that rewrites strings (frozen table above: the options pydantic v2 documents as doing so)."""
    rep.rule("R05.7", "no class of the document model (schema package) switches on a pydantic option that rewrites or filters string values "
                      "while the document is decoded (str_strip_whitespace, str_to_lower / upper, str length limits, number-to-string "
                      "coercion, alias generators): names, consts and keys reach the parser as the document spells them")
    n = 0
    for c in ix.classes.values():
        if ".schema." not in c.module.name + ".":
            continue
        settings: list[tuple[str, ast.expr, ast.AST]] = []
        for st in c.node.body:
            if isinstance(st, (ast.Assign, ast.AnnAssign)) and st.value is not None:
                tg = st.targets[0] if isinstance(st, ast.Assign) else st.target
                if isinstance(tg, ast.Name) and tg.id == "model_config":
                    v = st.value
                    if isinstance(v, ast.Call):
                        settings += [(k.arg, k.value, st) for k in v.keywords if k.arg]
                        if any(k.arg is None for k in v.keywords):
                            settings.append(("**", ast.Constant(value=True), st))
                    elif isinstance(v, ast.Dict):
                        settings += [(k.value, val, st) for k, val in zip(v.keys, v.values) if isinstance(k, ast.Constant) and isinstance(k.value, str)]
                    n += 1
            elif isinstance(st, ast.ClassDef) and st.name == "Config":
                for s2 in st.body:
                    if isinstance(s2, ast.Assign) and len(s2.targets) == 1 and isinstance(s2.targets[0], ast.Name):
                        settings.append((s2.targets[0].id, s2.value, s2))
                n += 1
        bad = sorted(k for k, v, _ in settings if (k in REWRITING_MODEL_OPTIONS or k == "**")
                     and not (isinstance(v, ast.Constant) and v.value in (False, None)))
        if settings or bad:
            rep.check(not bad, "R05.7", f"{c.qual.replace(PKG + '.', '')}::model_config",
                      "the document model rewrites text before the parser sees it: " + "; ".join(f"{k}: {REWRITING_MODEL_OPTIONS.get(k, 'options not enumerable')}" for k in bad),
                      where=f"{c.module.rel}:{c.node.lineno}", lhs=sorted({k for k, _, _ in settings}), rhs="no text-rewriting option")
    rep.floor("document_model_configs", n, 10)


def _norm_ctor(ix: Any, where: str) -> str:
    """Key material for the Value(...) call at `where`, independent of line numbers and of how locals are spelled: the python_code
    argument with a local that has one definition replaced by that definition (one level) and every remaining variable shown as `_`
    - `Value(python_code=repr(esc(value)))` and `code = repr(esc(text)); Value(python_code=code)` read the same."""
    import copy

    rel, _, line = where.rpartition(":")
    for m in ix.modules.values():
        if m.rel != rel:
            continue
        fns = [f for f in ast.walk(m.tree) if isinstance(f, (ast.FunctionDef, ast.AsyncFunctionDef))
               and f.lineno <= int(line) <= (f.end_lineno or f.lineno)]
        fn = max(fns, key=lambda f: f.lineno) if fns else None
        for n in ast.walk(m.tree):
            if isinstance(n, ast.Call) and getattr(n, "lineno", -1) == int(line) and (dotted(n.func) or "").endswith("Value"):
                arg = next((kw.value for kw in n.keywords if kw.arg == "python_code"), n.args[0] if n.args else None)
                if arg is None:
                    continue
                if fn is None:
                    return ast.unparse(arg)
                lc = Locals(fn)
                variables = local_names(fn) | {a.arg for a in [*fn.args.posonlyargs, *fn.args.args, *fn.args.kwonlyargs]}
                callees = {id(c.func) for c in ast.walk(arg) if isinstance(c, ast.Call)}

                class Inline(ast.NodeTransformer):
                    def visit_Name(self, x: ast.Name) -> ast.AST:
                        vals = lc.values_of(x.id) if x.id in local_names(fn) else []
                        return copy.deepcopy(vals[0]) if len(vals) == 1 and isinstance(vals[0], ast.expr) else x

                class Blank(ast.NodeTransformer):
                    def visit_Call(self, c: ast.Call) -> ast.AST:
                        c.args = [self.visit(a) for a in c.args]
                        c.keywords = [ast.keyword(arg=k.arg, value=self.visit(k.value)) for k in c.keywords]
                        if not isinstance(c.func, ast.Name):
                            c.func = self.visit(c.func)
                        return c

                    def visit_Name(self, x: ast.Name) -> ast.AST:
                        return ast.Name(id="_", ctx=x.ctx) if x.id in variables else x

                e = Inline().visit(copy.deepcopy(arg))
                e = Blank().visit(e if isinstance(e, ast.AST) else arg)
                return ast.unparse(ast.fix_missing_locations(e))
    return "?"


def _int_enum_guard(ix: Any, it: Any = None) -> bool:
    """Frozen idiom: int_enum.py.jinja is rendered only under a test that the enum's value_type is int, and
    EnumProperty.build rejects enums whose values are not all of one type - so its `{{ value }}` holes are ints.
    Decided on paths, not on the shape of the code: the abstract interpreter records, for every render call, the branch
    conditions under which it is reached *for each template the receiver may be* (the rest of a block is interpreted once per
    branch when the branches select different templates, so `t = A if c else B; t.render(...)` and `if c: A.render(...)` give
    the same conditions).  Every render of int_enum.py.jinja must lie under `<x>.value_type is int` (or the false arm of
    `is not int`)."""
    if it is None:
        return False
    conds = it.render_conds.get("int_enum.py.jinja")
    if not conds:
        return False

    def is_int_test(src: str, pol: bool) -> bool:
        try:
            t = ast.parse(src, mode="eval").body
        except SyntaxError:
            return False
        if isinstance(t, ast.Compare) and len(t.ops) == 1 and isinstance(t.left, ast.Attribute) and t.left.attr == "value_type" \
                and isinstance(t.comparators[0], ast.Name) and t.comparators[0].id == "int":
            if isinstance(t.ops[0], (ast.Is, ast.Eq)):
                return pol
            if isinstance(t.ops[0], (ast.IsNot, ast.NotEq)):
                return not pol
        return False

    return all(any(is_int_test(src, pol) for src, pol in path) for path in conds)



# ---- R05.8: what is written is what was rendered --------------------------------------------------------------------------------
def _rendered_text_is_written_as_rendered(rep: Report, ix: Any, it: Any) -> None:
    """R05.1 decides the lexical context of every hole in the text a template *renders*.  That is a statement about the generated
    file only if the file receives this text: every value of `Template.render(...)` is followed forward - through locals, conditional
    expressions, parameters of package functions it is handed to, return values back to the callers - and may only be compared /
    tested, dropped, or arrive as the data of a text write (`write_text`, `<file>.write`).  Any other use (a method of the text, an
    operator, a slice, formatting, a call that is not a function of the package) makes the written text a function of the rendered
    text that this check has not analysed: line splitting, re-joining, stripping, dedenting, re-encoding all move or remove characters
    that the contexts were computed with."""
    from .effects import bind_call, callee_of

    rep.rule("R05.8", "the text a template renders reaches the file unchanged: every Template.render(...) value flows - through locals, "
                      "conditional expressions, parameters of package functions and their return values - only into the data operand "
                      "of a text write (write_text / <file>.write), a comparison or a truth test; no string method, operator, slice, "
                      "formatting or foreign call is applied on the way (the lexical contexts of R05.1 are those of the rendered text)")
    parents: dict[str, dict[int, ast.AST]] = {}

    def parent_of(f: Any, n: ast.AST) -> "ast.AST | None":
        tab = parents.get(f.qual)
        if tab is None:
            tab = {id(c): p for p in ast.walk(f.node) for c in ast.iter_child_nodes(p)}
            parents[f.qual] = tab
        return tab.get(id(n))

    def own_names(f: Any, name: str) -> list[ast.Name]:
        """loads of the local / parameter `name` in f, not inside nested functions that rebind it"""
        return [n for n in ast.walk(f.node) if isinstance(n, ast.Name) and n.id == name and isinstance(n.ctx, ast.Load)]

    call_sites: dict[str, list[tuple[Any, ast.Call]]] = {}

    def callers_of(g: Any) -> list[tuple[Any, ast.Call]]:
        if not call_sites:
            for f in ix.all_functions:
                for c in ast.walk(f.node):
                    if isinstance(c, ast.Call):
                        h = callee_of(ix, f, c)
                        if h is not None:
                            call_sites.setdefault(h.qual, []).append((f, c))
            call_sites.setdefault("", [])
        return call_sites.get(g.qual, [])

    def bind_target(f: Any, tgt: ast.AST, path: tuple, seen: set, out: list, written: list, lost: list) -> None:
        """tgt receives a value that holds the rendered text at `path` (() = is the text)"""
        if isinstance(tgt, ast.Name):
            for use in own_names(f, tgt.id):
                follow(f, use, path, seen, out, written, lost)
        elif isinstance(tgt, (ast.Tuple, ast.List)) and path and isinstance(path[0], int) and not any(isinstance(e, ast.Starred) for e in tgt.elts):
            if path[0] < len(tgt.elts):
                bind_target(f, tgt.elts[path[0]], path[1:], seen, out, written, lost)
        elif path:
            lost.append(f"{f.module.rel}:{getattr(tgt, 'lineno', 0)}")
        else:
            out.append((f"stored in {ast.unparse(tgt)[:60]}", f"{f.module.rel}:{getattr(tgt, 'lineno', 0)}"))

    def follow(f: Any, n: ast.AST, path: tuple, seen: set, out: list, written: list, lost: list) -> None:
        """n: an expression of f whose value is the rendered text (path == ()) or a tuple / iterable that holds it: path names the
        position, an int per tuple index and '*' per iteration (`yield p, text` seen from the caller: ('*', 1))"""
        if (f.qual, id(n), path) in seen or len(seen) > 600:
            return
        seen.add((f.qual, id(n), path))
        p = parent_of(f, n)
        at = f"{f.module.rel}:{getattr(n, 'lineno', f.node.lineno)}"
        if p is None or isinstance(p, ast.Expr):
            return
        if isinstance(p, ast.keyword):
            p = parent_of(f, p)
        if isinstance(p, ast.Tuple) and isinstance(p.ctx, ast.Load) and not any(isinstance(e, ast.Starred) for e in p.elts):
            follow(f, p, (next(i for i, e in enumerate(p.elts) if e is n), *path), seen, out, written, lost)
            return
        if isinstance(p, (ast.Yield, ast.Return)):
            sub = ("*", *path) if isinstance(p, ast.Yield) else path
            for g, c in callers_of(f):
                follow(g, c, sub, seen, out, written, lost)
            return
        if isinstance(p, (ast.For, ast.comprehension)) and p.iter is n:
            if path and path[0] == "*":
                bind_target(f, p.target, path[1:], seen, out, written, lost)
            elif path:
                lost.append(at)
            else:
                out.append(("iterated character by character", at))
            return
        if isinstance(p, (ast.Assign, ast.AnnAssign, ast.NamedExpr)) and getattr(p, "value", None) is n:
            for t in (p.targets if isinstance(p, ast.Assign) else [p.target]):
                bind_target(f, t, path, seen, out, written, lost)
            if isinstance(p, ast.NamedExpr):
                follow(f, p, path, seen, out, written, lost)
            return
        if isinstance(p, ast.IfExp):
            if n is not p.test:
                follow(f, p, path, seen, out, written, lost)
            return
        if isinstance(p, ast.BoolOp):
            follow(f, p, path, seen, out, written, lost)      # `text or ""` hands the operand on
            return
        if isinstance(p, (ast.Compare, ast.If, ast.While, ast.Assert)) or (isinstance(p, ast.UnaryOp) and isinstance(p.op, ast.Not)):
            return          # tested, not transformed
        if isinstance(p, ast.Call) and n is not p.func:
            g = callee_of(ix, f, p)
            if g is not None:
                bound = bind_call(ix, f, p, g)
                names = [k for k, v in (bound or {}).items() if v is n]
                a = g.node.args
                if not names or (a.vararg and names[0] == a.vararg.arg) or (a.kwarg and names[0] == a.kwarg.arg):
                    (lost if path else out).append(at if path else (f"handed to {g.name}() in a way that cannot be followed", at))
                    return
                for use in own_names(g, names[0]):
                    follow(g, use, path, seen, out, written, lost)
                return
            if not path:
                if isinstance(p.func, ast.Attribute) and p.func.attr in ("write_text", "write"):
                    data = p.args[0] if p.args else next((k.value for k in p.keywords if k.arg in ("data", "s")), None)
                    if data is n:
                        written.append(at)
                        return
                if isinstance(p.func, ast.Name) and p.func.id == "str" and len(p.args) == 1 and not p.keywords:
                    follow(f, p, path, seen, out, written, lost)
                    return
                out.append((f"passed to {ast.unparse(p.func)[:60]}()", at))
                return
        if isinstance(p, ast.Subscript) and p.value is n and path and isinstance(path[0], int) and isinstance(p.slice, ast.Constant):
            if p.slice.value == path[0]:
                follow(f, p, path[1:], seen, out, written, lost)
            return
        if path:
            lost.append(at)       # a collection that holds the text goes somewhere this rule does not follow: undecided, not a violation
            return
        if isinstance(p, ast.Starred):
            out.append((f"unpacked with * in {ast.unparse(p)[:60]}", at))
        elif isinstance(p, ast.Attribute):
            out.append((f"`.{p.attr}` of the rendered text", at))
        else:
            out.append((f"{type(p).__name__} `{ast.unparse(p)[:70]}`", at))

    followed: set[str] = set()
    for f in ix.all_functions:
        for c in ast.walk(f.node):
            if not (isinstance(c, ast.Call) and isinstance(c.func, ast.Attribute) and c.func.attr == "render"):
                continue
            recv = it.node_av.get(id(c.func.value))
            if recv is None or "jinja2.Template" not in recv.types:
                continue
            if any(g is not f and g.parent is f and g.node.lineno <= c.lineno <= (g.node.end_lineno or 0) for g in ix.all_functions):
                continue    # belongs to a nested function, visited as such
            names = sorted(x for x in (recv.consts or ()) if isinstance(x, str))
            followed |= set(names) or {f"{f.qual}:{c.lineno}"}
            out: list[tuple[str, str]] = []
            written: list[str] = []
            lost: list[str] = []
            follow(f, c, (), set(), out, written, lost)
            if lost and not out:
                rep.observe(f"R05.8: the text rendered at {f.module.rel}:{c.lineno} enters a collection that is not followed further ({sorted(set(lost))[:3]})")
            for tn in names or [f"<template of {f.qual.replace(PKG + '.', '')}>"]:
                rep.check(not out, "R05.8", f"{tn}::rendered-text-written-as-rendered",
                          "the rendered text is changed before it is written (" + "; ".join(f"{w} at {a}" for w, a in out[:4]) + "): the generated "
                          "file is not the text whose holes R05.1 placed in their lexical contexts - a transformation that moves, removes or "
                          "splits at characters of document text (line splitting also splits at U+2028, U+0085, FF, VT ... inside string "
                          "literals) can turn data into code or break the file",
                          where=out[0][1] if out else f"{f.module.rel}:{c.lineno}",
                          lhs=[w for w, _ in out] or f"written at {sorted(set(written))[:3]}", rhs="render(...) value is the data of the write")
    rep.floor("rendered_templates_followed", len(followed), 8)
