"""C04 - responses are decoded per documented status and media type (structural clauses)."""
from __future__ import annotations

import ast
import dataclasses
import re
from typing import Any

from jinja2 import nodes

from .. import tplq
from ..astutil import Locals, call_name, calls_in, norm, region, short, stmt_of, truth_table, where
from ..cfg import CFG
from ..core import PKG, Report
from ..jinja_interp import expr_text
from .c06 import MAY_RAISE, caught, handlers_around

LEVEL = ("structural clauses: one status test per parsed response, a return is emitted in every status branch under every assignment "
         "of its guards and `return None` only where the plain variants are not generated (truth tables), the unexpected-status tail "
         "(raise or None) is unconditional and the dedicated error's constructor applies no conversion to the body that can raise; the "
         "media-type -> source table read off the tests on the result of get_content_type equals the table in the property statement and "
         "each source pairs an httpx accessor with its type; every path to property_from_data passes the no-content and no-schema "
         "tests (CFG dominance, guards evaluated); construct-or-cast; a failing type check of a union member aborts decoding only when "
         "nothing can follow it (truth table, flag found by role); _build_response forwards status, content, headers, parsed; "
         "blocking/asyncio parity; status parsing contained; reference resolution converges (shared with C20).")


# ---- helpers -----------------------------------------------------------------------------------------------------------------

def _k3(e: ast.expr, known: dict[str, bool]) -> bool | None:
    """Kleene evaluation of a Python test under partial knowledge (atom text -> truth value); None = not determined"""
    if isinstance(e, ast.BoolOp):
        vals = [_k3(v, known) for v in e.values]
        if isinstance(e.op, ast.And):
            return False if any(v is False for v in vals) else (True if all(v is True for v in vals) else None)
        return True if any(v is True for v in vals) else (False if all(v is False for v in vals) else None)
    if isinstance(e, ast.UnaryOp) and isinstance(e.op, ast.Not):
        v = _k3(e.operand, known)
        return None if v is None else not v
    return known.get(norm(e))


def _absent(names: set[str], is_none: bool) -> dict[str, bool]:
    """what the tests on a falsy value evaluate to: the value is None (is_none) or an empty container"""
    out: dict[str, bool] = {}
    for x in names:
        out[x] = False
        out[f"{x} is None"] = is_none
        out[f"{x} is not None"] = not is_none
    return out


def _calls_empty_response(stmts: list[ast.stmt]) -> bool:
    return any(isinstance(r, ast.Return) and any(call_name(c).rsplit(".", 1)[-1] == "empty_response" for c in calls_in(r)) for r in stmts)


def _empty_guard(fn: ast.AST, cfg: CFG, site: ast.stmt, scenarios: list[dict[str, bool]]) -> ast.If | None:
    """an `if` that every path to `site` passes and whose test, in each scenario, decides for the branch returning empty_response(...)
    (whichever branch that is, whatever else the test mentions)"""
    for i in ast.walk(fn):
        if not isinstance(i, ast.If):
            continue
        ok = True
        for known in scenarios:
            v = _k3(i.test, known)
            if v is None or not _calls_empty_response(i.body if v else i.orelse):
                ok = False
                break
        if ok and i is not site and cfg.is_dominated_by(site, lambda n, i=i: n is i):
            return i
    return None


def _tpl_stmts(body: list[nodes.Node], types: tuple, guards: tuple = (), gnodes: tuple = (), loops: tuple = ()):
    """statements of the given node types with the conditions / loops they sit under (tplq.frags yields output only)"""
    for n in body:
        if isinstance(n, types):
            yield tplq.Frag(type(n).__name__, "", n.lineno, guards, gnodes, loops, n)
        if isinstance(n, nodes.If):
            t = expr_text(n.test)
            yield from _tpl_stmts(n.body, types, guards + ((t, True),), gnodes + (n.test,), loops)
            neg = guards + ((t, False),)
            gn = gnodes + (n.test,)
            for el in n.elif_:
                t2 = expr_text(el.test)
                yield from _tpl_stmts(el.body, types, neg + ((t2, True),), gn + (el.test,), loops)
                neg = neg + ((t2, False),)
                gn = gn + (el.test,)
            yield from _tpl_stmts(n.else_, types, neg, gn, loops)
        elif isinstance(n, nodes.For):
            yield from _tpl_stmts(n.body, types, guards, gnodes, loops + (expr_text(n.iter),))
            yield from _tpl_stmts(n.else_, types, guards, gnodes, loops)
        elif isinstance(n, (nodes.With, nodes.Scope, nodes.CallBlock, nodes.FilterBlock)):
            yield from _tpl_stmts(getattr(n, "body", []), types, guards, gnodes, loops)


def _python_of(frs: list) -> ast.Module | None:
    """the Python module a template consists of, every output expression replaced by a name"""
    try:
        return ast.parse("".join(f.text if f.kind == "data" else "__expr__" for f in frs))
    except SyntaxError:
        return None


# error handlers of bytes.decode that never raise
LENIENT_DECODE = {"ignore", "replace", "backslashreplace", "surrogateescape"}


def run(rep: Report, ctx: Any) -> str:
    ix = ctx.py
    jx = ctx.jinja
    it, ji = ctx.flow
    et = jx.templates.get("endpoint_module.py.jinja")
    rep.require(et, "endpoint_module.py.jinja")
    rep.rule("R04.1", "status dispatch is total over parsed responses: one `if response.status_code == ...` per element of "
                      "endpoint.responses; under every assignment of the guards a status branch emits a return, and whenever the plain "
                      "variants (`def sync(`) are generated it is the decoded value, never None; the tail (raise UnexpectedStatus if "
                      "client.raise_on_unexpected_status else return None) is emitted unconditionally")
    rep.rule("R04.2", "media type -> source, decided on the result of get_content_type (overrides applied): text/* -> response.text:str, "
                      "application/json and +json -> response.json(), application/octet-stream -> response.content:bytes; no content / no "
                      "schema -> None: every path to property_from_data passes a test sending missing/empty content, and one sending a "
                      "None schema, to `return empty_response(...)`")
    rep.rule("R04.3", "construct-or-cast: the kind's construct when it exists, else direct assignment when the types agree, else cast")
    rep.rule("R04.4", "_build_response forwards status_code, content, headers, parsed; sync = sync_detailed(...).parsed")
    rep.rule("R04.5", "status parsing is contained: HTTPStatus(int(code)) sits in a try catching ValueError whose handler records a diagnostic")
    rep.rule("R04.6", "a union member's failing type check raises outside try/except only if it is the last member and no unmodified "
                      "member can still accept the value")
    rep.rule("R04.8", "raising the dedicated error cannot fail itself: every conversion UnexpectedStatus applies to the raw body of an "
                      "undocumented response is total (bytes.decode with a non-raising error handler) or enclosed by a try catching it")
    rep.rule("R04.7", "resolving a $ref'd component response rebinds only `data`: the threaded state and the naming inputs are the same as "
                      "for an inline response (shared with C20)")

    # ---- R04.1 -----------------------------------------------------------------------------------------------------
    top = list(tplq.frags(et.tree.body))
    # (the variable of `for x in endpoint.responses` is canonical: endpoint.responses[*]; a `set` variable reads as its definition)
    st = [f for f in top if f.kind == "expr" and f.text == "endpoint.responses[*].status_code.value"]
    rep.check(len(st) == 1 and st[0].loops == ("endpoint.responses",) and not st[0].guards, "R04.1", "endpoint_module.py.jinja::one-test-per-response",
              "the status test is not emitted once per parsed response", where=f"{PKG}/templates/{et.name}", lhs=[(f.loops, f.guards) for f in st],
              rhs="inside `for response in endpoint.responses`, unguarded")
    rets = [f for f in top if f.kind == "data" and f.loops == ("endpoint.responses",) and re.search(r"^\s*return\b", f.text, re.M)]
    # The plain variants (`def sync(`) exist exactly when the operation has a typed result; that condition - however it is spelled,
    # named or inlined - is what may decide between "return the decoded value" and "return None" in a status branch.
    plain = next((f for f in top if f.kind == "data" and not f.loops and re.search(r"^def sync\(", f.text, re.M)), None)
    # a top-level `set` variable with a single definition is a name for its definition: guards are compared with it unfolded, so naming
    # the condition in one place and writing it out in another is the same decision
    defs: dict[str, list[nodes.Node]] = {}
    for x in _tpl_stmts(et.tree.body, (nodes.Assign,)):
        if isinstance(x.node.target, nodes.Name):
            defs.setdefault(x.node.target.name, []).append(x.node.node)

    def unfold(n: nodes.Node, depth: int = 4) -> nodes.Node:
        if isinstance(n, nodes.Name) and len(defs.get(n.name, ())) == 1 and depth:
            return unfold(defs[n.name][0], depth - 1)
        if isinstance(n, (nodes.And, nodes.Or)):
            return type(n)(unfold(n.left, depth), unfold(n.right, depth))
        if isinstance(n, nodes.Not):
            return nodes.Not(unfold(n.node, depth))
        return n

    def unfolded(f: tplq.Frag) -> tplq.Frag:
        return dataclasses.replace(f, guard_nodes=tuple(unfold(g) for g in f.guard_nodes))

    rets = [unfolded(f) for f in rets]
    none_rets = [f for f in rets if re.search(r"^\s*return None\s*$", f.text, re.M)]
    none_ids = {id(f) for f in none_rets}
    val_rets = [f for f in rets if id(f) not in none_ids]
    plain = unfolded(plain) if plain is not None else None
    names: list[str] = []
    for f in rets + ([plain] if plain is not None else []):
        names += [a for a in tplq.guard_atoms(f) if a not in names]
    rep.require(len(names) <= 12, "guards of the status branches' returns are small enough for a truth table")
    silent_env = None      # an assignment of the guard atoms under which a status branch emits no return at all
    lost_env = None        # ... under which the operation has a typed result, yet a status branch returns None / no decoded value
    for env in tplq.assignments(names):
        emitted = [f for f in rets if tplq.guard_holds(f, env)]
        if not emitted and silent_env is None:
            silent_env = env
        if plain is not None and tplq.guard_holds(plain, env) and lost_env is None and \
                (any(id(f) in none_ids for f in emitted) or all(id(f) in none_ids for f in emitted)):
            lost_env = env
    rep.check(bool(val_rets) and silent_env is None, "R04.1", "endpoint_module.py.jinja::every-branch-returns",
              "a status branch can fall through without returning", where=f"{PKG}/templates/{et.name}", lhs=[len(val_rets), len(none_rets), silent_env],
              rhs="a return is emitted in every status branch under every assignment of its guards")
    rep.check(plain is not None and lost_env is None, "R04.1", "endpoint_module.py.jinja::typed-operation-returns-decoded-value",
              f"an operation with a typed result (the plain `sync` variant is generated) has a status branch that returns None instead of the "
              f"decoded value (e.g. when {lost_env}): a documented response is lost", where=f"{PKG}/templates/{et.name}",
              lhs=[g for f in none_rets for g, _ in f.guards], rhs="`return None` in a status branch only when the plain variants are not generated")
    tail = [f for f in top if f.kind == "data" and "raise errors.UnexpectedStatus(response.status_code, response.content)" in f.text]
    rep.check(len(tail) == 1 and not tail[0].guards and not tail[0].loops and "if client.raise_on_unexpected_status:" in tail[0].text
              and re.search(r"else:\s*\n\s*return None", tail[0].text) is not None, "R04.1", "endpoint_module.py.jinja::unexpected-status-tail",
              "the unexpected-status tail is conditional on the document (or no longer raises / returns None): an undocumented status would not "
              "raise for some endpoints", where=f"{PKG}/templates/{et.name}", lhs=[f.guards for f in tail], rhs="emitted unconditionally")
    es = jx.templates.get("errors.py.jinja")
    emod = _python_of(list(tplq.frags(es.tree.body))) if es is not None else None
    ecls = next((n for n in ast.walk(emod) if isinstance(n, ast.ClassDef) and n.name == "UnexpectedStatus"), None) if emod is not None else None
    rep.check(ecls is not None and any(norm(b).rsplit(".", 1)[-1].endswith(("Exception", "Error")) for b in ecls.bases), "R04.1",
              "errors.py.jinja::UnexpectedStatus", "the dedicated error class is gone", where=f"{PKG}/templates/errors.py.jinja")
    # ---- R04.8: raising the dedicated error must not fail itself ---------------------------------------------------------------
    # `raise errors.UnexpectedStatus(status, body)` runs the class's constructor on the raw body of an arbitrary (undocumented) response:
    # every conversion in the class that can raise on some bytes (may-raise table of C06; bytes.decode unless its error handler is one
    # that never raises) has to be contained, otherwise the caller gets that conversion's exception instead of the dedicated error.
    n_conv = 0
    if ecls is not None:
        for c in calls_in(ecls):
            last = call_name(c).rsplit(".", 1)[-1]
            if last not in MAY_RAISE:
                continue
            n_conv += 1
            total = False
            if last == "decode" and isinstance(c.func, ast.Attribute):
                h = next((k.value for k in c.keywords if k.arg == "errors"), c.args[1] if len(c.args) > 1 else None)
                total = isinstance(h, ast.Constant) and h.value in LENIENT_DECODE
            ok = total or all(caught(x, handlers_around(ecls, c)) for x in MAY_RAISE[last])
            rep.check(ok, "R04.8", f"errors.py.jinja::UnexpectedStatus::{last}-cannot-raise",
                      f"constructing UnexpectedStatus evaluates `{norm(c)}`, which raises {'/'.join(MAY_RAISE[last])} on some response bodies: "
                      "with raise_on_unexpected_status the caller gets that exception instead of the dedicated error",
                      where=f"{PKG}/templates/errors.py.jinja:{c.lineno}", lhs=norm(c), rhs="total conversion (non-raising error handler) or enclosing try")
    rep.indexed["unexpected_status_conversions"] = n_conv  # no floor: a constructor without conversions satisfies the rule

    # ---- R04.2 --------------------------------------------------------------------------------------------------------
    rmod = ix.modules.get(f"{PKG}.parser.responses")
    rep.require(rmod, "responses module")
    consts = {}
    for name, val in rmod.variables.items():
        if isinstance(val, ast.Call) and call_name(val) == "_ResponseSource":
            consts[name] = {k.arg: k.value.value for k in val.keywords if isinstance(k.value, ast.Constant)}
    want_src = {"JSON_SOURCE": ("response.json()", "Any"), "BYTES_SOURCE": ("response.content", "bytes"),
                "TEXT_SOURCE": ("response.text", "str"), "NONE_SOURCE": ("None", "None")}
    for nm, (attr, rt) in want_src.items():
        got = consts.get(nm, {})
        rep.check(got.get("attribute") == attr and got.get("return_type") == rt, "R04.2", f"responses::{nm}",
                  f"{nm} pairs {got.get('attribute')} with {got.get('return_type')}", where=f"{rmod.rel}", lhs=got, rhs={"attribute": attr, "return_type": rt})
    sb = ix.func("responses._source_by_content_type")
    # The table is read off the tests applied to the *result of get_content_type* (the parsed media type with content_type_overrides
    # applied), whatever that local is called; a test applied to anything else (the raw key) is listed apart and makes the table differ.
    sl = Locals(sb.node)
    parsed = set(sl.bound_from(lambda v: "get_content_type(" in v, "assign"))

    def tag(e: ast.AST) -> str:
        return "" if isinstance(e, ast.Name) and e.id in parsed else "unoverridden:"

    def outcome(stmts: list[ast.stmt]) -> str | None:
        r = next((x for x in stmts if isinstance(x, (ast.Return, ast.Assign)) and x.value is not None), None)
        return norm(r.value) if r is not None else None

    assoc: dict[str, str] = {}
    for n in ast.walk(sb.node):
        if isinstance(n, ast.If):
            for c in calls_in(n.test):
                if isinstance(c.func, ast.Attribute) and c.func.attr in ("startswith", "endswith") and c.args and isinstance(c.args[0], ast.Constant):
                    # the branch taken when the affix test holds: the one some assignment of the test's atoms reaches only with it true
                    atom = norm(c)
                    tt = list(truth_table(n.test))
                    with_it = {res for env, res in tt if env.get(atom)}
                    without = {res for env, res in tt if not env.get(atom)}
                    branch = n.body if True in with_it and True not in without else n.orelse if False in with_it and False not in without else None
                    v = outcome(branch) if branch else None
                    if v is not None:
                        assoc[f"{tag(c.func.value)}{'prefix' if c.func.attr == 'startswith' else 'suffix'}:{c.args[0].value}"] = v
        if isinstance(n, ast.Dict):
            holders = {nm for nm in sl.defs if any(v is n for v in sl.values_of(nm))}
            keys = [c.args[0] for c in calls_in(sb.node) if isinstance(c.func, ast.Attribute) and c.func.attr == "get" and c.args
                    and (c.func.value is n or isinstance(c.func.value, ast.Name) and c.func.value.id in holders)]
            keys += [x.slice for x in ast.walk(sb.node) if isinstance(x, ast.Subscript)
                     and (x.value is n or isinstance(x.value, ast.Name) and x.value.id in holders)]
            t = "" if keys and all(tag(k) == "" for k in keys) else "unoverridden:"
            for k, v in zip(n.keys, n.values):
                if isinstance(k, ast.Constant):
                    assoc[f"{t}exact:{k.value}"] = norm(v)
    want = {"prefix:text/": "TEXT_SOURCE", "exact:application/json": "JSON_SOURCE", "exact:application/octet-stream": "BYTES_SOURCE",
            "suffix:+json": "JSON_SOURCE"}
    rep.check(assoc == want, "R04.2", "_source_by_content_type::table", f"media type table is {assoc}", where(sb, sb.node), lhs=assoc, rhs=want)
    er = ix.func("responses.empty_response")
    rep.check("source=NONE_SOURCE" in norm(er.node), "R04.2", "empty_response::none-source", "an empty response is not decoded to None", where(er, er.node))
    rfd = ix.func("responses.response_from_data")
    # no content / no schema: the schema that gets decoded is whatever is handed to property_from_data(data=...).  Every path to that call
    # must pass (a) a test that sends "the response's content is missing / empty" and (b) a test that sends "that schema is None" to a
    # branch returning empty_response(...).  Guards are evaluated, not compared: early return or nested if, either polarity.
    site_f = None
    for g in region(ix, rfd):
        if any(call_name(c).rsplit(".", 1)[-1] == "property_from_data" for c in calls_in(g.node)):
            site_f = g
            break
    rep.require(site_f, "property_from_data(...) call in response_from_data or its helpers")
    gl = Locals(site_f.node)
    g_cfg = CFG(site_f.node)
    content_l = set(gl.bound_from(lambda v: v.endswith(".content"), "assign"))
    content_l |= {norm(x) for x in ast.walk(site_f.node) if isinstance(x, ast.Attribute) and x.attr == "content"}
    for c in [c for c in calls_in(site_f.node) if call_name(c).rsplit(".", 1)[-1] == "property_from_data"]:
        site = stmt_of(site_f.node, c)
        schema_e = next((k.value for k in c.keywords if k.arg == "data"), None)
        rep.require(site is not None and schema_e is not None, "data= argument of property_from_data in the response parser")
        no_schema = _empty_guard(site_f.node, g_cfg, site, [_absent({norm(schema_e)}, True)])
        no_content = _empty_guard(site_f.node, g_cfg, site, [_absent(content_l, True), _absent(content_l, False)])
        if no_content is None and site_f is not rfd:
            # the decoding was moved into a helper: the content test may have stayed with the caller, in front of the helper's call
            r_cfg = CFG(rfd.node)
            rl = Locals(rfd.node)
            r_content = set(rl.bound_from(lambda v: v.endswith(".content"), "assign")) | \
                {norm(x) for x in ast.walk(rfd.node) if isinstance(x, ast.Attribute) and x.attr == "content"}
            for c2 in [c2 for c2 in calls_in(rfd.node) if call_name(c2).rsplit(".", 1)[-1] == site_f.name]:
                st2 = stmt_of(rfd.node, c2)
                no_content = no_content or (_empty_guard(rfd.node, r_cfg, st2, [_absent(r_content, True), _absent(r_content, False)]) if st2 is not None else None)
        rep.check(no_content is not None and no_schema is not None, "R04.2", "response_from_data::no-content-and-no-schema",
                  "no content / no schema are not both mapped to the empty response", where(site_f, site),
                  lhs=[norm(i.test) if i is not None else None for i in (no_content, no_schema)],
                  rhs=f"every path to property_from_data(data={norm(schema_e)}) passes `<.content> is missing/empty` and `{norm(schema_e)} is None` tests "
                      "whose positive outcome returns empty_response(...)")

    # ---- R04.3 ----------------------------------------------------------------------------------------------------------
    R = "endpoint.responses[*]"
    cons = [f for f in top if f.kind == "expr" and f.text.startswith(f"prop_template.construct({R}.prop, {R}.source.attribute)")]
    direct = [f for f in top if f.kind == "expr" and f.text == f"{R}.source.attribute" and any(f"{R}.source.return_type eq {R}.prop.get_type_string()" in g and p for g, p in f.guards)]
    casts = [f for f in top if f.kind == "data" and "= cast(" in f.text and any(f"{R}.source.return_type eq" in g and not p for g, p in f.guards)]
    rep.check(bool(cons) and any(g == "prop_template.construct" and p for g, p in cons[0].guards), "R04.3", "endpoint_module.py.jinja::uses-construct",
              "the kind's construct macro is not used when it exists", where=f"{PKG}/templates/{et.name}")
    rep.check(bool(direct) and bool(casts), "R04.3", "endpoint_module.py.jinja::direct-or-cast", "direct assignment / cast selection changed",
              where=f"{PKG}/templates/{et.name}", lhs=[len(direct), len(casts)], rhs="direct when types agree, else cast")

    # ---- R04.4 ------------------------------------------------------------------------------------------------------------
    br = next((f for f in top if f.kind == "data" and "def _build_response(" in f.text), None)
    rep.require(br, "_build_response")
    alltxt = "".join(f.text if f.kind == "data" else "X" for f in top)
    br.text = alltxt[alltxt.index("def _build_response("):alltxt.index("def sync_detailed(")]
    for kw in ("status_code=HTTPStatus(response.status_code)", "content=response.content", "headers=response.headers",
               "parsed=_parse_response(client=client, response=response)"):
        rep.check(kw in br.text, "R04.4", f"_build_response::{kw.split('=')[0]}", f"_build_response does not forward {kw.split('=')[0]}",
                  where=f"{PKG}/templates/{et.name}:{br.line}", lhs=kw, rhs="present")
    data = "".join(f.text for f in top if f.kind == "data")
    rep.check(re.search(r"return sync_detailed\(\s*\n?\s*\n?\s*\)\.parsed", re.sub(r"\s+", " ", data).replace(" ", "")) is not None or
              ").parsed" in data and "return sync_detailed(" in data, "R04.4", "sync::parsed-of-detailed", "sync is not sync_detailed(...).parsed",
              where=f"{PKG}/templates/{et.name}")
    rep.check("return (await asyncio_detailed(" in data and ")).parsed" in data, "R04.4", "asyncio::parsed-of-detailed", "asyncio is not (await asyncio_detailed(...)).parsed",
              where=f"{PKG}/templates/{et.name}")

    # ---- R04.5 --------------------------------------------------------------------------------------------------------------
    ar = ix.func("Endpoint._add_responses")
    hs = [n for n in ast.walk(ar.node) if isinstance(n, ast.Call) and call_name(n) == "HTTPStatus"]
    rep.require(hs, "HTTPStatus(...) in _add_responses")
    for n in hs:
        rep.check(caught("ValueError", handlers_around(ar.node, n)), "R04.5", "_add_responses::status-parse-contained",
                  "an invalid status code key raises out of the parser", where(ar, n))
    tr = next((n for n in ast.walk(ar.node) if isinstance(n, ast.Try)), None)
    rep.check(tr is not None and any("endpoint.errors.append" in norm(s) for h in tr.handlers for s in h.body) and
              any(isinstance(s, ast.Continue) for h in tr.handlers for s in h.body), "R04.5", "_add_responses::bad-status-recorded",
              "a bad status code is not recorded as a diagnostic for the endpoint", where(ar, ar.node))

    # ---- R04.6 ----------------------------------------------------------------------------------------------------------------
    ut = jx.templates.get("property_templates/union_property.py.jinja")
    cm = ut.macros.get("construct")
    rep.require(cm, "union construct")
    frs = list(tplq.frags(cm.body))
    arms_txt: dict[tuple, str] = {}
    for f in frs:
        if f.kind == "data":
            arms_txt[f.guards] = arms_txt.get(f.guards, "") + f.text
    bare = [f for f in frs if f.kind == "data" and "raise TypeError()" in f.text and "try:" not in arms_txt.get(f.guards, "")]
    rep.require(bare, "bare raise TypeError() in union construct")
    # The "an unmodified member was seen" flag is found by its role, not by its spelling: the namespace attribute that the member loop
    # sets to true exactly for members whose template has no construct macro (the alias of the member's imported template is part of
    # the interface; the namespace, its attribute and the loop variable are template-local).
    MEMBERS = "property.inner_properties"
    aliases = {x.node.target for x in _tpl_stmts(cm.body, (nodes.Import,)) if x.loops == (MEMBERS,) and f"{MEMBERS}[*].template" in expr_text(x.node.template)}
    rep.require(aliases, "import of the member's property template in the union construct loop")
    has_construct = {f"{a}.construct" for a in aliases}
    flags = set()
    for x in _tpl_stmts(cm.body, (nodes.Assign,)):
        if x.loops == (MEMBERS,) and isinstance(x.node.target, nodes.NSRef) and isinstance(x.node.node, nodes.Const) and x.node.node.value is True \
                and any(tplq.implies(x, hc, False) for hc in has_construct):
            flags.add(expr_text(x.node.target))
    rep.require(len(flags) == 1, "the flag the union construct loop sets for members without a construct macro")
    unmod = next(iter(flags))
    n_b = 0
    for f in bare:
        n_b += 1
        names = tplq.guard_atoms(f)
        if unmod not in names:
            rep.fail("R04.6", "union_property.py.jinja::construct::bare-raise", "the unguarded `raise TypeError()` does not depend on whether an "
                     "unmodified member can still accept the value", where=f"{PKG}/templates/{ut.name}:{f.line}", lhs=names, rhs=unmod)
            continue
        bad = None
        for env in tplq.assignments(names):
            if tplq.guard_holds(f, env) and (env.get(unmod) or not env.get("loop.last", True)):
                bad = env
                break
        rep.check(bad is None, "R04.6", "union_property.py.jinja::construct::bare-raise",
                  f"a member's type check raises outside try/except although decoding could continue (e.g. {bad}): a value of a scalar "
                  "alternative listed before a model makes from_dict / the response parser raise TypeError", where=f"{PKG}/templates/{ut.name}:{f.line}",
                  lhs=[g for g, _ in f.guards], rhs="implies loop.last and not ns.contains_unmodified_properties")
    rep.floor("bare_type_raises", n_b, 1)
    casts2 = [f for f in frs if f.kind == "data" and not f.loops and "return cast(" in f.text]
    # emitted exactly when an unmodified member exists: both directions by truth table over the guard's atoms
    rep.check(bool(casts2) and tplq.implies(casts2[0], unmod, True) and
              all(tplq.guard_holds(casts2[0], env) for env in tplq.assignments(tplq.guard_atoms(casts2[0])) if env[unmod]),
              "R04.6", "union_property.py.jinja::construct::fallback-cast",
              "the fallback `return cast(...)` for unmodified members is missing or mis-guarded", where=f"{PKG}/templates/{ut.name}")

    # ---- reference convergence (shared with C20) ------------------------------------------------------------------------------
    params = {p.arg for p in rfd.params}
    branch = next((n for n in ast.walk(rfd.node) if isinstance(n, ast.If) and "isinstance(data, oai.Reference)" in norm(n.test)), None)
    rep.require(branch, "reference branch in response_from_data")
    assigned = {x.id for s in branch.body for n in ast.walk(s) if isinstance(n, (ast.Assign, ast.AugAssign))
                for t_ in (n.targets if isinstance(n, ast.Assign) else [n.target]) for x in ast.walk(t_) if isinstance(x, ast.Name)}
    leak = sorted((assigned & params) - {"data"})
    rep.check(not leak, "R04.7", "response_from_data::reference-branch-rebinds-only-data",
              f"resolving a $ref'd component response also changes {leak}: later operations referencing the same component lose the response",
              where(rfd, branch), lhs=sorted(assigned), rhs="{data}")
    rep.not_decided += ["what httpx returns; decoding of values (C02)"]
    return LEVEL
